package main

// termin.go — E10: parser termination. Every loop and every recursive cycle reachable from
// rsql.Parse is classified: bounded by construction (range loops), bounded by a counter compared
// on an exit edge, or input-consuming with an exit taken at end of input. Anything else fails.

import (
	"fmt"
	"go/constant"
	"go/token"
	"go/types"
	"sort"
	"strings"

	"golang.org/x/tools/go/ssa"
)

type loopInfo struct {
	Fn     *ssa.Function
	Blocks map[*ssa.BasicBlock]bool
	Head   *ssa.BasicBlock
}

func sccLoops(fn *ssa.Function) []*loopInfo {
	var out []*loopInfo
	for _, comp := range loopsOf(fn) {
		li := &loopInfo{Fn: fn, Blocks: map[*ssa.BasicBlock]bool{}}
		for _, b := range comp {
			li.Blocks[b] = true
		}
		// header: the block of the SCC with a predecessor outside it, smallest index
		for _, b := range comp {
			for _, p := range b.Preds {
				if !li.Blocks[p] && (li.Head == nil || b.Index < li.Head.Index) {
					li.Head = b
				}
			}
		}
		if li.Head == nil {
			li.Head = comp[len(comp)-1]
		}
		out = append(out, li)
	}
	sort.Slice(out, func(i, j int) bool { return out[i].Head.Index < out[j].Head.Index })
	return out
}

// progressPhi: is v a loop-carried integer whose every in-loop update adds or subtracts something
// to/from itself (phi + c, phi - c, phi + len, …)? Returns the phi.
func (li *loopInfo) progressValue(v ssa.Value) bool {
	seen := map[ssa.Value]bool{}
	var derives func(x ssa.Value, phi *ssa.Phi) bool
	derives = func(x ssa.Value, phi *ssa.Phi) bool {
		if x == ssa.Value(phi) {
			return true
		}
		if seen[x] {
			return false
		}
		seen[x] = true
		switch y := x.(type) {
		case *ssa.BinOp:
			if y.Op == token.ADD || y.Op == token.SUB {
				return derives(y.X, phi) || (y.Op == token.ADD && derives(y.Y, phi))
			}
		case *ssa.Phi:
			if li.Blocks[y.Block()] {
				for _, e := range y.Edges {
					if derives(e, phi) {
						return true
					}
				}
			}
		case *ssa.Convert:
			return derives(y.X, phi)
		}
		return false
	}
	// v itself, or v = phi +/- c
	var phi *ssa.Phi
	var find func(x ssa.Value, d int) *ssa.Phi
	find = func(x ssa.Value, d int) *ssa.Phi {
		if d > 4 {
			return nil
		}
		switch y := x.(type) {
		case *ssa.Phi:
			if li.Blocks[y.Block()] {
				return y
			}
		case *ssa.BinOp:
			if y.Op == token.ADD || y.Op == token.SUB {
				if p := find(y.X, d+1); p != nil {
					return p
				}
				return find(y.Y, d+1)
			}
		case *ssa.Convert:
			return find(y.X, d+1)
		}
		return nil
	}
	phi = find(v, 0)
	if phi == nil || !isIntType(phi.Type()) {
		return false
	}
	// every in-loop incoming edge of the phi is a strict update derived from the phi
	n := 0
	for i, e := range phi.Edges {
		if !li.Blocks[phi.Block().Preds[i]] {
			continue
		}
		n++
		if e == ssa.Value(phi) {
			return false // an iteration that leaves the counter unchanged
		}
		seen = map[ssa.Value]bool{}
		if !derives(e, phi) {
			return false
		}
	}
	return n > 0
}

// counterExit: the loop has an exit edge whose condition compares a progress value with something
// that does not change in the loop.
func (li *loopInfo) counterExit() (bool, string) {
	for b := range li.Blocks {
		iff, ok := b.Instrs[len(b.Instrs)-1].(*ssa.If)
		if !ok {
			continue
		}
		if li.Blocks[b.Succs[0]] && li.Blocks[b.Succs[1]] {
			continue
		}
		// the condition may be a conjunction lowered into control flow: look at the BinOp directly
		bo, ok := iff.Cond.(*ssa.BinOp)
		if !ok {
			continue
		}
		switch bo.Op {
		case token.LSS, token.LEQ, token.GTR, token.GEQ, token.NEQ, token.EQL:
		default:
			continue
		}
		inv := func(v ssa.Value) bool {
			if _, ok := v.(*ssa.Const); ok {
				return true
			}
			if in, ok := v.(ssa.Instruction); ok && li.Blocks[in.Block()] {
				// len(x) of something loop-invariant is invariant
				if c, ok := v.(*ssa.Call); ok {
					if cc, ok := isBuiltinCall(c, "len"); ok {
						if ain, ok := cc.Args[0].(ssa.Instruction); !ok || !li.Blocks[ain.Block()] {
							return true
						}
						// len of a field/param string loaded in the loop
						t := TermOf(cc.Args[0], nil)
						return t.Kind == "field" || t.Kind == "param"
					}
				}
				// a field load of a constant-like bound (e.g. cw.threshold) is treated as invariant
				if u, ok := v.(*ssa.UnOp); ok && u.Op == token.MUL {
					if _, ok := u.X.(*ssa.FieldAddr); ok {
						return true
					}
				}
				return false
			}
			return true
		}
		if li.progressValue(bo.X) && inv(bo.Y) {
			return true, fmt.Sprintf("counter %s compared with %s at %s", TermOf(bo.X, nil), TermOf(bo.Y, nil), bo.Op)
		}
		if li.progressValue(bo.Y) && inv(bo.X) {
			return true, fmt.Sprintf("counter %s compared with %s at %s", TermOf(bo.Y, nil), TermOf(bo.X, nil), bo.Op)
		}
	}
	return false, ""
}

type termCtx struct {
	a        *A
	advances map[*ssa.Function]bool // may reach (*Lexer).readChar
	reach    map[*ssa.Function]bool
}

func (a *A) newTermCtx() *termCtx {
	tc := &termCtx{a: a, advances: map[*ssa.Function]bool{}}
	parse := a.Func("rsql", "Parse")
	roots := []*ssa.Function{parse}
	if np := a.FuncOpt("rsql", "NewParser"); np != nil {
		roots = append(roots, np)
	}
	tc.reach = a.ReachFrom(roots)
	rc := a.Method("rsql", "Lexer", "readChar")
	// functions from which readChar is reachable (within the module)
	cg := a.CG()
	tc.advances[rc] = true
	for changed := true; changed; {
		changed = false
		for _, fn := range a.ModFuncs {
			if tc.advances[fn] {
				continue
			}
			n := cg.Nodes[fn]
			if n == nil {
				continue
			}
			for _, e := range n.Out {
				if e.Callee != nil && tc.advances[e.Callee.Func] {
					tc.advances[fn] = true
					changed = true
					break
				}
			}
		}
	}
	return tc
}

// consumesEveryCycle: removing the blocks that call an advancing function leaves the loop acyclic.
func (tc *termCtx) consumesEveryCycle(li *loopInfo) bool {
	adv := map[*ssa.BasicBlock]bool{}
	for b := range li.Blocks {
		for _, in := range b.Instrs {
			if cal := staticCallee(in); cal != nil && tc.advances[cal] {
				adv[b] = true
			}
		}
	}
	// DFS cycle detection on li.Blocks \ adv
	color := map[*ssa.BasicBlock]int{}
	var cyc bool
	var dfs func(b *ssa.BasicBlock)
	dfs = func(b *ssa.BasicBlock) {
		color[b] = 1
		for _, s := range b.Succs {
			if !li.Blocks[s] || adv[s] {
				continue
			}
			// the back edge of a range loop nested in this loop: going round it is finite, it is not a cycle of
			// the outer loop
			if s != li.Head && (strings.HasPrefix(s.Comment, "rangeindex.loop") || strings.HasPrefix(s.Comment, "rangeiter.loop")) && s.Dominates(b) {
				continue
			}
			if color[s] == 1 {
				cyc = true
			} else if color[s] == 0 {
				dfs(s)
			}
		}
		color[b] = 2
	}
	for b := range li.Blocks {
		if !adv[b] && color[b] == 0 {
			dfs(b)
		}
	}
	return !cyc
}

// exitsAtEOF: with every token being EOF and the lexer's current byte being 0, no path from the
// loop head completes a cycle.
func (tc *termCtx) exitsAtEOF(li *loopInfo) (bool, string) {
	a := tc.a
	eofConst := func(k *ssa.Const) (isTok bool, isEOF bool) {
		n, ok := k.Type().(*types.Named)
		if !ok || n.Obj().Name() != "TokenType" {
			return false, false
		}
		// TokenEOF is looked up by name
		if c, ok := a.Pkg("rsql").Members["TokenEOF"].(*ssa.NamedConst); ok {
			return true, constant.Compare(c.Value.Value, token.EQL, k.Value)
		}
		return true, false
	}
	numOf := func(v ssa.Value, w *Walker) (int64, bool) {
		if k, ok := v.(*ssa.Const); ok && k.Value != nil && k.Value.Kind() == constant.Int {
			return k.Int64(), true
		}
		t := w.Term(v)
		if isFieldOf(t, "rsql.Lexer", "ch") {
			return 0, true
		}
		if t.Kind == "call" && strings.HasSuffix(t.Name, "peekChar") {
			return 0, true
		}
		return 0, false
	}
	var wk *Walker
	env := &Env{a: a, Rank: map[string]int{}, Flags: map[string]bool{}}
	isTokValue := func(t *Term) bool {
		for i := 0; i < 4 && t != nil; i++ {
			if isFieldOf(t, "rsql.Token", "Value") {
				return true
			}
			if t.Kind == "call" && len(t.Args) == 1 && (strings.HasPrefix(t.Name, "strings.To") || strings.HasPrefix(t.Name, "strings.Trim")) {
				t = t.Args[0]
				continue
			}
			return false
		}
		return false
	}
	env.Assume = func(t *Term, v ssa.Value) Tri {
		if env.CurW != nil {
			wk = env.CurW
		}
		bo, ok := v.(*ssa.BinOp)
		if !ok {
			return U
		}
		// the EOF token carries no text: Value == ""
		if k, ok := bo.Y.(*ssa.Const); ok && k.Value != nil && k.Value.Kind() == constant.String && (bo.Op == token.EQL || bo.Op == token.NEQ) {
			if isTokValue(wk.Term(bo.X)) {
				return tri((bo.Op == token.EQL) == (constant.StringVal(k.Value) == ""))
			}
		}
		// token type comparisons
		if k, ok := bo.Y.(*ssa.Const); ok {
			if isTok, isEOF := eofConst(k); isTok && (bo.Op == token.EQL || bo.Op == token.NEQ) {
				return tri((bo.Op == token.EQL) == isEOF)
			}
		}
		// byte comparisons with the current character = 0
		x, okx := numOf(bo.X, wk)
		y, oky := numOf(bo.Y, wk)
		if okx && oky {
			switch bo.Op {
			case token.EQL:
				return tri(x == y)
			case token.NEQ:
				return tri(x != y)
			case token.LSS:
				return tri(x < y)
			case token.LEQ:
				return tri(x <= y)
			case token.GTR:
				return tri(x > y)
			case token.GEQ:
				return tri(x >= y)
			}
		}
		return U
	}
	wk = NewWalker(env, nil)
	wk.RetIdx = -1
	wk.Visits = 1
	first := true
	wk.Stop = func(b *ssa.BasicBlock) bool {
		if b == li.Head && !first {
			return true
		}
		first = false
		return !li.Blocks[b]
	}
	outs := wk.Run(li.Head, nil)
	for _, o := range outs {
		if o.Ended == "overflow" {
			return false, "path budget exceeded"
		}
	}
	// a completed cycle = a path that stopped at the head again. Distinguish by re-walking with a marker.
	completed := false
	why := ""
	wk2 := NewWalker(env, nil)
	wk = wk2
	wk2.RetIdx = -1
	// (a cycle is complete when the loop is entered again after coming back to its head: a loop steered by a
	// flag - `for more := true; more; { … more = tok.Type == TokenComma … }` - tests at the head what the cycle
	// just computed, and leaves there)
	wk2.Visits = 2
	headVisits := 0
	wk2.Stop = func(b *ssa.BasicBlock) bool {
		if b == li.Head {
			headVisits++
			if headVisits > 2 {
				return true
			}
			if headVisits == 2 {
				if _, isIf := b.Instrs[len(b.Instrs)-1].(*ssa.If); !isIf {
					completed = true
					why = wk2.why
					return true
				}
			}
			return false
		}
		if headVisits >= 2 && li.Blocks[b] {
			completed = true
			why = wk2.why
			return true
		}
		return !li.Blocks[b]
	}
	wk2.Run(li.Head, nil)
	if completed {
		return false, "a cycle can be completed with every token EOF / current byte 0 (" + why + ")"
	}
	return true, ""
}

// ruleLoopsTerminate classifies every loop of the functions reachable from rsql.Parse (packages rsql only).
func (a *A) ruleLoopsTerminate() {
	tc := a.newTermCtx()
	nFor := 0
	var fns []*ssa.Function
	for _, fn := range a.ModFuncs {
		if tc.reach[fn] && fn.Pkg != nil && fn.Pkg.Pkg.Path() == modPath+"/rsql" && fn.Blocks != nil {
			fns = append(fns, fn)
		}
		if tc.reach[fn] && fn.Pkg == nil && fn.Parent() != nil && a.fnInModule(fn) && fn.Blocks != nil {
			p := fn
			for p.Parent() != nil {
				p = p.Parent()
			}
			if p.Pkg != nil && p.Pkg.Pkg.Path() == modPath+"/rsql" {
				fns = append(fns, fn)
			}
		}
	}
	classes := map[string]int{}
	var notDecided []string
	for _, fn := range fns {
		for _, li := range sccLoops(fn) {
			nFor++
			construct := fmt.Sprintf("%s#loop@b%d", fname(fn), li.Head.Index)
			pos := li.Head.Instrs[0].Pos()
			if !pos.IsValid() {
				for _, in := range li.Head.Instrs {
					if in.Pos().IsValid() {
						pos = in.Pos()
						break
					}
				}
			}
			if strings.HasPrefix(li.Head.Comment, "rangeindex") || strings.HasPrefix(li.Head.Comment, "rangeiter") {
				classes["range"]++
				a.Ok(construct, pos, "range loop over a finite collection").Trivial = true
				continue
			}
			// a range loop whose header is not the SCC's entry block
			isRange := false
			for b := range li.Blocks {
				if strings.HasPrefix(b.Comment, "rangeindex.loop") || strings.HasPrefix(b.Comment, "rangeiter.loop") {
					// only if that range loop spans the whole SCC (it is the outermost)
					if b == li.Head {
						isRange = true
					}
				}
			}
			if isRange {
				classes["range"]++
				a.Ok(construct, pos, "range loop over a finite collection").Trivial = true
				continue
			}
			if ok, how := li.counterExit(); ok {
				classes["counter"]++
				a.Ok(construct, pos, "bounded: %s", how)
				continue
			}
			if ok, how := li.indexScanExit(); ok {
				classes["index-scan"]++
				a.Ok(construct, pos, "index scan: %s; every cycle assigns the index a new value (monotonicity of the new value is not decided)", how)
				continue
			}
			// string-rewriting helpers (not methods of Lexer/Parser) scan by index with data-dependent
			// jumps; their termination is value-level and is not decided here — listed, not judged
			if !isLexerOrParserFn(fn) {
				notDecided = append(notDecided, construct+" "+a.pos(pos))
				continue
			}
			cons := tc.consumesEveryCycle(li)
			eof, why := tc.exitsAtEOF(li)
			if cons && eof {
				classes["input"]++
				a.Ok(construct, pos, "every cycle consumes input (reaches Lexer.readChar) and the loop is left when the input is exhausted")
				continue
			}
			if !cons {
				a.Bad(construct, pos, "no bounding counter on an exit edge, and a cycle of this loop can run without consuming input: the parser can spin forever on some input")
			} else {
				a.Bad(construct, pos, "the loop consumes input on every cycle but is not left at end of input: %s — NextToken returns EOF forever, so it spins", why)
			}
		}
	}
	a.Info("parser_loops", classes)
	a.Info("parser_loops_not_decided", notDecided)
	a.Info("parser_functions", len(fns))
}

// ruleRecursionBounded: every recursive cycle among the functions reachable from rsql.Parse carries
// a depth bound (a counter compared with a constant that is increased around the recursive call).
func (a *A) ruleRecursionBounded() {
	tc := a.newTermCtx()
	cg := a.CG()
	var fns []*ssa.Function
	inSet := map[*ssa.Function]bool{}
	for _, fn := range a.ModFuncs {
		if tc.reach[fn] && a.fnInModule(fn) && fn.Blocks != nil {
			top := fn
			for top.Parent() != nil {
				top = top.Parent()
			}
			if top.Pkg != nil && top.Pkg.Pkg.Path() == modPath+"/rsql" {
				fns = append(fns, fn)
				inSet[fn] = true
			}
		}
	}
	// Tarjan over static call edges within the set
	succ := func(f *ssa.Function) []*ssa.Function {
		var out []*ssa.Function
		if n := cg.Nodes[f]; n != nil {
			for _, e := range n.Out {
				if e.Callee != nil && inSet[e.Callee.Func] {
					out = append(out, e.Callee.Func)
				}
			}
		}
		return out
	}
	index := map[*ssa.Function]int{}
	low := map[*ssa.Function]int{}
	on := map[*ssa.Function]bool{}
	var stack []*ssa.Function
	var sccs [][]*ssa.Function
	n := 0
	var strong func(f *ssa.Function)
	strong = func(f *ssa.Function) {
		n++
		index[f], low[f] = n, n
		stack = append(stack, f)
		on[f] = true
		for _, s := range succ(f) {
			if index[s] == 0 {
				strong(s)
				if low[s] < low[f] {
					low[f] = low[s]
				}
			} else if on[s] && index[s] < low[f] {
				low[f] = index[s]
			}
		}
		if low[f] == index[f] {
			var comp []*ssa.Function
			for {
				x := stack[len(stack)-1]
				stack = stack[:len(stack)-1]
				on[x] = false
				comp = append(comp, x)
				if x == f {
					break
				}
			}
			self := false
			for _, s := range succ(f) {
				if s == f {
					self = true
				}
			}
			if len(comp) > 1 || self {
				sccs = append(sccs, comp)
			}
		}
	}
	for _, f := range fns {
		if index[f] == 0 {
			strong(f)
		}
	}
	if len(sccs) == 0 {
		a.Ok("recursion", token.NoPos, "no recursive cycle among the %d parser functions", len(fns)).Trivial = true
		return
	}
	for _, comp := range sccs {
		var names []string
		for _, f := range comp {
			names = append(names, fname(f))
		}
		sort.Strings(names)
		construct := "recursion:" + names[0]
		bounded, how := depthBounded(comp)
		if why, ok := reviewedRecursion[names[0]]; ok && len(names) == 1 && !bounded {
			a.Ok(construct, comp[0].Pos(), "reviewed: %s", why)
			continue
		}
		if bounded {
			a.Ok(construct, comp[0].Pos(), "recursive cycle {%s} is depth-bounded: %s", strings.Join(names, ", "), how)
		} else {
			a.Bad(construct, comp[0].Pos(), "recursive cycle {%s} has no depth bound: recursion depth is proportional to the nesting of the input, and a deeply nested statement exhausts the goroutine stack (a fatal, unrecoverable error — not a parse error)", strings.Join(names, ", "))
		}
	}
}

// depthBounded: some function of the cycle returns early when a depth value (a parameter passed as
// depth+1 in the recursive call, or a struct field incremented in the cycle) exceeds a constant.
func depthBounded(comp []*ssa.Function) (bool, string) {
	in := map[*ssa.Function]bool{}
	for _, f := range comp {
		in[f] = true
	}
	guards := map[*ssa.Function]string{}
	guardAt := map[*ssa.Function][]*ssa.BasicBlock{} // the blocks that end in the depth test
	for _, f := range comp {
		found := ""
		nfound := 0
		allInstrs(f, func(x ssa.Instruction) {
			iff, ok := x.(*ssa.If)
			if !ok {
				return
			}
			bo, ok := iff.Cond.(*ssa.BinOp)
			if !ok || !(bo.Op == token.GTR || bo.Op == token.GEQ) {
				return
			}
			if k, ok := bo.Y.(*ssa.Const); !ok || k.Value == nil || k.Int64() <= 0 {
				return
			}
			// the bound must end the recursion: on its true edge no call into the cycle is reachable before return
			tb := iff.Block().Succs[0]
			if reachableFrom(tb, 0, func(y ssa.Instruction) bool {
				cal := staticCallee(y)
				return cal != nil && in[cal]
			}, nil) != nil {
				return
			}
			t := TermOf(bo.X, nil)
			before := nfound
			defer func() {
				if nfound > before {
					guardAt[f] = append(guardAt[f], iff.Block())
				}
			}()
			// parameter depth: a recursive call in the cycle passes param+const
			if p, ok := bo.X.(*ssa.Parameter); ok && isIntType(p.Type()) {
				for _, g := range comp {
					allInstrs(g, func(y ssa.Instruction) {
						c, ok := y.(*ssa.Call)
						if !ok || c.Call.StaticCallee() != f {
							return
						}
						for _, arg := range c.Call.Args {
							if b2, ok := arg.(*ssa.BinOp); ok && b2.Op == token.ADD {
								if _, isP := b2.X.(*ssa.Parameter); isP {
									found = fmt.Sprintf("%s compares its depth parameter %s with a constant and recursive calls pass depth+1", fname(f), p.Name())
									nfound++
								}
							}
						}
					})
				}
			}
			// field depth: incremented in the cycle
			if t.Kind == "field" && isIntType(bo.X.Type()) {
				for _, g := range comp {
					for _, st := range storesToField(g, t.Field) {
						if b2, ok := st.Val.(*ssa.BinOp); ok && b2.Op == token.ADD {
							found = fmt.Sprintf("%s compares the nesting counter %s with a constant; it is incremented in %s", fname(f), t, fname(g))
							nfound++
						}
					}
				}
			}
		})
		if found != "" {
			guards[f] = found
		}
	}
	if len(guards) == 0 {
		return false, ""
	}
	// every cycle must pass a depth test: a call into the component is cut when a test of its function dominates
	// it (the test sits on every way to that call, not merely somewhere in the function - a bound on the '(' branch
	// says nothing about the '{' branch of the same function). Without the cut calls the component is acyclic.
	rest := map[*ssa.Function]bool{}
	for _, f := range comp {
		rest[f] = true
	}
	cut := func(f *ssa.Function, b *ssa.BasicBlock) bool {
		for _, g := range guardAt[f] {
			if g == b || g.Dominates(b) {
				return true
			}
		}
		return false
	}
	callees := func(f *ssa.Function) []*ssa.Function {
		var out []*ssa.Function
		seen := map[*ssa.Function]bool{}
		for _, b := range f.Blocks {
			if cut(f, b) {
				continue
			}
			for _, y := range b.Instrs {
				if cal := staticCallee(y); cal != nil && rest[cal] && !seen[cal] {
					seen[cal] = true
					out = append(out, cal)
				}
				if mc, ok := y.(*ssa.MakeClosure); ok {
					if anon, ok := mc.Fn.(*ssa.Function); ok {
						allInstrs(anon, func(z ssa.Instruction) {
							if cal := staticCallee(z); cal != nil && rest[cal] && !seen[cal] {
								seen[cal] = true
								out = append(out, cal)
							}
						})
					}
				}
			}
		}
		return out
	}
	color := map[*ssa.Function]int{}
	var cyc []string
	var visit func(f *ssa.Function) bool
	visit = func(f *ssa.Function) bool {
		color[f] = 1
		for _, g := range callees(f) {
			if color[g] == 1 {
				cyc = append(cyc, fname(f)+" -> "+fname(g))
				return true
			}
			if color[g] == 0 && visit(g) {
				cyc = append(cyc, fname(f))
				return true
			}
		}
		color[f] = 2
		return false
	}
	for f := range rest {
		if color[f] == 0 && visit(f) {
			return false, ""
		}
	}
	var hows []string
	for _, h := range guards {
		hows = append(hows, h)
	}
	sort.Strings(hows)
	return true, hows[0]
}

// indexScanExit: the loop is left on a comparison of an integer loop variable with a bound that does
// not change in the loop, and no cycle keeps the variable's old value (a `continue` that forgets to
// advance the index is what makes such scans spin).
func (li *loopInfo) indexScanExit() (bool, string) {
	for b := range li.Blocks {
		iff, ok := b.Instrs[len(b.Instrs)-1].(*ssa.If)
		if !ok || (li.Blocks[b.Succs[0]] && li.Blocks[b.Succs[1]]) {
			continue
		}
		bo, ok := iff.Cond.(*ssa.BinOp)
		if !ok {
			continue
		}
		switch bo.Op {
		case token.LSS, token.LEQ, token.GTR, token.GEQ:
		default:
			continue
		}
		for _, side := range []ssa.Value{bo.X, bo.Y} {
			phi, ok := side.(*ssa.Phi)
			if !ok || !li.Blocks[phi.Block()] || !isIntType(phi.Type()) {
				continue
			}
			other := bo.Y
			if side == bo.Y {
				other = bo.X
			}
			if oin, ok := other.(ssa.Instruction); ok && li.Blocks[oin.Block()] {
				if c, ok := other.(*ssa.Call); ok {
					if _, isLen := isBuiltinCall(c, "len"); !isLen {
						continue
					}
				} else {
					continue
				}
			}
			// no in-loop edge keeps the old value
			keeps := false
			var chk func(v ssa.Value, seen map[ssa.Value]bool) bool
			chk = func(v ssa.Value, seen map[ssa.Value]bool) bool {
				if v == ssa.Value(phi) {
					return true
				}
				if seen[v] {
					return false
				}
				seen[v] = true
				if p2, ok := v.(*ssa.Phi); ok && li.Blocks[p2.Block()] {
					for _, e := range p2.Edges {
						if chk(e, seen) {
							return true
						}
					}
				}
				return false
			}
			n := 0
			for i, e := range phi.Edges {
				if !li.Blocks[phi.Block().Preds[i]] {
					continue
				}
				n++
				if chk(e, map[ssa.Value]bool{}) {
					keeps = true
				}
			}
			if n > 0 && !keeps {
				return true, fmt.Sprintf("index %s compared with %s", phiName(phi), TermOf(other, nil))
			}
		}
	}
	return false, ""
}

func phiName(p *ssa.Phi) string {
	if p.Comment != "" {
		return p.Comment
	}
	return p.Name()
}

// reviewedRecursion: self-recursive helpers whose depth is bounded by what they recurse on, not by a counter.
var reviewedRecursion = map[string]string{
	"rsql.detectNestedAggregationRecursive": "recurses only into the argument list of a registered aggregate/analytic/window call and rejects aggregate-in-aggregate, analytic-in-analytic and aggregate-containing-analytic immediately, so the depth is at most 3 whatever the input",
}

func isLexerOrParserFn(fn *ssa.Function) bool {
	for fn.Parent() != nil {
		fn = fn.Parent()
	}
	if fn.Signature.Recv() == nil {
		return false
	}
	return isNamedType(fn.Signature.Recv().Type(), modPath+"/rsql", "Lexer") || isNamedType(fn.Signature.Recv().Type(), modPath+"/rsql", "Parser")
}
