package main

// locktables.go — frozen guard tables (inferred from the access survey, confirmed by reading).

var guardTables = map[string]map[string]GuardSpec{
	"window.TumblingWindow": {
		"data": {Lock: "mu"}, "currentSlot": {Lock: "mu"}, "initialized": {Lock: "mu"},
		"triggeredWindows": {Lock: "mu"}, "callback": {Lock: "mu"}, "timer": {Lock: "timerMu"},
	},
	"window.SlidingWindow": {
		"data": {Lock: "mu"}, "currentSlot": {Lock: "mu"}, "initialized": {Lock: "mu"},
		"triggeredWindows": {Lock: "mu"}, "callback": {Lock: "mu"}, "firstWindowStartTime": {Lock: "mu"},
		"timer": {Lock: "timerMu"},
	},
	"window.SessionWindow": {
		"sessionMap": {Lock: "mu"}, "triggeredSessions": {Lock: "mu"}, "callback": {Lock: "mu"},
		"initialized": {Lock: "mu"}, "ticker": {Lock: "tickerMu"},
	},
	"window.CountingWindow": {
		"keyedBuffer": {Lock: "mu"}, "keyedCount": {Lock: "mu"}, "lastActive": {Lock: "mu"}, "stopped": {Lock: "mu"},
	},
	"window.GlobalWindow": {
		"groups": {Lock: "mu"}, "stopped": {Lock: "mu"},
	},
	"window.Watermark": {
		"currentWatermark": {Lock: "mu"}, "lastSentWatermark": {Lock: "mu"}, "maxEventTime": {Lock: "mu"},
		"lastEventTime": {Lock: "mu"},
	},
}

func init() {
	guardTables["stream.Stream"] = map[string]GuardSpec{
		"dataChan": {Lock: "dataChanMux"}, "sinks": {Lock: "sinksMux"}, "syncSinks": {Lock: "sinksMux"},
	}
	guardTables["cep.Engine"] = map[string]GuardSpec{
		"partMap": {Lock: "mu"}, "lru": {Lock: "mu"}, "started": {Lock: "startMu"}, "cancel": {Lock: "startMu"},
	}
	// per-partition matcher state lives in objects owned by the engine and is guarded by the engine's lock
	guardTables["cep.partition"] = map[string]GuardSpec{
		"runs": {Lock: "mu", LockOwner: "cep.Engine"}, "pending": {Lock: "mu", LockOwner: "cep.Engine"}, "matchNo": {Lock: "mu", LockOwner: "cep.Engine"},
		"seq": {Lock: "mu", LockOwner: "cep.Engine"}, "nextStart": {Lock: "mu", LockOwner: "cep.Engine"},
	}
	guardTables["functions.FunctionRegistry"] = map[string]GuardSpec{"functions": {Lock: "mu"}, "snapshot": {Lock: "mu"}}
	guardTables["functions.ExprBridge"] = map[string]GuardSpec{
		"exprEnv": {Lock: "mutex", ReadsUnguardedOK: "the field (a map reference) is assigned once at construction; unguarded loads only copy the reference into a FunctionContext"},
	}
	guardTables["stream.MemoryTableSource"] = map[string]GuardSpec{"index": {Lock: "mu"}}
	guardTables["stream.tableStore"] = map[string]GuardSpec{"sources": {Lock: "mu"}}
	guardTables["stream.analyticFieldEngine"] = map[string]GuardSpec{
		"noPart": {Lock: "mu"}, "partitions": {Lock: "mu"}, "lru": {Lock: "mu"}, "lastResults": {Lock: "mu"}, "wrapperParsed": {Lock: "mu"},
	}
}

// functions exempt from the guard tables, one reason each
var guardExempt = map[string]map[string]string{}

func (a *A) lockRules(rel, typ string) {
	S := a.Named(rel, typ)
	t := guardTables[qual(S)]
	if t == nil {
		a.anchorFail("no guard table for %s", qual(S))
	}
	a.ruleGuardedBy(S, t, guardExempt[qual(S)])
}
