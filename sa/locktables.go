package main

// locktables.go — frozen guard tables (inferred from the access survey, confirmed by reading).

var guardTables = map[string]map[string]GuardSpec{
	"window.TumblingWindow": {
		"data": {Lock: "mu"}, "currentSlot": {Lock: "mu"}, "initialized": {Lock: "mu"},
		"triggeredWindows": {Lock: "mu"}, "callback": {Lock: "mu"}, "timer": {Lock: "timerMu"},
	},
	"window.SlidingWindow": {
		"data": {Lock: "mu"}, "currentSlot": {Lock: "mu"}, "initialized": {Lock: "mu"},
		"triggeredWindows": {Lock: "mu"}, "callback": {Lock: "mu"}, "firstWindowStartTime": {Lock: "mu"},
		"timer": {Lock: "timerMu"},
	},
	"window.SessionWindow": {
		"sessionMap": {Lock: "mu"}, "triggeredSessions": {Lock: "mu"}, "callback": {Lock: "mu"},
		"initialized": {Lock: "mu"}, "ticker": {Lock: "tickerMu"},
	},
	"window.CountingWindow": {
		"keyedBuffer": {Lock: "mu"}, "keyedCount": {Lock: "mu"}, "lastActive": {Lock: "mu"}, "stopped": {Lock: "mu"},
	},
	"window.GlobalWindow": {
		"groups": {Lock: "mu"}, "stopped": {Lock: "mu"},
	},
	"window.Watermark": {
		"currentWatermark": {Lock: "mu"}, "lastSentWatermark": {Lock: "mu"}, "maxEventTime": {Lock: "mu"},
		"lastEventTime": {Lock: "mu"},
	},
}

func init() {
	guardTables["stream.Stream"] = map[string]GuardSpec{
		"dataChan": {Lock: "dataChanMux"}, "sinks": {Lock: "sinksMux"}, "syncSinks": {Lock: "sinksMux"},
	}
	guardTables["cep.Engine"] = map[string]GuardSpec{
		"partMap": {Lock: "mu"}, "lru": {Lock: "mu"}, "seq": {Lock: "mu"}, "started": {Lock: "startMu"}, "cancel": {Lock: "startMu"},
	}
	guardTables["functions.FunctionRegistry"] = map[string]GuardSpec{"functions": {Lock: "mu"}, "snapshot": {Lock: "mu"}}
	guardTables["functions.ExprBridge"] = map[string]GuardSpec{
		"exprEnv": {Lock: "mutex", ReadsUnguardedOK: "the field (a map reference) is assigned once at construction; unguarded loads only copy the reference into a FunctionContext"},
	}
	guardTables["stream.MemoryTableSource"] = map[string]GuardSpec{"index": {Lock: "mu"}}
	guardTables["stream.tableStore"] = map[string]GuardSpec{"sources": {Lock: "mu"}}
	guardTables["stream.analyticFieldEngine"] = map[string]GuardSpec{
		"noPart": {Lock: "mu"}, "partitions": {Lock: "mu"}, "lru": {Lock: "mu"}, "lastResults": {Lock: "mu"}, "wrapperParsed": {Lock: "mu"},
	}
}

// functions exempt from the guard tables, one reason each
var guardExempt = map[string]map[string]string{}

func (a *A) lockRules(rel, typ string) {
	S := a.Named(rel, typ)
	t := guardTables[qual(S)]
	if t == nil {
		a.anchorFail("no guard table for %s", qual(S))
	}
	a.ruleGuardedBy(S, t, guardExempt[qual(S)])
}
