package main

func init() {
	register(&Prop{
		ID: "C18",
		Decided: "wip",
		NotDecided: "wip",
		Run: runC18,
	})
}

func runC18(a *A) {
	a.Rule("locks/sink-under-lock", 1, func() { a.ruleSinkUnderLock() })
	a.Rule("golife/goroutines", 14, func() {
		a.ruleGoroutines(map[string]string{
			"(*stream.DataProcessor).startWindowProcessing$1": "(*stream.Stream).Start",
		})
	})
}
