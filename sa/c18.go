package main

import (
	"os"
	"fmt"
	"go/constant"
	"go/token"
	"go/types"
	"sort"
	"strings"

	"golang.org/x/tools/go/ssa"
)

func init() {
	register(&Prop{
		ID:          "C18",
		Decided:     "(1) guarded-by: the mutable shared fields of Stream, the five windows, Watermark, cep.Engine, analyticFieldEngine, ExprBridge, FunctionRegistry, MemoryTableSource and tableStore are accessed under their mutex in all API-reachable code (writes exclusively), no field is accessed both through sync/atomic and plainly, and the lock-acquisition graph is acyclic with no re-acquisition of a held lock; (2) no user sink is invoked, directly or through a function that runs sinks synchronously, while a lock is held; no blocking channel operation without a cancel/timeout/default alternative is performed under a lock (a send into a channel the function made itself and has not yet stored anywhere, executed only while the count of such sends is below cap(ch), has room and is not blocking); (3) each go statement: blocking loops have a cancellation case, blocking operations have an alternative, WaitGroup.Add precedes the go (or is done by the registered adder), goroutines that can run sinks are joined by Stop; Start's stopped-check and lifecycle.Add are serialised with Stop's flag under startMu; (4) Stop: the CAS on stopped dominates close(done) (idempotent, close-once), teardown order close(done) -> Window.Stop -> dataChan=nil -> waitLifecycle -> cep.Stop -> Flush -> flush delivery -> tables.closeAll, the input channel is never closed, initChan closes are probe-guarded under the window lock; (5) Emit after Stop: every blocking send on the input buffer has a done arm; (6) panic containment: every sink invocation and processItem run under a deferred recover. Also: consumer loops of package stream hand each received item to a function with its own deferred recover (a recover around the loop ends it at the first panic); Process starts the goroutine that Start counted in lifecycle on every path (or took the branch where the condition is false). Also: a mutex acquired in a function that runs under a deferred recover (its own or a synchronous caller's) and held across a call that can run user-supplied code (expr-lang programs, registered functions, callbacks) is released by a deferred Unlock (locks/released-on-recovered-panic): a contained panic cannot leave it locked. Also: the period of every time.NewTicker in the module is shown positive from the code (positive constants, clamps and guards against a positive bound, fields all of whose stores store such values, parameters all of whose arguments are such values; integer division is not positive) — a zero or negative period panics in a goroutine that has no recover (fnsafe/ticker-period-positive). Also: for each of Emit/EmitSync/AddSink/GetStats/TriggerWindow/Stop and for every goroutine the engine starts, every synchronous call chain to user-supplied code that sees rows (expr-lang programs, registered functions' Execute/Add/Result/Apply, custom table sources, sinks) passes a function with a deferred recover (flow/no-panic-escapes); the Stop stages may be carried out by a helper of the same package, whose internal order is then checked too. Also: (*sync.Once).Do is treated as a lock held while its function runs: no sink is invoked, directly or through callees, inside a Once.Do that a public method (Stop) also enters (locks/sink-under-lock).",
		NotDecided:  "absence of data races in general (this is a lockset argument over a type-based lock abstraction, not a happens-before proof), bounded Stop latency, goroutine counts, the behaviour of the grace timeout, window trigger goroutines and Watermark.updateLoop being cancelled but not joined by Stop (they do not run sinks).",
		Assumptions: []string{"lock identity is (struct type, mutex field): two objects of one type are not distinguished"},
		Run:         runC18,
	})
}

func runC18(a *A) {
	a.Rule("locks/guarded-by", 30, func() {
		for _, s := range []struct{ rel, typ string }{
			{"stream", "Stream"}, {"window", "TumblingWindow"}, {"window", "SlidingWindow"}, {"window", "SessionWindow"},
			{"window", "CountingWindow"}, {"window", "GlobalWindow"}, {"window", "Watermark"}, {"cep", "Engine"},
			{"stream", "analyticFieldEngine"}, {"functions", "ExprBridge"}, {"functions", "FunctionRegistry"},
			{"stream", "MemoryTableSource"}, {"stream", "tableStore"},
		} {
			a.lockRules(s.rel, s.typ)
		}
	})
	a.Rule("locks/atomic-mix", 10, func() {
		for _, s := range []struct{ rel, typ string }{
			{"stream", "Stream"}, {"window", "TumblingWindow"}, {"window", "SlidingWindow"}, {"window", "SessionWindow"},
			{"window", "CountingWindow"}, {"window", "GlobalWindow"}, {"", "Streamsql"},
		} {
			a.ruleAtomicMix(a.Named(s.rel, s.typ))
		}
	})
	a.Rule("locks/order", 1, func() { a.ruleLockOrder() })
	a.Rule("locks/sink-under-lock", 1, func() { a.ruleSinkUnderLock() })
	a.Rule("locks/blocking-under-lock", 1, func() { a.ruleBlockingUnderLock() })
	a.Rule("golife/registered-goroutines-spawned", 1, func() { a.ruleRegisteredGoroutinesSpawned() })
	a.Rule("golife/goroutines", 14, func() {
		a.ruleGoroutines(map[string]string{
			"(*stream.DataProcessor).startWindowProcessing$1": "(*stream.Stream).Start",
		})
	})
	a.Rule("flow/start-stop-serialised", 3, func() {
		start := a.Method("stream", "Stream", "Start")
		stop := a.Method("stream", "Stream", "Stop")
		L := a.Locks()
		key := lockKey{"stream.Stream", "startMu"}
		isStoppedOp := func(in ssa.Instruction, name string) bool {
			c, ok := in.(*ssa.Call)
			if !ok || c.Call.StaticCallee() == nil || c.Call.StaticCallee().Name() != name || len(c.Call.Args) == 0 {
				return false
			}
			return isFieldOf(TermOf(c.Call.Args[0], nil), "stream.Stream", "stopped")
		}
		isLifeAdd := func(in ssa.Instruction) bool {
			c, ok := in.(*ssa.Call)
			if !ok || c.Call.StaticCallee() == nil || c.Call.StaticCallee().Name() != "Add" || len(c.Call.Args) == 0 {
				return false
			}
			return isFieldOf(TermOf(c.Call.Args[0], nil), "stream.Stream", "lifecycle")
		}
		n := 0
		allInstrs(start, func(in ssa.Instruction) {
			if isLifeAdd(in) {
				n++
				_, held := L.Held(in)[key]
				a.Check(held, fname(start)+"#add-under-startMu", in.Pos(), "lifecycle.Add runs under startMu", "lifecycle.Add is not under startMu: it can race with the Wait in Stop")
			}
		})
		if n == 0 {
			a.Bad(fname(start)+"#add-under-startMu", start.Pos(), "Start does not register its goroutines in lifecycle")
		}
		a.ruleDominatedBy(start, fname(start)+"#stopped-check-before-add", func(in ssa.Instruction) bool { return isStoppedOp(in, "LoadInt32") }, isLifeAdd,
			"the stopped flag is tested before lifecycle.Add", "lifecycle.Add is not preceded by a test of the stopped flag: a Start after Stop would spawn unjoined goroutines")
		cas := false
		hosts := []*ssa.Function{stop}
		allInstrs(stop, func(in ssa.Instruction) {
			if h := casHelper(in); h != nil {
				hosts = append(hosts, h) // `if !s.markStopped() { return }`: the claim made by a helper
			}
		})
		for _, host := range hosts {
			allInstrs(host, func(in ssa.Instruction) {
				if isStoppedOp(in, "CompareAndSwapInt32") {
					cas = true
					_, held := L.Held(in)[key]
					a.Check(held, fname(stop)+"#flag-under-startMu", in.Pos(), "Stop sets the stopped flag under startMu", "Stop sets the stopped flag outside startMu: a concurrent Start can Add after Wait began")
				}
			})
		}
		if !cas {
			a.Bad(fname(stop)+"#flag-under-startMu", stop.Pos(), "Stop does not claim the stopped flag with a compare-and-swap: it is not idempotent")
		}
	})
	a.Rule("flow/stop-sequence", 8, func() { a.ruleStopSequence() })
	a.Rule("flow/close-once", 4, func() { a.ruleCloses() })
	a.Rule("flow/send-has-done-arm", 3, func() {
		dc := a.FieldOf(a.Named("stream", "Stream"), "dataChan")
		n := 0
		for _, typ := range []string{"BlockingStrategy", "ExpansionStrategy", "DropStrategy"} {
			fn := a.Method("stream", typ, "ProcessData")
			for _, f := range a.bodyFuncs(fn) {
				allInstrs(f, func(in ssa.Instruction) {
					switch x := in.(type) {
					case *ssa.Send:
						if d, c := isDataChan(x.Chan, dc); d || c {
							n++
							a.Bad(fname(f)+"#send-has-done-arm", in.Pos(), "a bare blocking send on the input buffer: after Stop (the consumer is gone) an Emit would block forever")
						}
					case *ssa.Select:
						sends := false
						for _, st := range x.States {
							if st.Dir == types.SendOnly {
								if d, c := isDataChan(st.Chan, dc); d || c {
									sends = true
								}
							}
						}
						if !sends {
							return
						}
						n++
						ok := !x.Blocking
						for _, st := range x.States {
							if st.Dir == types.RecvOnly && isFieldOf(TermOf(st.Chan, nil), "stream.Stream", "done") {
								ok = true
							}
						}
						a.Check(ok, fname(f)+"#send-has-done-arm", in.Pos(), "the send on the input buffer is non-blocking or has a done arm", "a blocking send on the input buffer has no done arm: an Emit concurrent with or after Stop can block forever")
					}
				})
			}
		}
		if n == 0 {
			a.Und("send-has-done-arm", token.NoPos, "no send on the input buffer found in the strategies")
		}
	})
	a.Rule("flow/no-panic-escapes", 10, func() { a.ruleNoPanicEscapes() })
	a.Rule("fnsafe/ticker-period-positive", 8, func() { a.rulePositiveTickerPeriod() })
	a.Rule("locks/released-on-recovered-panic", 8, func() { a.ruleLockReleasedOnRecoveredPanic() })
	a.Rule("flow/panic-containment", 4, func() {
		si := a.sinkInfo()
		for _, c := range si.calls {
			fn := c.Parent()
			ok := hasRecover(fn)
			where := fname(fn)
			// a helper closure invoked from a function that has the recover
			if !ok && fn.Parent() != nil {
				// all call sites of the closure are in functions with recover around them
				ok = hasRecover(fn.Parent()) && false
			}
			a.Check(ok, "recover@"+where, c.Pos(), "the sink runs under a deferred recover in "+where, "a user sink is called in "+where+" without a deferred recover: a panicking sink takes the pipeline goroutine (and the process) down")
		}
		pi := a.Method("stream", "DataProcessor", "processItem")
		a.Check(hasRecover(pi), "recover@"+fname(pi), pi.Pos(), "each row is processed under a deferred recover", "processItem has no deferred recover: a row that panics stops all later rows")
		// consumer loops: a loop of package stream that receives from a channel and hands what it
		// received (a row, a batch) to a module function must contain the panic per item — the callee
		// itself defers a recover. A recover around the whole loop ends the goroutine at the first panic
		// and every later item is silently lost.
		for _, fn := range a.ModFuncs {
			if fn.Pkg != a.Pkg("stream") || fn.Blocks == nil {
				continue
			}
			for _, l := range sccLoops(fn) {
				var recvVals []ssa.Value
				for b := range l.Blocks {
					for _, in := range b.Instrs {
						switch x := in.(type) {
						case *ssa.UnOp:
							if x.Op == token.ARROW {
								recvVals = append(recvVals, x)
							}
						case *ssa.Select:
							for _, st := range x.States {
								if st.Dir == types.RecvOnly {
									recvVals = append(recvVals, x)
								}
							}
						}
					}
				}
				if len(recvVals) == 0 {
					continue
				}
				for b := range l.Blocks {
					for _, in := range b.Instrs {
						c, ok := in.(*ssa.Call)
						if !ok {
							continue
						}
						callee := c.Call.StaticCallee()
						if callee == nil || !a.fnInModule(callee) || callee.Pkg != fn.Pkg {
							continue
						}
						// does an argument carry what was received?
						carries := false
						for _, arg := range c.Call.Args {
							switch arg.Type().Underlying().(type) {
							case *types.Map, *types.Slice:
								for x := range backwardSlice(arg, 6) {
									for _, rv := range recvVals {
										if x == rv {
											carries = true
										}
									}
								}
							}
						}
						if !carries {
							continue
						}
						a.Check(hasRecover(callee), "recover-per-item@"+fname(fn)+"->"+callee.Name(), c.Pos(),
							"the consumer loop hands each received item to a function that contains its own panic",
							"the consumer loop in "+fname(fn)+" hands each received item to "+fname(callee)+", which has no deferred recover: a panic raised while one item is processed ends the loop (a recover around the loop does not resume it) and every later item is lost")
					}
				}
			}
		}
	})
}

// boundedFillOfPrivateChannel: the send goes to a channel this function made and has not yet stored anywhere (no
// other goroutine can hold it), every send into it in this function is this one, and it is executed only while
// `k < cap(ch)` holds for the counter k of the sends so far (0, +1 with each send) or `len(ch) < cap(ch)`: the
// buffer has room, the send cannot block.
func boundedFillOfPrivateChannel(sd *ssa.Send) bool {
	mk, ok := sd.Chan.(*ssa.MakeChan)
	if !ok {
		if leaves := phiLeaves(sd.Chan); len(leaves) == 1 {
			mk, ok = leaves[0].(*ssa.MakeChan)
		}
		if !ok {
			return false
		}
	}
	fn := sd.Parent()
	// private until after the send: every store of the channel is in a block the send's block cannot be reached from
	for _, r := range *mk.Referrers() {
		switch y := r.(type) {
		case *ssa.Store:
			if y.Val == ssa.Value(mk) && reachesAvoiding2(y.Block(), sd.Block()) {
				return false
			}
		case *ssa.Send:
			if y != sd && y.Chan == ssa.Value(mk) {
				return false
			}
		case *ssa.MakeClosure, *ssa.Go, *ssa.MapUpdate:
			return false
		case *ssa.Call:
			if _, isCap := isBuiltinCall(y, "cap"); isCap {
				continue
			}
			if _, isLen := isBuiltinCall(y, "len"); isLen {
				continue
			}
			return false // handed to another function
		}
	}
	_ = fn
	for _, g := range guardsOf(sd.Block()) {
		bo, ok := g.Cond.(*ssa.BinOp)
		if !ok || bo.Op != token.LSS || !g.Sense {
			continue
		}
		capOf, ok := bo.Y.(*ssa.Call)
		if !ok {
			continue
		}
		cc, ok := isBuiltinCall(capOf, "cap")
		if !ok || cc.Args[0] != ssa.Value(mk) {
			continue
		}
		if l, ok := bo.X.(*ssa.Call); ok {
			if lc, ok := isBuiltinCall(l, "len"); ok && lc.Args[0] == ssa.Value(mk) {
				return true
			}
		}
		phi, ok := bo.X.(*ssa.Phi)
		if !ok {
			continue
		}
		good := true
		for _, l := range phiLeaves(phi) {
			if isZeroConst(l) {
				continue
			}
			inc, isInc := l.(*ssa.BinOp)
			if !isInc || inc.Op != token.ADD || !isConstInt(inc.Y, 1) {
				good = false
				continue
			}
			// the increment follows this send
			if inc.Block() != sd.Block() {
				good = false
			}
		}
		if good {
			return true
		}
	}
	return false
}

// ruleBlockingUnderLock: no blocking channel operation without alternative while a lock is held.
func (a *A) ruleBlockingUnderLock() {
	L := a.Locks()
	reach := a.APIReach()
	n, bad := 0, 0
	for _, fn := range a.ModFuncs {
		if !reach[fn] {
			continue
		}
		allInstrs(fn, func(in ssa.Instruction) {
			held := L.Held(in)
			if len(held) == 0 {
				return
			}
			what := ""
			switch x := in.(type) {
			case *ssa.Send:
				what = "a blocking send"
				if boundedFillOfPrivateChannel(x) {
					what = "" // the channel is this function's own and has room: the send returns at once
				}
			case *ssa.UnOp:
				if x.Op == token.ARROW && !x.CommaOk {
					what = "a blocking receive"
				} else if x.Op == token.ARROW {
					what = "a blocking receive"
				}
			case *ssa.Select:
				if x.Blocking {
					alt := false
					for _, st := range x.States {
						if st.Dir == types.RecvOnly && (cancelLike(st.Chan) || timerLike(st.Chan) || strings.Contains(TermOf(st.Chan, nil).String(), "imeout")) {
							alt = true
						}
					}
					if !alt {
						what = "a blocking select without cancel/timeout arm"
					}
				}
			}
			if what == "" {
				if _, ok := in.(*ssa.Select); ok {
					n++
				}
				return
			}
			n++
			bad++
			a.Bad("blocking-under-lock@"+fname(fn), in.Pos(), "%s is performed while %s is held: every other user of that lock waits on a channel peer", what, held)
		})
	}
	if bad == 0 {
		a.Ok("blocking-under-lock", token.NoPos, "%d channel operations under a lock, all non-blocking or with a cancel/timeout arm", n)
	}
}

// ruleStopSequence: order of teardown in Stream.Stop.
func (a *A) ruleStopSequence() {
	fn := a.Method("stream", "Stream", "Stop")
	S := a.Named("stream", "Stream")
	dc := a.FieldOf(S, "dataChan")
	isClose := func(field string) func(ssa.Instruction) bool {
		return func(in ssa.Instruction) bool {
			c, ok := in.(*ssa.Call)
			if !ok {
				return false
			}
			cc, ok := isBuiltinCall(c, "close")
			return ok && isFieldOf(TermOf(cc.Args[0], nil), "stream.Stream", field)
		}
	}
	invoke := func(name string, recvField string) func(ssa.Instruction) bool {
		return func(in ssa.Instruction) bool {
			c := callCommon(in)
			if c == nil {
				return false
			}
			if c.IsInvoke() && c.Method.Name() == name {
				return recvField == "" || isFieldOf(TermOf(c.Value, nil), "stream.Stream", recvField)
			}
			if cal := c.StaticCallee(); cal != nil && cal.Name() == name && len(c.Args) > 0 {
				return recvField == "" || strings.Contains(TermOf(c.Args[0], nil).String(), "."+recvField)
			}
			return false
		}
	}
	stages := []stage{
		{name: "close(done)", match: isClose("done")},
		{name: "Window.Stop", match: invoke("Stop", "Window")},
		{name: "dataChan=nil", match: func(in ssa.Instruction) bool {
			st, ok := in.(*ssa.Store)
			if !ok || !fieldAddrIs(st.Addr, dc) {
				return false
			}
			k, ok := st.Val.(*ssa.Const)
			return ok && k.Value == nil
		}},
		{name: "waitLifecycle", match: callOfMethod("stream", "Stream", "waitLifecycle", a)},
		{name: "cep.Stop", match: invoke("Stop", "cep")},
		{name: "engine.Flush", match: func(in ssa.Instruction) bool {
			cal := staticCallee(in)
			return cal != nil && cal.Name() == "Flush"
		}},
		{name: "emitCepFlushSync", match: callOfMethod("stream", "Stream", "emitCepFlushSync", a)},
		{name: "tables.closeAll", match: func(in ssa.Instruction) bool {
			cal := staticCallee(in)
			return cal != nil && cal.Name() == "closeAll"
		}},
	}
	a.ruleStageOrder(fn, stages)
	// CAS dominates close(done)
	n := a.ruleDominatedBy(fn, fname(fn)+"#cas-before-close", func(in ssa.Instruction) bool {
		c, ok := in.(*ssa.Call)
		return ok && c.Call.StaticCallee() != nil && (c.Call.StaticCallee().Name() == "CompareAndSwapInt32" || casHelper(in) != nil)
	}, isClose("done"), "close(done) runs only for the caller that won the compare-and-swap on stopped (close-once, Stop idempotent)", "close(done) is not guarded by the compare-and-swap on stopped: a second Stop panics on a closed channel")
	if n == 0 {
		a.Bad(fname(fn)+"#cas-before-close", fn.Pos(), "Stop does not close the done channel")
	}
	// and on the winning edge only
	allInstrs(fn, func(in ssa.Instruction) {
		if isClose("done")(in) {
			ok := guardedByValue(in.Block(), func(v ssa.Value) bool {
				c, ok := v.(*ssa.Call)
				return ok && c.Call.StaticCallee() != nil && (c.Call.StaticCallee().Name() == "CompareAndSwapInt32" || casHelper(c) != nil)
			}, true)
			a.Check(ok, fname(fn)+"#close-on-winning-edge", in.Pos(), "close(done) is on the edge where the CAS succeeded", "close(done) is reachable when the CAS on stopped failed")
		}
	})
	// flush goes through the same projection as live matches
	pc := a.Method("stream", "Stream", "projectCep")
	okProj := false
	scan := func(f *ssa.Function) {
		allInstrs(f, func(in ssa.Instruction) {
			if stages[6].match(in) {
				for _, l := range phiLeaves(callCommon(in).Args[1]) {
					if c, ok := l.(*ssa.Call); ok && c.Call.StaticCallee() == pc {
						okProj = true
					}
				}
			}
		})
	}
	scan(fn)
	allInstrs(fn, func(in ssa.Instruction) { // or in a helper of Stop (one level)
		if callee := staticCallee(in); callee != nil && callee.Pkg == fn.Pkg && callee.Blocks != nil {
			scan(callee)
		}
	})
	a.Check(okProj, fname(fn)+"#flush-projected", fn.Pos(), "flushed matches go through projectCep like live matches", "flushed MATCH_RECOGNIZE rows are not projected by projectCep")
}

// ruleCloses: the input channel is never closed; closes of struct-field channels are once-guarded.
func (a *A) ruleCloses() {
	dc := a.FieldOf(a.Named("stream", "Stream"), "dataChan")
	L := a.Locks()
	nClose := 0
	for _, fn := range a.ModFuncs {
		if fn.Pkg != nil && strings.Contains(fn.Pkg.Pkg.Path(), "/examples/") {
			continue
		}
		allInstrs(fn, func(in ssa.Instruction) {
			c, ok := in.(*ssa.Call)
			if !ok {
				return
			}
			cc, ok := isBuiltinCall(c, "close")
			if !ok {
				return
			}
			t := TermOf(cc.Args[0], nil)
			if d, cch := isDataChan(cc.Args[0], dc); d || cch {
				a.Bad("close(dataChan)@"+fname(fn), in.Pos(), "the input channel is closed: a concurrent Emit panics on send to a closed channel (Stop must nil the reference instead)")
				return
			}
			if t.Kind != "field" {
				return // local channels (e.g. the drained signal of waitLifecycle)
			}
			nClose++
			owner, f := t.LastField()
			construct := fmt.Sprintf("close(%s.%s)@%s", owner, f, fname(fn))
			switch {
			case f == "initChan":
				// probe-guarded: the close sits in the default arm of a select that receives from the same channel, under the window lock
				probe := false
				for _, g := range guardsOf(in.Block()) {
					bo, ok := g.Cond.(*ssa.BinOp)
					if !ok {
						continue
					}
					if ex, ok := bo.X.(*ssa.Extract); ok {
						if sel, ok := ex.Tuple.(*ssa.Select); ok && !sel.Blocking {
							for _, st := range sel.States {
								if st.Dir == types.RecvOnly && TermOf(st.Chan, nil).String() == t.String() {
									probe = true
								}
							}
						}
					}
				}
				held := L.Held(in)
				_, locked := held[lockKey{owner, "mu"}]
				a.Check(probe && locked, construct, in.Pos(), "closed only after a non-blocking probe found it open, under "+owner+".mu", fmt.Sprintf("initChan is closed without the closed-probe under %s.mu (probe=%v, lockset=%s): Add and Stop can both close it (panic)", owner, probe, held))
			case f == "done":
				a.Ok(construct, in.Pos(), "closed once, behind the CAS on stopped (checked by flow/stop-sequence)")
			default:
				a.Und(construct, in.Pos(), "close of a struct-field channel that is not in the reviewed set (done, initChan): cannot tell whether it is once-guarded")
			}
		})
	}
	if nClose == 0 {
		a.Und("close", token.NoPos, "no close of a struct-field channel found")
	}
	a.Ok("close(dataChan)", token.NoPos, "no close of Stream.dataChan anywhere in the module (producers observe nil instead)")
}

// ruleLockReleasedOnRecoveredPanic: a panic raised while a row is processed is contained by a deferred
// recover (flow/panic-containment) so that later rows still run. That only works if the mutexes taken
// on the way are released by the unwinding: a lock acquired in a function that runs under a recover
// (the function itself or a synchronous caller has one) and held across a call that can run code
// supplied by the user (a predicate or expression program, a registered function, a callback or sink)
// must be released by a deferred Unlock — an explicit Unlock after the call is skipped by the panic,
// the recover swallows it and every later row blocks on the mutex.
func (a *A) ruleLockReleasedOnRecoveredPanic() int {
	L := a.Locks()
	// functions running under a recover: recover functions and everything they call synchronously
	var roots []*ssa.Function
	for _, fn := range a.ModFuncs {
		if fn.Blocks != nil && hasRecover(fn) {
			roots = append(roots, fn)
		}
	}
	under := a.ReachFrom(roots)
	user := a.reachesUserCode()
	n := 0
	for _, fn := range a.ModFuncs {
		if !under[fn] || fn.Blocks == nil {
			continue
		}
		deferred := map[lockKey]bool{}
		allInstrs(fn, func(in ssa.Instruction) {
			if d, ok := in.(*ssa.Defer); ok {
				if k, op, ok := lockOp(&d.Call); ok && (op == "Unlock" || op == "RUnlock") {
					deferred[k] = true
				}
			}
		})
		type fk struct{ k lockKey }
		reported := map[fk]bool{}
		okKeys := map[fk]token.Pos{}
		allInstrs(fn, func(in ssa.Instruction) {
			c, ok := in.(*ssa.Call)
			if !ok {
				return
			}
			if _, _, isLock := lockOp(&c.Call); isLock {
				return
			}
			why := user.call(a, c)
			if why == "" {
				return
			}
			for k := range L.Held(in) {
				if _, atEntry := L.entry[fn][k]; atEntry {
					continue // the caller's lock: judged at the caller's call of fn
				}
				if deferred[k] {
					if _, seen := okKeys[fk{k}]; !seen {
						okKeys[fk{k}] = c.Pos()
					}
					continue
				}
				if reported[fk{k}] {
					continue
				}
				reported[fk{k}] = true
				n++
				a.Check(false, fmt.Sprintf("%s#%s-released-on-panic", fname(fn), k), c.Pos(), "",
					fmt.Sprintf("%s is held across %s and released by an explicit Unlock, while a deferred recover up the stack contains panics: a panic in that call leaves the mutex locked for good and every later row blocks", k, why))
			}
		})
		for k, pos := range okKeys {
			if !reported[k] {
				n++
				a.Check(true, fmt.Sprintf("%s#%s-released-on-panic", fname(fn), k.k), pos, fmt.Sprintf("%s is held across code supplied by the user and released by a deferred Unlock", k.k), "")
			}
		}
	}
	return n
}

// userCode: which module functions can run code supplied by the user of the library.
type userCode struct {
	reach map[*ssa.Function]string
}

// call: does this call run user code? Returns a description, or "".
func (u *userCode) call(a *A, c *ssa.Call) string {
	if why := directUserCall(a, &c.Call); why != "" {
		return why
	}
	if sc := c.Call.StaticCallee(); sc != nil {
		if w := u.reach[sc]; w != "" {
			return "the call of " + fname(sc) + " (which reaches " + w + ")"
		}
		return ""
	}
	// dynamic call resolved by the call graph
	if node := a.CG().Nodes[c.Parent()]; node != nil {
		for _, e := range node.Out {
			if e.Site == ssa.CallInstruction(c) && e.Callee != nil {
				if w := u.reach[e.Callee.Func]; w != "" {
					return "a call that can reach " + w
				}
			}
		}
	}
	return ""
}

// directUserCall: the program of an expression engine (expr-lang Run/Eval), a registered function's
// Execute/Validate through the Function interfaces, or a func-typed value that was not made in the module
// (a callback, a sink).
func directUserCall(a *A, cc *ssa.CallCommon) string {
	if sc := cc.StaticCallee(); sc != nil {
		if sc.Pkg != nil && strings.HasPrefix(sc.Pkg.Pkg.Path(), "github.com/expr-lang/expr") && (sc.Name() == "Run" || sc.Name() == "Eval") {
			return "expr-lang " + sc.Name() + " (user functions run inside the program)"
		}
		return ""
	}
	if cc.IsInvoke() {
		if nt, ok := types.Unalias(cc.Value.Type()).(*types.Named); ok && nt.Obj().Pkg() != nil && nt.Obj().Pkg().Path() == modPath+"/functions" {
			switch cc.Method.Name() {
			case "Execute", "Validate", "Add", "Result", "New", "Apply":
				return "the registered function's " + cc.Method.Name() + " (functions." + nt.Obj().Name() + ")"
			}
		}
		return ""
	}
	// a call of a function value
	for _, l := range phiLeaves(cc.Value) {
		switch l.(type) {
		case *ssa.MakeClosure, *ssa.Function, *ssa.Builtin:
			continue
		}
		return "a call of the function value " + TermOf(cc.Value, nil).String()
	}
	return ""
}

func (a *A) reachesUserCode() *userCode {
	u := &userCode{reach: map[*ssa.Function]string{}}
	// direct
	for _, fn := range a.ModFuncs {
		if fn.Blocks == nil {
			continue
		}
		allInstrs(fn, func(in ssa.Instruction) {
			if u.reach[fn] != "" {
				return
			}
			if c, ok := in.(*ssa.Call); ok {
				if w := directUserCall(a, &c.Call); w != "" {
					u.reach[fn] = w
				}
			}
		})
	}
	// transitive over synchronous call edges
	for changed := true; changed; {
		changed = false
		for _, fn := range a.ModFuncs {
			if u.reach[fn] != "" {
				continue
			}
			node := a.CG().Nodes[fn]
			if node == nil {
				continue
			}
			for _, e := range node.Out {
				if _, isGo := e.Site.(*ssa.Go); isGo {
					continue
				}
				if _, isDefer := e.Site.(*ssa.Defer); isDefer {
					continue
				}
				if e.Callee != nil && u.reach[e.Callee.Func] != "" {
					u.reach[fn] = u.reach[e.Callee.Func]
					changed = true
					break
				}
			}
		}
	}
	return u
}

// ---------------------------------------------------------------- ticker periods

// rulePositiveTickerPeriod: time.NewTicker panics on a period <= 0, and every ticker of the engine
// is created in a goroutine of its own (window timers, session expiry, watermark updates, sweepers)
// where nothing recovers: the process dies. For every time.NewTicker call in the module the period is
// shown positive from the code: a positive constant, a value clamped or checked against a positive
// bound on the way (`if d < time.Second { d = time.Second }`, `if size <= 0 { return err }`), a field
// all of whose stores store such a value, a parameter all of whose arguments are such values. Integer
// division is not positive (1ns / 2 == 0).
func (a *A) rulePositiveTickerPeriod() int {
	n := 0
	for _, fn := range a.ModFuncs {
		if fn.Blocks == nil {
			continue
		}
		allInstrs(fn, func(in ssa.Instruction) {
			c, ok := in.(*ssa.Call)
			if !ok {
				return
			}
			sc := c.Call.StaticCallee()
			if sc == nil || sc.Pkg == nil || sc.Pkg.Pkg.Path() != "time" || (sc.Name() != "NewTicker" && sc.Name() != "Tick") {
				return
			}
			n++
			p := &posProver{a: a, busy: map[ssa.Value]bool{}}
			ok2 := p.positive(c.Call.Args[0], c.Block(), 0)
			a.Check(ok2, fmt.Sprintf("%s#ticker-period-positive", fname(fn)), c.Pos(), "the ticker period is positive on every path: "+TermOf(c.Call.Args[0], nil).String(),
				"the ticker period "+TermOf(c.Call.Args[0], nil).String()+" is not shown positive ("+p.why+"): time.NewTicker panics on a period <= 0, in a goroutine without a recover — the process dies")
		})
	}
	return n
}

type posProver struct {
	a    *A
	busy map[ssa.Value]bool
	why  string
}

func (p *posProver) fail(format string, args ...any) bool {
	if p.why == "" {
		p.why = fmt.Sprintf(format, args...)
	}
	return false
}

func posConst(v ssa.Value) (int64, bool) {
	k, ok := v.(*ssa.Const)
	if !ok || k.Value == nil || k.Value.Kind() != constant.Int {
		return 0, false
	}
	return k.Int64(), true
}

// guardImpliesPositive: does cond, taken with the given sense, imply v > 0?
func guardImpliesPositive(cond ssa.Value, sense bool, v ssa.Value, same func(x, y ssa.Value) bool) bool {
	for {
		u, ok := cond.(*ssa.UnOp)
		if !ok || u.Op != token.NOT {
			break
		}
		cond, sense = u.X, !sense
	}
	bo, ok := cond.(*ssa.BinOp)
	if !ok {
		return false
	}
	op, x, y := bo.Op, bo.X, bo.Y
	if _, isK := posConst(x); isK { // c OP v  ->  v OP' c
		x, y = y, x
		switch op {
		case token.LSS:
			op = token.GTR
		case token.LEQ:
			op = token.GEQ
		case token.GTR:
			op = token.LSS
		case token.GEQ:
			op = token.LEQ
		}
	}
	k, isK := posConst(y)
	if !isK || !same(x, v) {
		return false
	}
	if !sense { // negate
		switch op {
		case token.LSS:
			op = token.GEQ
		case token.LEQ:
			op = token.GTR
		case token.GTR:
			op = token.LEQ
		case token.GEQ:
			op = token.LSS
		case token.EQL:
			op = token.NEQ
		case token.NEQ:
			op = token.EQL
		}
	}
	switch op {
	case token.GTR:
		return k >= 0
	case token.GEQ:
		return k > 0
	case token.EQL:
		return k > 0
	}
	return false
}

func (p *posProver) positive(v ssa.Value, at *ssa.BasicBlock, d int) bool {
	if d > 10 {
		return p.fail("trace depth exceeded")
	}
	if k, ok := posConst(v); ok {
		if k > 0 {
			return true
		}
		return p.fail("the constant %d", k)
	}
	// the same value, or another load of the same field of the same object with no store in between is
	// not assumed: only the identical SSA value counts
	same := func(x, y ssa.Value) bool {
		if x == y {
			return true
		}
		// conversions of the same value
		if c, ok := x.(*ssa.Convert); ok && c.X == y {
			return true
		}
		if c, ok := x.(*ssa.ChangeType); ok && c.X == y {
			return true
		}
		return false
	}
	if at != nil {
		for _, g := range guardsOf(at) {
			if guardImpliesPositive(g.Cond, g.Sense, v, same) {
				return true
			}
		}
	}
	if p.busy[v] {
		return true // a cycle through a loop phi: decided by the other edges
	}
	p.busy[v] = true
	defer delete(p.busy, v)
	switch x := v.(type) {
	case *ssa.Phi:
		for i, e := range x.Edges {
			pred := x.Block().Preds[i]
			// the branch that led here
			if iff, ok := pred.Instrs[len(pred.Instrs)-1].(*ssa.If); ok && pred.Succs[0] != pred.Succs[1] {
				if guardImpliesPositive(iff.Cond, pred.Succs[0] == x.Block(), e, same) {
					continue
				}
			}
			if !p.positive(e, pred, d+1) {
				return false
			}
		}
		return true
	case *ssa.ChangeType:
		return p.positive(x.X, at, d+1)
	case *ssa.Convert:
		if isIntType(x.X.Type()) {
			return p.positive(x.X, at, d+1)
		}
		return p.fail("conversion from %s", x.X.Type())
	case *ssa.BinOp:
		switch x.Op {
		case token.MUL, token.ADD:
			return p.positive(x.X, at, d+1) && p.positive(x.Y, at, d+1)
		case token.QUO:
			return p.fail("the integer division %s can be 0", TermOf(x, nil).String())
		}
		return p.fail("operator %s", x.Op)
	case *ssa.UnOp:
		if x.Op != token.MUL {
			return p.fail("operator %s", x.Op)
		}
		switch ad := x.X.(type) {
		case *ssa.FieldAddr:
			st := derefStruct(ad.X.Type())
			if st == nil {
				return p.fail("field load")
			}
			f := st.Field(ad.Field)
			stores := 0
			for _, fn := range p.a.ModFuncs {
				if fn.Blocks == nil {
					continue
				}
				for _, s := range storesToField(fn, f) {
					stores++
					if !p.positive(s.Val, s.Block(), d+1) && !p.clampedAfterStore(s, f, d) && !p.positiveOnPathsTo(s.Val, s, d) {
						return p.fail("field %s is stored at %s", f.Name(), p.a.pos(s.Pos()))
					}
				}
			}
			if stores == 0 {
				return p.fail("field %s is never stored", f.Name())
			}
			return true
		case *ssa.Alloc:
			ok := true
			cnt := 0
			allInstrs(ad.Parent(), func(in ssa.Instruction) {
				if s, isSt := in.(*ssa.Store); isSt && s.Addr == ssa.Value(ad) {
					cnt++
					if !p.positive(s.Val, s.Block(), d+1) {
						ok = false
					}
				}
			})
			return ok && cnt > 0
		}
		return p.fail("load %s", x.String())
	case *ssa.Call:
		// the result of a helper of the module (`sweepIntervalFor(within)`): positive at every return
		if h := x.Call.StaticCallee(); h != nil && h.Blocks != nil && p.a.fnInModule(h) && h.Signature.Results().Len() == 1 {
			n := 0
			for _, b := range h.Blocks {
				ret, ok := b.Instrs[len(b.Instrs)-1].(*ssa.Return)
				if !ok || b == h.Recover || len(ret.Results) != 1 {
					continue
				}
				n++
				if !p.positive(ret.Results[0], b, d+1) {
					return p.fail("the result of %s at %s", fname(h), p.a.pos(ret.Pos()))
				}
			}
			return n > 0
		}
		return p.fail("call %s", x.String())
	case *ssa.Parameter:
		fn := x.Parent()
		idx := -1
		for i, q := range fn.Params {
			if q == x {
				idx = i
			}
		}
		node := p.a.CG().Nodes[fn]
		if node == nil || len(node.In) == 0 || idx < 0 {
			return p.fail("parameter %s of %s has no resolved caller", x.Name(), fname(fn))
		}
		for _, e := range node.In {
			cc := e.Site.Common()
			args := cc.Args
			if cc.IsInvoke() {
				args = append([]ssa.Value{cc.Value}, args...)
			}
			if idx >= len(args) {
				return p.fail("call of %s at %s", fname(fn), p.a.pos(e.Site.Pos()))
			}
			if !p.a.fnInModule(e.Caller.Func) {
				continue
			}
			if !p.positive(args[idx], e.Site.Block(), d+1) {
				return p.fail("argument %s of the call at %s", x.Name(), p.a.pos(e.Site.Pos()))
			}
		}
		return true
	}
	return p.fail("%T %s", v, v.String())
}

// positiveOnPathsTo: v is a variable that holds a placeholder on the paths that refuse (`return 0, err`, folded into
// the caller as `d, err = 0, …`) and the checked value otherwise: on every feasible path from the function's entry
// to the use, the value the variable holds there is positive where it was assigned.
func (p *posProver) positiveOnPathsTo(v ssa.Value, use ssa.Instruction, d int) bool {
	phi, ok := v.(*ssa.Phi)
	if !ok || d > 8 {
		return false
	}
	from := map[ssa.Value][]*ssa.BasicBlock{}
	for _, l := range phiLeafEdges(phi) {
		from[l.v] = append(from[l.v], l.from)
	}
	okAll, hits := true, 0
	save := p.why
	over := explorePaths(use.Parent(), use, func(ssa.Value) Tri { return U }, func(ssa.Instruction) bool { return false }, func(resolve func(ssa.Value) ssa.Value) {
		hits++
		r := resolve(phi)
		bs, known := from[r]
		if !known {
			okAll = false
			return
		}
		for _, b := range bs {
			if !p.positive(r, b, d+1) {
				okAll = false
			}
		}
	})
	if os.Getenv("VERIF_DEBUG") == "pos" { fmt.Println("POSPATH", use.Parent(), over, okAll, hits) }
	if over || !okAll || hits == 0 {
		return false
	}
	p.why = save
	return true
}

// clampedAfterStore: `x.f = v; if x.f < C { x.f = C }` with C > 0 — the store is followed, in its own
// block, by a test of the same field of the same object whose false edge implies a positive value and
// whose true edge stores a positive value and rejoins.
func (p *posProver) clampedAfterStore(st *ssa.Store, f *types.Var, d int) bool {
	fa, ok := st.Addr.(*ssa.FieldAddr)
	if !ok {
		return false
	}
	b := st.Block()
	iff, ok := b.Instrs[len(b.Instrs)-1].(*ssa.If)
	if !ok {
		return false
	}
	after := false
	var load ssa.Value
	for _, in := range b.Instrs {
		if in == ssa.Instruction(st) {
			after = true
			continue
		}
		if !after {
			continue
		}
		if s2, ok := in.(*ssa.Store); ok && s2 != st {
			if fa2, ok := s2.Addr.(*ssa.FieldAddr); ok && fa2.X == fa.X && fa2.Field == fa.Field {
				return false
			}
		}
		if u, ok := in.(*ssa.UnOp); ok && u.Op == token.MUL {
			if fa2, ok := u.X.(*ssa.FieldAddr); ok && fa2.X == fa.X && fa2.Field == fa.Field {
				load = u
			}
		}
	}
	if load == nil {
		return false
	}
	same := func(x, y ssa.Value) bool { return x == y }
	if !guardImpliesPositive(iff.Cond, false, load, same) {
		return false
	}
	tb := b.Succs[0]
	if len(tb.Succs) != 1 || tb.Succs[0] != b.Succs[1] {
		return false
	}
	for _, in := range tb.Instrs {
		if s2, ok := in.(*ssa.Store); ok {
			if fa2, ok := s2.Addr.(*ssa.FieldAddr); ok && fa2.X == fa.X && fa2.Field == fa.Field {
				saved := p.why
				ok := p.positive(s2.Val, tb, d+1)
				if ok {
					p.why = saved
				}
				return ok
			}
		}
	}
	return false
}

// ---------------------------------------------------------------- allocation sizes

// allocSizeLeaves: the leaves a make() size is computed from, through arithmetic, conversions, phis,
// locals, fields (all stores) and parameters (all arguments): "const", "len" (length/capacity of
// existing data), "bounded" (checked against a constant upper bound on the way), or a description of
// anything else.
func (a *A) allocSizeLeaves(v ssa.Value, at *ssa.BasicBlock, d int, seen map[ssa.Value]bool, out map[string]bool) {
	if v == nil || seen[v] {
		return
	}
	seen[v] = true
	if d > 10 {
		out["trace depth exceeded"] = true
		return
	}
	if _, ok := v.(*ssa.Const); ok {
		out["const"] = true
		return
	}
	// v <= C / v < C on the way (or v > C leading away)
	if at != nil {
		for _, g := range guardsOf(at) {
			cond, sense := g.Cond, g.Sense
			for {
				u, ok := cond.(*ssa.UnOp)
				if !ok || u.Op != token.NOT {
					break
				}
				cond, sense = u.X, !sense
			}
			if bo, ok := cond.(*ssa.BinOp); ok && bo.X == v {
				if _, isK := bo.Y.(*ssa.Const); isK {
					if ((bo.Op == token.LSS || bo.Op == token.LEQ) && sense) || ((bo.Op == token.GTR || bo.Op == token.GEQ) && !sense) {
						out["bounded"] = true
						return
					}
				}
			}
		}
	}
	switch x := v.(type) {
	case *ssa.Call:
		if b, ok := x.Call.Value.(*ssa.Builtin); ok {
			switch b.Name() {
			case "len", "cap":
				out["len"] = true
				return
			case "min":
				// bounded if any operand is a constant
				for _, arg := range x.Call.Args {
					if _, ok := arg.(*ssa.Const); ok {
						out["bounded"] = true
						return
					}
				}
			}
		}
		if sc := x.Call.StaticCallee(); sc != nil && sc.Pkg != nil && (sc.Pkg.Pkg.Path() == modPath+"/utils/cast" || sc.Pkg.Pkg.Path() == "strconv") {
			out["user-number "+sc.Pkg.Pkg.Name()+"."+sc.Name()] = true
			return
		}
		if sc := x.Call.StaticCallee(); sc != nil && a.fnInModule(sc) && sc.Blocks != nil && d < 6 {
			for _, b := range sc.Blocks {
				if ret, ok := b.Instrs[len(b.Instrs)-1].(*ssa.Return); ok && len(ret.Results) > 0 {
					a.allocSizeLeaves(ret.Results[0], b, d+1, seen, out)
				}
			}
			return
		}
		out["result of "+x.Call.String()] = true
	case *ssa.BinOp:
		a.allocSizeLeaves(x.X, at, d+1, seen, out)
		if x.Op != token.SUB && x.Op != token.QUO && x.Op != token.REM && x.Op != token.SHR {
			// x - y, x / y, x % y, x >> y are no larger than x for the non-negative counts sizes are made of
			a.allocSizeLeaves(x.Y, at, d+1, seen, out)
		}
	case *ssa.Convert:
		a.allocSizeLeaves(x.X, at, d+1, seen, out)
	case *ssa.ChangeType:
		a.allocSizeLeaves(x.X, at, d+1, seen, out)
	case *ssa.Phi:
		for i, e := range x.Edges {
			// clamp: the edge taken when `e > C` was false
			pred := x.Block().Preds[i]
			a.allocSizeLeaves(e, pred, d+1, seen, out)
		}
	case *ssa.Extract:
		out["result of "+x.Tuple.String()] = true
	case *ssa.UnOp:
		if x.Op != token.MUL {
			a.allocSizeLeaves(x.X, at, d+1, seen, out)
			return
		}
		switch ad := x.X.(type) {
		case *ssa.FieldAddr:
			st := derefStruct(ad.X.Type())
			if st == nil {
				out["field load"] = true
				return
			}
			f := st.Field(ad.Field)
			n := 0
			for _, fn := range a.ModFuncs {
				if fn.Blocks == nil {
					continue
				}
				for _, s := range storesToField(fn, f) {
					n++
					a.allocSizeLeaves(s.Val, s.Block(), d+1, seen, out)
				}
			}
			if n == 0 {
				out["field "+f.Name()+" set by the caller of the API"] = true
			}
		case *ssa.Alloc:
			allInstrs(ad.Parent(), func(in ssa.Instruction) {
				if s, ok := in.(*ssa.Store); ok && s.Addr == ssa.Value(ad) {
					a.allocSizeLeaves(s.Val, s.Block(), d+1, seen, out)
				}
			})
		default:
			out["load "+x.String()] = true
		}
	case *ssa.Parameter:
		fn := x.Parent()
		idx := -1
		for i, q := range fn.Params {
			if q == x {
				idx = i
			}
		}
		node := a.CG().Nodes[fn]
		if node == nil || len(node.In) == 0 || idx < 0 {
			out["parameter "+x.Name()+" of "+fname(fn)] = true
			return
		}
		for _, e := range node.In {
			cc := e.Site.Common()
			args := cc.Args
			if cc.IsInvoke() {
				args = append([]ssa.Value{cc.Value}, args...)
			}
			if idx < len(args) && a.fnInModule(e.Caller.Func) {
				a.allocSizeLeaves(args[idx], e.Site.Block(), d+1, seen, out)
			}
		}
	default:
		out[fmt.Sprintf("%T", v)] = true
	}
}

func (a *A) surveyAllocSizes() {
	for _, fn := range a.ModFuncs {
		if fn.Blocks == nil {
			continue
		}
		allInstrs(fn, func(in ssa.Instruction) {
			var sizes []ssa.Value
			switch x := in.(type) {
			case *ssa.MakeSlice:
				sizes = []ssa.Value{x.Len, x.Cap}
			case *ssa.MakeChan:
				sizes = []ssa.Value{x.Size}
			case *ssa.MakeMap:
				if x.Reserve != nil {
					sizes = []ssa.Value{x.Reserve}
				}
			default:
				return
			}
			out := map[string]bool{}
			for _, s := range sizes {
				a.allocSizeLeaves(s, in.Block(), 0, map[ssa.Value]bool{}, out)
			}
			delete(out, "const")
			delete(out, "len")
			delete(out, "bounded")
			if len(out) > 0 {
				fmt.Printf("ALLOC %s %s: %v\n", a.pos(in.Pos()), fname(fn), sortedKeys(out))
			}
		})
	}
}

// ruleAllocBoundedByData: a make() whose size is a number converted from query text or an untyped
// value (utils/cast, strconv: CountingWindow(N), LIMIT, ...) allocates before a single row has
// arrived — CountingWindow(10000000000000) made Execute panic with "makeslice: cap out of range", a
// merely large N allocates N rows' worth of memory up front. Such a size is accepted only when it was
// checked against a constant upper bound, or when the make is guarded by a comparison showing that as
// many items already exist (count >= N).
func (a *A) ruleAllocBoundedByData() int {
	n := 0
	for _, fn := range a.ModFuncs {
		if fn.Blocks == nil {
			continue
		}
		allInstrs(fn, func(in ssa.Instruction) {
			var sizes []ssa.Value
			switch x := in.(type) {
			case *ssa.MakeSlice:
				sizes = []ssa.Value{x.Len, x.Cap}
			case *ssa.MakeChan:
				sizes = []ssa.Value{x.Size}
			case *ssa.MakeMap:
				if x.Reserve != nil {
					sizes = []ssa.Value{x.Reserve}
				}
			default:
				return
			}
			for _, sz := range sizes {
				out := map[string]bool{}
				a.allocSizeLeaves(sz, in.Block(), 0, map[ssa.Value]bool{}, out)
				var user []string
				for k := range out {
					if strings.HasPrefix(k, "user-number ") {
						user = append(user, strings.TrimPrefix(k, "user-number "))
					}
				}
				if len(user) == 0 {
					continue
				}
				sort.Strings(user)
				n++
				// guarded by `have >= size`
				st := TermOf(sz, nil).String()
				guarded := false
				for _, g := range guardsOf(in.Block()) {
					cond, sense := g.Cond, g.Sense
					for {
						u, ok := cond.(*ssa.UnOp)
						if !ok || u.Op != token.NOT {
							break
						}
						cond, sense = u.X, !sense
					}
					bo, ok := cond.(*ssa.BinOp)
					if !ok {
						continue
					}
					x, y, op := TermOf(bo.X, nil).String(), TermOf(bo.Y, nil).String(), bo.Op
					if !sense {
						switch op {
						case token.LSS:
							op = token.GEQ
						case token.LEQ:
							op = token.GTR
						case token.GTR:
							op = token.LEQ
						case token.GEQ:
							op = token.LSS
						}
					}
					if (y == st && (op == token.GEQ || op == token.GTR)) || (x == st && (op == token.LEQ || op == token.LSS)) {
						guarded = true
					}
				}
				a.Check(guarded, fmt.Sprintf("%s#alloc-%s", fname(fn), st), in.Pos(),
					"the size "+st+" (from "+strings.Join(user, ", ")+") is allocated only after a comparison showed that as many items exist",
					"the size "+st+" comes from "+strings.Join(user, ", ")+" (a number written in the query) and is allocated with no upper bound and before that many items exist: a huge N panics (makeslice: cap out of range) or exhausts memory at Execute")
				break
			}
		})
	}
	return n
}

// ---------------------------------------------------------------- panics do not escape

// ruleNoPanicEscapes: code supplied by the user of the library (expression programs with custom
// functions, registered functions, custom table sources, callbacks and sinks) can panic. A panic that
// unwinds out of Emit/EmitSync/AddSink/GetStats/TriggerWindow/Stop reaches the caller, one that
// unwinds out of a goroutine the engine started kills the process. For each of these roots, every
// synchronous call chain from the root to a call of user code passes a function with a deferred
// recover.
func (a *A) ruleNoPanicEscapes() int {
	tableSrc := a.Iface("stream", "TableSource")
	sinkCalls := map[ssa.CallInstruction]bool{}
	for _, c := range a.sinkInfo().calls {
		sinkCalls[c] = true
	}
	userSite := func(c ssa.CallInstruction) string {
		cc := c.Common()
		if sinkCalls[c] {
			return "a user sink"
		}
		// other function values (window callbacks, cancel functions) are engine code: followed through
		// the call graph, not user code themselves
		if cc.IsInvoke() || cc.StaticCallee() != nil {
			// construction-time methods (New, Clone, Validate, Init) see no row: a function that panics
			// there fails when the query is set up; the rule is about rows
			if cc.IsInvoke() {
				switch cc.Method.Name() {
				case "New", "Clone", "Validate", "Init":
					return ""
				}
			}
			if w := directUserCall(a, cc); w != "" {
				return w
			}
		}
		if cc.IsInvoke() {
			if nt, ok := types.Unalias(cc.Value.Type()).(*types.Named); ok && types.Identical(nt.Underlying(), tableSrc) {
				return "the custom table source's " + cc.Method.Name()
			}
		}
		return ""
	}
	// roots
	type root struct {
		fn   *ssa.Function
		what string
	}
	var roots []root
	S := a.Named("", "Streamsql")
	for _, nm := range []string{"Emit", "EmitSync", "AddSink", "GetStats", "TriggerWindow", "Stop"} {
		if f := a.methodOf(S, nm); f != nil {
			roots = append(roots, root{f, "the API call Streamsql." + nm})
		} else {
			a.anchorFail("Streamsql.%s not found", nm)
		}
	}
	seenGo := map[*ssa.Function]bool{}
	for _, fn := range a.ModFuncs {
		if fn.Blocks == nil {
			continue
		}
		allInstrs(fn, func(in ssa.Instruction) {
			g, ok := in.(*ssa.Go)
			if !ok {
				return
			}
			var targets []*ssa.Function
			if sc := g.Call.StaticCallee(); sc != nil {
				targets = append(targets, sc)
			} else if node := a.CG().Nodes[fn]; node != nil {
				for _, e := range node.Out {
					if e.Site == ssa.CallInstruction(g) && e.Callee != nil {
						targets = append(targets, e.Callee.Func)
					}
				}
			}
			for _, t := range targets {
				if a.fnInModule(t) && t.Blocks != nil && !seenGo[t] {
					seenGo[t] = true
					roots = append(roots, root{t, "the goroutine " + fname(t) + " started at " + a.pos(g.Pos())})
				}
			}
		})
	}
	n := 0
	for _, r := range roots {
		n++
		type st struct {
			f   *ssa.Function
			rec bool
		}
		seen := map[st]bool{}
		var chain []string
		var bad string
		var badPos token.Pos
		var dfs func(f *ssa.Function, rec bool)
		dfs = func(f *ssa.Function, rec bool) {
			if bad != "" || f.Blocks == nil {
				return
			}
			rec = rec || hasRecover(f)
			if seen[st{f, rec}] {
				return
			}
			seen[st{f, rec}] = true
			chain = append(chain, fname(f))
			defer func() { chain = chain[:len(chain)-1] }()
			node := a.CG().Nodes[f]
			for _, b := range f.Blocks {
				for _, in := range b.Instrs {
					ci, ok := in.(ssa.CallInstruction)
					if !ok {
						continue
					}
					if _, isGo := in.(*ssa.Go); isGo {
						continue
					}
					if w := userSite(ci); w != "" && !rec && bad == "" {
						bad = strings.Join(chain, " -> ") + " -> " + w
						badPos = in.Pos()
						return
					}
					if sc := ci.Common().StaticCallee(); sc != nil {
						if a.fnInModule(sc) {
							dfs(sc, rec)
						}
						continue
					}
					if node != nil {
						for _, e := range node.Out {
							if e.Site == ci && e.Callee != nil && a.fnInModule(e.Callee.Func) {
								dfs(e.Callee.Func, rec)
							}
						}
					}
				}
			}
		}
		dfs(r.fn, false)
		a.Check(bad == "", "no-panic-escapes@"+fname(r.fn), firstPos(badPos, r.fn.Pos()),
			"every synchronous call chain from "+r.what+" to user-supplied code passes a deferred recover",
			"a panic in user-supplied code escapes "+r.what+": "+bad+" — no function on this chain has a deferred recover")
	}
	return n
}

func firstPos(p, q token.Pos) token.Pos {
	if p != token.NoPos {
		return p
	}
	return q
}


// casHelper: in is a call of a helper the change introduced whose only result is, on every way out, the verdict of a
// compare-and-swap made in the helper (`func (s *Stream) markStopped() bool { lock; defer unlock; return CAS(&s.stopped, 0, 1) }`).
// The call stands for that compare-and-swap; what the helper holds while making it is judged inside the helper.
func casHelper(in ssa.Instruction) *ssa.Function {
	c, ok := in.(*ssa.Call)
	if !ok {
		return nil
	}
	h := c.Call.StaticCallee()
	if h == nil || h.Blocks == nil || !isNewFunc(h) || h.Signature.Results().Len() != 1 || !isBool(h.Signature.Results().At(0).Type()) {
		return nil
	}
	leaves := returnLeaves(h, 0)
	if len(leaves) == 0 {
		return nil
	}
	for _, l := range leaves {
		cc, isCall := l.(*ssa.Call)
		if !isCall || cc.Call.StaticCallee() == nil || cc.Call.StaticCallee().Name() != "CompareAndSwapInt32" || cc.Parent() != h {
			return nil
		}
	}
	return h
}
