package main

// flow.go — E2: dominance, guards, must-pass-through, call order on go/ssa CFGs.

import (
	"fmt"
	"go/constant"
	"go/token"
	"go/types"
	"strings"

	"golang.org/x/tools/go/ssa"
)

// Guard is a branch condition that holds (Sense=true) or fails on every path to a block.
type Guard struct {
	Cond  ssa.Value
	Sense bool
	If    *ssa.If
}

// guardsOf returns the branch conditions that dominate block b with a fixed polarity:
// for every dominator D ending in `if c`, if exactly one successor edge of D can lead to b
// without passing through D again (the other cannot reach b avoiding D), c is known with
// the corresponding polarity at b.
func guardsOf(b *ssa.BasicBlock) []Guard { return guardsOfRec(b, map[*ssa.Phi]bool{}) }

func guardsOfRec(b *ssa.BasicBlock, seen map[*ssa.Phi]bool) []Guard {
	var out []Guard
	for d := b.Idom(); d != nil; d = d.Idom() {
		iff, ok := d.Instrs[len(d.Instrs)-1].(*ssa.If)
		if !ok {
			continue
		}
		r0 := reachesAvoiding(d.Succs[0], b, d)
		r1 := reachesAvoiding(d.Succs[1], b, d)
		if d.Succs[0] == d.Succs[1] {
			continue
		}
		if r0 && !r1 {
			out = append(out, Guard{Cond: iff.Cond, Sense: true, If: iff})
			out = append(out, impliedGuards(iff.Cond, true, iff, seen)...)
		} else if r1 && !r0 {
			out = append(out, Guard{Cond: iff.Cond, Sense: false, If: iff})
			out = append(out, impliedGuards(iff.Cond, false, iff, seen)...)
		}
	}
	return out
}

// impliedGuards: what else is known when the boolean v has the value sense. A named boolean
// (`c := a == nil || b; if c {`) reaches the branch as a phi over the short-circuit edges; when the
// constant inputs rule out every edge but one, the value came in over that edge: its input has the
// value sense, and everything known at the end of that predecessor (its own guards and the branch
// it was left by) holds as well. This makes `c := A && B; if c` the same guard as `if A && B`.
func impliedGuards(v ssa.Value, sense bool, at *ssa.If, seen map[*ssa.Phi]bool) []Guard {
	for {
		if u, ok := v.(*ssa.UnOp); ok && u.Op == token.NOT {
			v = u.X
			sense = !sense
			continue
		}
		break
	}
	phi, ok := v.(*ssa.Phi)
	if !ok || !isBool(phi.Type()) || seen[phi] {
		return nil
	}
	seen[phi] = true
	live := -1
	for i, e := range phi.Edges {
		if k, ok := e.(*ssa.Const); ok && k.Value != nil && k.Value.Kind() == constant.Bool {
			if constant.BoolVal(k.Value) != sense {
				continue // this edge delivers the other value
			}
		}
		if live >= 0 {
			return nil // two possible ways in: a disjunction, nothing is implied for certain
		}
		live = i
	}
	if live < 0 {
		return nil
	}
	var out []Guard
	pred := phi.Block().Preds[live]
	e := phi.Edges[live]
	if _, isK := e.(*ssa.Const); !isK {
		out = append(out, Guard{Cond: e, Sense: sense, If: at})
		out = append(out, impliedGuards(e, sense, at, seen)...)
	}
	if iff, ok := pred.Instrs[len(pred.Instrs)-1].(*ssa.If); ok && pred.Succs[0] != pred.Succs[1] {
		s := pred.Succs[0] == phi.Block()
		out = append(out, Guard{Cond: iff.Cond, Sense: s, If: at})
		out = append(out, impliedGuards(iff.Cond, s, at, seen)...)
	}
	out = append(out, guardsOfRec(pred, seen)...)
	return out
}

// reachesAvoiding: is target reachable from 'from' without passing through 'avoid'?
func reachesAvoiding(from, target, avoid *ssa.BasicBlock) bool {
	if from == avoid {
		return false
	}
	seen := map[*ssa.BasicBlock]bool{}
	var st []*ssa.BasicBlock
	st = append(st, from)
	for len(st) > 0 {
		x := st[len(st)-1]
		st = st[:len(st)-1]
		if x == target {
			return true
		}
		if seen[x] || x == avoid {
			continue
		}
		seen[x] = true
		st = append(st, x.Succs...)
	}
	return false
}

// instrIndex returns the index of in within its block.
func instrIndex(in ssa.Instruction) int {
	for i, x := range in.Block().Instrs {
		if x == in {
			return i
		}
	}
	return -1
}

// dominatesInstr: does instruction x dominate instruction y (same function)?
func dominatesInstr(x, y ssa.Instruction) bool {
	if x.Block() == y.Block() {
		return instrIndex(x) < instrIndex(y)
	}
	return x.Block().Dominates(y.Block())
}

// pathToExitAvoiding searches, from just after instruction 'from', for a path to a function
// exit (Return; Panic too when panicIsExit) on which no instruction satisfies pass. Returns the
// offending exit instruction, or nil when every path passes.
func pathToExitAvoiding(from ssa.Instruction, pass func(ssa.Instruction) bool, panicIsExit bool) ssa.Instruction {
	type item struct {
		b   *ssa.BasicBlock
		idx int
	}
	seen := map[*ssa.BasicBlock]bool{}
	st := []item{{from.Block(), instrIndex(from) + 1}}
	for len(st) > 0 {
		it := st[len(st)-1]
		st = st[:len(st)-1]
		blocked := false
		for i := it.idx; i < len(it.b.Instrs); i++ {
			in := it.b.Instrs[i]
			if pass(in) {
				blocked = true
				break
			}
			switch in.(type) {
			case *ssa.Return:
				return in
			case *ssa.Panic:
				if panicIsExit {
					return in
				}
				blocked = true
			}
			if blocked {
				break
			}
		}
		if blocked {
			continue
		}
		for _, s := range it.b.Succs {
			if !seen[s] {
				seen[s] = true
				st = append(st, item{s, 0})
			}
		}
	}
	return nil
}

// reachableAfter: can an instruction satisfying hit be executed after 'from' (same function),
// without first passing an instruction satisfying barrier? Returns the first such instruction.
func reachableAfter(from ssa.Instruction, hit func(ssa.Instruction) bool, barrier func(ssa.Instruction) bool) ssa.Instruction {
	return reachableFrom(from.Block(), instrIndex(from)+1, hit, barrier)
}

func reachableFrom(b *ssa.BasicBlock, idx int, hit func(ssa.Instruction) bool, barrier func(ssa.Instruction) bool) ssa.Instruction {
	type item struct {
		b   *ssa.BasicBlock
		idx int
	}
	seen := map[*ssa.BasicBlock]bool{}
	st := []item{{b, idx}}
	for len(st) > 0 {
		it := st[len(st)-1]
		st = st[:len(st)-1]
		blocked := false
		for i := it.idx; i < len(it.b.Instrs); i++ {
			in := it.b.Instrs[i]
			if barrier != nil && barrier(in) {
				blocked = true
				break
			}
			if hit(in) {
				return in
			}
		}
		if blocked {
			continue
		}
		for _, s := range it.b.Succs {
			if !seen[s] {
				seen[s] = true
				st = append(st, item{s, 0})
			}
		}
	}
	return nil
}

// allInstrs iterates over the instructions of fn.
func allInstrs(fn *ssa.Function, f func(ssa.Instruction)) {
	for _, b := range fn.Blocks {
		for _, in := range b.Instrs {
			f(in)
		}
	}
}

// withClosures returns fn and all closures nested in it.
func withClosures(fn *ssa.Function) []*ssa.Function {
	out := []*ssa.Function{fn}
	for _, af := range fn.AnonFuncs {
		out = append(out, withClosures(af)...)
	}
	return out
}

func callCommon(in ssa.Instruction) *ssa.CallCommon {
	switch c := in.(type) {
	case *ssa.Call:
		return &c.Call
	case *ssa.Go:
		return &c.Call
	case *ssa.Defer:
		return &c.Call
	}
	return nil
}

// staticCallee of an instruction or nil.
func staticCallee(in ssa.Instruction) *ssa.Function {
	if c := callCommon(in); c != nil {
		return c.StaticCallee()
	}
	return nil
}

// callsTo lists the call instructions in fn (not closures) whose static callee is target.
func callsTo(fn *ssa.Function, target *ssa.Function) []ssa.Instruction {
	return callsToRec(fn, target, map[*ssa.Function]bool{})
}

// callsToRec: the calls of target in fn - and in what the helper normalisation would have made part of fn had it
// been able to: the bodies of helpers unknown to the inventory whose calls were kept (a callee that defers), and of
// function literals that are called on the spot.
func callsToRec(fn *ssa.Function, target *ssa.Function, seen map[*ssa.Function]bool) []ssa.Instruction {
	var out []ssa.Instruction
	if fn == nil || seen[fn] || target == nil {
		return nil
	}
	seen[fn] = true
	allInstrs(fn, func(in ssa.Instruction) {
		if _, isDefer := in.(*ssa.Defer); isDefer {
			return
		}
		if _, isGo := in.(*ssa.Go); isGo {
			if staticCallee(in) == target {
				out = append(out, in)
			}
			return
		}
		cal := staticCallee(in)
		if cal == target {
			out = append(out, in)
			return
		}
		if cal != nil && cal != fn && isNewFunc(cal) {
			out = append(out, callsToRec(cal, target, seen)...)
			return
		}
		if c, ok := in.(*ssa.Call); ok {
			if mc, ok := c.Call.Value.(*ssa.MakeClosure); ok {
				if lit, ok := mc.Fn.(*ssa.Function); ok {
					out = append(out, callsToRec(lit, target, seen)...)
				}
			}
		}
	})
	return out
}

// callsToDeep: callsTo over fn and the function literals written in it (a literal is part of its function; the
// helper normalisation leaves an inlined body as a literal when it defers).
func callsToDeep(fn *ssa.Function, target *ssa.Function) []ssa.Instruction {
	out := callsTo(fn, target)
	for _, an := range fn.AnonFuncs {
		out = append(out, callsToDeep(an, target)...)
	}
	return out
}

// isCallNamed: call whose static callee has the given package path and name (for std lib).
func isCallNamed(in ssa.Instruction, pkgPath, name string) bool {
	c := staticCallee(in)
	if c == nil {
		return false
	}
	if c.Name() != name {
		return false
	}
	if c.Pkg != nil {
		return c.Pkg.Pkg.Path() == pkgPath
	}
	if c.Object() != nil && c.Object().Pkg() != nil {
		return c.Object().Pkg().Path() == pkgPath
	}
	return false
}

// isMethodCall: static call of method `name` whose receiver's named type is pkgPath.typ.
func isMethodCall(in ssa.Instruction, pkgPath, typ, name string) bool {
	c := staticCallee(in)
	if c == nil || c.Name() != name || c.Signature.Recv() == nil {
		return false
	}
	return isNamedType(c.Signature.Recv().Type(), pkgPath, typ)
}

func isNamedType(t types.Type, pkgPath, name string) bool {
	t = types.Unalias(t)
	if p, ok := t.(*types.Pointer); ok {
		t = types.Unalias(p.Elem())
	}
	n, ok := t.(*types.Named)
	if !ok || n.Obj().Name() != name {
		return false
	}
	if n.Obj().Pkg() == nil {
		return pkgPath == ""
	}
	return n.Obj().Pkg().Path() == pkgPath
}

// storesToField lists stores in fn whose address is field f of any object.
func storesToField(fn *ssa.Function, f *types.Var) []*ssa.Store {
	var out []*ssa.Store
	allInstrs(fn, func(in ssa.Instruction) {
		st, ok := in.(*ssa.Store)
		if !ok {
			return
		}
		if fa, ok := st.Addr.(*ssa.FieldAddr); ok {
			if s := derefStruct(fa.X.Type()); s != nil && s.Field(fa.Field) == f {
				out = append(out, st)
			}
		}
	})
	return out
}

// fieldAddrIs reports whether v is the address of field f.
func fieldAddrIs(v ssa.Value, f *types.Var) bool {
	fa, ok := v.(*ssa.FieldAddr)
	if !ok {
		return false
	}
	s := derefStruct(fa.X.Type())
	return s != nil && s.Field(fa.Field) == f
}

// isBuiltinCall reports a call to the named builtin.
func isBuiltinCall(in ssa.Instruction, name string) (*ssa.CallCommon, bool) {
	c := callCommon(in)
	if c == nil {
		return nil, false
	}
	b, ok := c.Value.(*ssa.Builtin)
	if !ok || b.Name() != name {
		return nil, false
	}
	return c, true
}

// flowsForward computes the set of values that v flows into through phis, appends (as the
// slice operand), slices, conversions and single-store locals.
func flowsForward(v ssa.Value) map[ssa.Value]bool {
	seen := map[ssa.Value]bool{}
	var rec func(x ssa.Value)
	rec = func(x ssa.Value) {
		if seen[x] {
			return
		}
		seen[x] = true
		refs := x.Referrers()
		if refs == nil {
			return
		}
		for _, r := range *refs {
			switch u := r.(type) {
			case *ssa.Phi:
				rec(u)
			case *ssa.Slice:
				rec(u)
			case *ssa.ChangeType:
				rec(u)
			case *ssa.Convert:
				rec(u)
			case *ssa.MakeInterface:
				rec(u)
			case *ssa.Call:
				if c, ok := isBuiltinCall(u, "append"); ok && len(c.Args) > 0 && c.Args[0] == x {
					rec(u)
				}
			case *ssa.Store:
				if u.Val == x {
					if al, ok := u.Addr.(*ssa.Alloc); ok {
						// loads of the local
						for _, rr := range *al.Referrers() {
							if ld, ok := rr.(*ssa.UnOp); ok && ld.Op == token.MUL {
								rec(ld)
							}
						}
					}
				}
			}
		}
	}
	rec(v)
	return seen
}

// sinkInfo says where a (slice) value ends up.
type sinkInfo struct {
	Returned    bool
	StoredField map[*types.Var]bool
	PassedTo    map[*ssa.Function]bool
}

func sinksOf(v ssa.Value) sinkInfo {
	si := sinkInfo{StoredField: map[*types.Var]bool{}, PassedTo: map[*ssa.Function]bool{}}
	for x := range flowsForward(v) {
		refs := x.Referrers()
		if refs == nil {
			continue
		}
		for _, r := range *refs {
			switch u := r.(type) {
			case *ssa.Return:
				si.Returned = true
			case *ssa.Store:
				if u.Val == x {
					if fa, ok := u.Addr.(*ssa.FieldAddr); ok {
						if s := derefStruct(fa.X.Type()); s != nil {
							si.StoredField[s.Field(fa.Field)] = true
						}
					}
				}
			case *ssa.Call:
				if c := u.Call.StaticCallee(); c != nil {
					for _, a := range u.Call.Args {
						if a == x {
							si.PassedTo[c] = true
						}
					}
				}
			}
		}
	}
	return si
}

// ---------------------------------------------------------------- loops and appends

// RLoop is a `for range slice` loop as go/ssa lowers it (rangeindex.loop/body blocks).
type RLoop struct {
	Header *ssa.BasicBlock
	Body   *ssa.BasicBlock
	X      ssa.Value  // the ranged slice value
	Elem   ssa.Value  // the loaded element (UnOp of the IndexAddr), may be nil when only the index is used
	ElemAl *ssa.Alloc // the local the element is copied into, if any
	Blocks map[*ssa.BasicBlock]bool
	Index  ssa.Value          // index loops (for i := 0; i < len(x); i++): the index phi
	Elems  map[ssa.Value]bool // index loops: every load of x[i] in the loop (the element may be read more than once)
}

func rangeLoops(fn *ssa.Function) []*RLoop {
	var out []*RLoop
	for _, h := range fn.Blocks {
		if h.Comment == "for.loop" && len(h.Succs) == 2 {
			if l := indexLoop(h); l != nil {
				out = append(out, l)
			}
			continue
		}
		if h.Comment != "rangeindex.loop" || len(h.Succs) != 2 {
			continue
		}
		l := &RLoop{Header: h, Body: h.Succs[0], Blocks: map[*ssa.BasicBlock]bool{}}
		// loop blocks: reachable from body without passing header, and reaching header
		var st []*ssa.BasicBlock
		st = append(st, l.Body)
		for len(st) > 0 {
			x := st[len(st)-1]
			st = st[:len(st)-1]
			if x == h || l.Blocks[x] {
				continue
			}
			l.Blocks[x] = true
			st = append(st, x.Succs...)
		}
		// find the index phi and the IndexAddr using index+1
		for _, in := range l.Body.Instrs {
			if ia, ok := in.(*ssa.IndexAddr); ok {
				if bo, ok := ia.Index.(*ssa.BinOp); ok && bo.Block() == h {
					l.X = ia.X
					for _, r := range *ia.Referrers() {
						if ld, ok := r.(*ssa.UnOp); ok && ld.Op == token.MUL {
							l.Elem = ld
							for _, rr := range *ld.Referrers() {
								if s, ok := rr.(*ssa.Store); ok && s.Val == ld {
									if al, ok := s.Addr.(*ssa.Alloc); ok {
										l.ElemAl = al
									}
								}
							}
						}
					}
					break
				}
			}
		}
		// `for i := range x` that reads x[i] more than once, or first takes its address (`it := &x[i]`): every load
		// of x[i] in the loop is the element
		var hdrIdx ssa.Value
		for _, in := range h.Instrs {
			if bo, ok := in.(*ssa.BinOp); ok && bo.Op == token.ADD {
				hdrIdx = bo
			}
		}
		if hdrIdx != nil {
			for b := range l.Blocks {
				for _, in := range b.Instrs {
					ia, ok := in.(*ssa.IndexAddr)
					if !ok || ia.Index != hdrIdx {
						continue
					}
					if l.X == nil {
						l.X = ia.X
					}
					if ia.X != l.X {
						continue
					}
					for _, r := range *ia.Referrers() {
						if ld, ok := r.(*ssa.UnOp); ok && ld.Op == token.MUL {
							if l.Elems == nil {
								l.Elems = map[ssa.Value]bool{}
							}
							l.Elems[ld] = true
							if l.Elem == nil {
								l.Elem = ld
							}
						}
					}
				}
			}
		}
		if l.X == nil {
			// the ranged value is what len() in the preheader measured
			for _, in := range h.Instrs {
				if bo, ok := in.(*ssa.BinOp); ok && bo.Op == token.LSS {
					if c, ok := bo.Y.(*ssa.Call); ok {
						if cc, ok := isBuiltinCall(c, "len"); ok {
							l.X = cc.Args[0]
						}
					}
				}
			}
		}
		out = append(out, l)
	}
	return out
}

// appendedElems returns the element values appended by an append call written as
// append(s, e1, e2...) (varargs array) — nil for append(s, other...).
func appendedElems(c *ssa.CallCommon) []ssa.Value {
	if len(c.Args) != 2 {
		return nil
	}
	sl, ok := c.Args[1].(*ssa.Slice)
	if !ok {
		return nil
	}
	al, ok := sl.X.(*ssa.Alloc)
	if !ok {
		return nil
	}
	var out []ssa.Value
	for _, r := range *al.Referrers() {
		if ia, ok := r.(*ssa.IndexAddr); ok {
			for _, rr := range *ia.Referrers() {
				if st, ok := rr.(*ssa.Store); ok && st.Addr == ia {
					out = append(out, st.Val)
				}
			}
		}
	}
	return out
}

// indexLoop recognises the full scan written with an index: for i := 0; i < len(x); i++ { ... x[i] ... } —
// the index starts at 0, is increased by one in the post block and nowhere else, and the loop is left
// when it reaches len(x). Equivalent to `for _, e := range x` as long as the body does not reassign x,
// which the rules that use loops over the row buffer check separately (stores to the buffer field).
func indexLoop(h *ssa.BasicBlock) *RLoop {
	iff, ok := h.Instrs[len(h.Instrs)-1].(*ssa.If)
	if !ok {
		return nil
	}
	bo, ok := iff.Cond.(*ssa.BinOp)
	if !ok || bo.Op != token.LSS {
		return nil
	}
	phi, ok := bo.X.(*ssa.Phi)
	if !ok || phi.Block() != h || len(phi.Edges) != 2 {
		return nil
	}
	lc, ok := bo.Y.(*ssa.Call)
	if !ok {
		return nil
	}
	cc, ok := isBuiltinCall(lc, "len")
	if !ok {
		return nil
	}
	// i starts at 0 and is i+1 on the back edge
	zero, inc := false, false
	for _, e := range phi.Edges {
		if isZeroConst(e) {
			zero = true
		}
		if b2, ok := e.(*ssa.BinOp); ok && b2.Op == token.ADD && b2.X == ssa.Value(phi) {
			if k, ok := b2.Y.(*ssa.Const); ok && k.Value != nil && k.Int64() == 1 {
				inc = true
			}
		}
	}
	if !zero || !inc {
		return nil
	}
	l := &RLoop{Header: h, Body: h.Succs[0], Blocks: map[*ssa.BasicBlock]bool{}, X: cc.Args[0], Index: phi, Elems: map[ssa.Value]bool{}}
	st := []*ssa.BasicBlock{l.Body}
	for len(st) > 0 {
		x := st[len(st)-1]
		st = st[:len(st)-1]
		if x == h || l.Blocks[x] {
			continue
		}
		l.Blocks[x] = true
		st = append(st, x.Succs...)
	}
	xt := TermOf(l.X, nil).String()
	for b := range l.Blocks {
		for _, in := range b.Instrs {
			ia, ok := in.(*ssa.IndexAddr)
			if !ok || ia.Index != ssa.Value(phi) || TermOf(ia.X, nil).String() != xt {
				continue
			}
			for _, r := range *ia.Referrers() {
				switch y := r.(type) {
				case *ssa.UnOp:
					if y.Op == token.MUL {
						l.Elems[y] = true
						if l.Elem == nil {
							l.Elem = y
						}
						for _, rr := range *y.Referrers() {
							if s, ok := rr.(*ssa.Store); ok && s.Val == ssa.Value(y) {
								if al, ok := s.Addr.(*ssa.Alloc); ok && l.ElemAl == nil {
									l.ElemAl = al
								}
							}
						}
					}
				}
			}
		}
	}
	return l
}

// elemOfLoop reports whether v is (a load of) the loop's element.
func (l *RLoop) isElem(v ssa.Value) bool {
	if v == l.Elem && v != nil {
		return true
	}
	if l.Elems[v] {
		return true
	}
	if ld, ok := v.(*ssa.UnOp); ok && ld.Op == token.MUL {
		if al, ok := ld.X.(*ssa.Alloc); ok && al == l.ElemAl && al != nil {
			return true
		}
		// a copy of the element written out field by field (`Row{Data: x[i].Data, Timestamp: x[i].Timestamp, …}`)
		if al, ok := ld.X.(*ssa.Alloc); ok && l.literalCopy(al) {
			return true
		}
	}
	return false
}

// literalCopy: al is a struct literal at least two fields of which are read from the loop's element (x[i].f).
func (l *RLoop) literalCopy(al *ssa.Alloc) bool {
	if l.X == nil || derefStruct(al.Type()) == nil {
		return false
	}
	xt := TermOf(l.X, nil).String()
	n := 0
	for _, r := range *al.Referrers() {
		fa, ok := r.(*ssa.FieldAddr)
		if !ok {
			continue
		}
		for _, rr := range *fa.Referrers() {
			st, ok := rr.(*ssa.Store)
			if !ok || st.Addr != ssa.Value(fa) {
				continue
			}
			ld, ok := st.Val.(*ssa.UnOp)
			if !ok || ld.Op != token.MUL {
				continue
			}
			src, ok := ld.X.(*ssa.FieldAddr)
			if !ok {
				continue
			}
			ia, ok := src.X.(*ssa.IndexAddr)
			if !ok || !l.Blocks[ia.Block()] || TermOf(ia.X, nil).String() != xt {
				continue
			}
			if fieldVarOf(src) == fieldVarOf(fa) {
				n++
			}
		}
	}
	return n >= 2
}

// loopAppends lists the append calls inside the loop that append the loop element.
func (l *RLoop) elemAppends() []*ssa.Call {
	var out []*ssa.Call
	for b := range l.Blocks {
		for _, in := range b.Instrs {
			c, ok := in.(*ssa.Call)
			if !ok {
				continue
			}
			cc, ok := isBuiltinCall(c, "append")
			if !ok {
				continue
			}
			for _, e := range appendedElems(cc) {
				if l.isElem(e) {
					out = append(out, c)
				}
			}
		}
	}
	sortByPos(out)
	return out
}

func sortByPos(cs []*ssa.Call) {
	for i := 1; i < len(cs); i++ {
		for j := i; j > 0 && cs[j].Pos() < cs[j-1].Pos(); j-- {
			cs[j], cs[j-1] = cs[j-1], cs[j]
		}
	}
}

// derivesFromCall: v is result #idx of a call to a function named name, possibly merged by a phi
// with other values or copied through a single-store local.
func derivesFromCall(v ssa.Value, name string, idx int) bool {
	seen := map[ssa.Value]bool{}
	var rec func(v ssa.Value) bool
	rec = func(v ssa.Value) bool {
		if seen[v] {
			return false
		}
		seen[v] = true
		switch x := v.(type) {
		case *ssa.Extract:
			if c, ok := x.Tuple.(*ssa.Call); ok && x.Index == idx {
				if cal := c.Call.StaticCallee(); cal != nil && cal.Name() == name {
					return true
				}
			}
		case *ssa.Call:
			if cal := x.Call.StaticCallee(); cal != nil && cal.Name() == name && idx == 0 {
				return true
			}
		case *ssa.Phi:
			for _, e := range x.Edges {
				if rec(e) {
					return true
				}
			}
		case *ssa.UnOp:
			if x.Op == token.MUL {
				if al, ok := x.X.(*ssa.Alloc); ok {
					for _, r := range *al.Referrers() {
						if st, ok := r.(*ssa.Store); ok && st.Addr == al && rec(st.Val) {
							return true
						}
					}
				}
			}
		}
		return false
	}
	return rec(v)
}

// MLoop is a `for k, v := range map` loop (rangeiter.loop/body).
type MLoop struct {
	Header *ssa.BasicBlock
	Body   *ssa.BasicBlock
	X      ssa.Value
	Blocks map[*ssa.BasicBlock]bool
}

func mapRangeLoops(fn *ssa.Function) []*MLoop {
	var out []*MLoop
	for _, h := range fn.Blocks {
		if h.Comment != "rangeiter.loop" || len(h.Succs) != 2 {
			continue
		}
		l := &MLoop{Header: h, Body: h.Succs[0], Blocks: map[*ssa.BasicBlock]bool{}}
		for _, in := range h.Instrs {
			if nx, ok := in.(*ssa.Next); ok {
				if rg, ok := nx.Iter.(*ssa.Range); ok {
					l.X = rg.X
				}
			}
		}
		st := []*ssa.BasicBlock{l.Body}
		for len(st) > 0 {
			x := st[len(st)-1]
			st = st[:len(st)-1]
			if x == h || l.Blocks[x] {
				continue
			}
			l.Blocks[x] = true
			st = append(st, x.Succs...)
		}
		out = append(out, l)
	}
	return out
}

// reachingStores: for a load *al of a local variable whose address never leaves the loads and stores of its own
// function (plain == true), the stores to al that reach the load: on some path from the store to the load no other
// store to al is executed. An uninitialised path (the zero value) contributes nothing.
func reachingStores(load *ssa.UnOp) (stores []*ssa.Store, plain bool) {
	al, ok := load.X.(*ssa.Alloc)
	if !ok || load.Op != token.MUL {
		return nil, false
	}
	if fn := load.Parent(); fn != nil && fn.Recover != nil {
		// a load in the block that runs after a recovered panic sees whatever was stored before the panic
		for b := load.Block(); ; {
			if b == fn.Recover {
				return nil, false
			}
			if len(b.Preds) != 1 {
				break
			}
			b = b.Preds[0]
		}
	}
	for _, r := range *al.Referrers() {
		switch y := r.(type) {
		case *ssa.Store:
			if y.Addr != ssa.Value(al) {
				return nil, false // the address itself is stored somewhere
			}
		case *ssa.UnOp:
			if y.Op != token.MUL {
				return nil, false
			}
		case *ssa.DebugRef:
		default:
			return nil, false // captured by a closure, passed to a call, ...
		}
	}
	seen := map[*ssa.BasicBlock]bool{}
	found := map[*ssa.Store]bool{}
	// scan block b backwards from instruction index i-1; true when a store ended the search on this path
	var back func(b *ssa.BasicBlock, from int)
	back = func(b *ssa.BasicBlock, from int) {
		for i := from - 1; i >= 0; i-- {
			if st, ok := b.Instrs[i].(*ssa.Store); ok && st.Addr == ssa.Value(al) {
				if !found[st] {
					found[st] = true
					stores = append(stores, st)
				}
				return
			}
		}
		for _, p := range b.Preds {
			if !seen[p] {
				seen[p] = true
				back(p, len(p.Instrs))
			}
		}
	}
	back(load.Block(), instrIndex(load))
	return stores, true
}

// phiLeaves expands phis (and single-store locals) into the set of non-phi values merged.
func phiLeaves(v ssa.Value) []ssa.Value {
	seen := map[ssa.Value]bool{}
	var out []ssa.Value
	var rec func(v ssa.Value)
	rec = func(v ssa.Value) {
		if seen[v] {
			return
		}
		seen[v] = true
		switch x := v.(type) {
		case *ssa.Phi:
			for _, e := range x.Edges {
				rec(e)
			}
			return
		case *ssa.UnOp:
			if al, ok := x.X.(*ssa.Alloc); ok && x.Op == token.MUL {
				// a plain local (results spilled because the function defers, a variable whose address stays in
				// the function): the stores that can reach this load, not every store to the variable
				if sts, plain := reachingStores(x); plain {
					for _, st := range sts {
						rec(st.Val)
					}
					if len(sts) > 0 {
						return
					}
					break
				}
				n := 0
				for _, r := range *al.Referrers() {
					if st, ok := r.(*ssa.Store); ok && st.Addr == al {
						rec(st.Val)
						n++
					}
				}
				if n > 0 {
					return
				}
			}
		}
		out = append(out, v)
	}
	rec(v)
	return out
}

// reachBindings: while a boolean helper is being evaluated inside reachUnder, its parameters stand
// for the arguments of the call being evaluated. Assumption functions that compare operands by identity
// with a value of the outer function pass them through resolveBound first.
var reachBindings []map[*ssa.Parameter]ssa.Value

func resolveBound(v ssa.Value) ssa.Value {
	for i := len(reachBindings) - 1; i >= 0; i-- {
		p, ok := v.(*ssa.Parameter)
		if !ok {
			return v
		}
		if x, ok := reachBindings[i][p]; ok {
			v = x
		}
	}
	return v
}

// reachUnder: is target reachable from fn's entry when every If whose condition is decided by
// assume (through negation, through phis that merge decided values over feasible edges — the form
// `c := x == nil || y == nil; if c {` takes — and through calls of same-module boolean helpers, which
// are evaluated under the same assumptions with their parameters bound to the arguments) only follows
// the decided edge? Optimistic fixpoint over feasible edges (as in conditional constant propagation):
// no path enumeration.
func reachUnder(fn *ssa.Function, target ssa.Instruction, assume func(v ssa.Value) Tri) bool {
	reach, _ := feasibleUnder(fn, assume, 0)
	return reach[target.Block()]
}

// feasibleUnder computes the blocks of fn reachable under assume and the value of fn's first result
// (when it is a boolean) over the reachable returns.
func feasibleUnder(fn *ssa.Function, assume func(v ssa.Value) Tri, depth int) (map[*ssa.BasicBlock]bool, Tri) {
	type edge struct{ from, to *ssa.BasicBlock }
	feasible := map[edge]bool{}
	reach := map[*ssa.BasicBlock]bool{fn.Blocks[0]: true}
	var eval func(v ssa.Value, d int) Tri
	eval = func(v ssa.Value, d int) Tri {
		if isNewFlag(v) {
			return F // an option added later, at its default
		}
		switch x := v.(type) {
		case *ssa.UnOp:
			if x.Op == token.NOT {
				return eval(x.X, d).not()
			}
		case *ssa.Const:
			if x.Value != nil && x.Value.Kind() == constant.Bool {
				return tri(constant.BoolVal(x.Value))
			}
		case *ssa.Phi:
			if r := assume(v); r != U || d > 3 {
				return r
			}
			res, first := U, true
			for i, e := range x.Edges {
				if !feasible[edge{x.Block().Preds[i], x.Block()}] {
					continue
				}
				r := eval(e, d+1)
				if first {
					res, first = r, false
				} else if r != res {
					return U
				}
			}
			return res
		case *ssa.Call:
			if r := assume(v); r != U {
				return r
			}
			callee := x.Call.StaticCallee()
			if callee == nil || callee.Blocks == nil || depth >= 2 || callee.Pkg != fn.Pkg || callee == fn {
				return U
			}
			if res := callee.Signature.Results(); res.Len() != 1 || !isBool(res.At(0).Type()) {
				return U
			}
			bind := map[*ssa.Parameter]ssa.Value{}
			for i, p := range callee.Params {
				if i < len(x.Call.Args) {
					bind[p] = resolveBound(x.Call.Args[i])
				}
			}
			reachBindings = append(reachBindings, bind)
			_, r := feasibleUnder(callee, assume, depth+1)
			reachBindings = reachBindings[:len(reachBindings)-1]
			return r
		}
		return assume(v)
	}
	for changed := true; changed; {
		changed = false
		for _, b := range fn.Blocks {
			if !reach[b] {
				continue
			}
			succs := b.Succs
			if iff, ok := b.Instrs[len(b.Instrs)-1].(*ssa.If); ok {
				switch eval(iff.Cond, 0) {
				case T:
					succs = b.Succs[:1]
				case F:
					succs = b.Succs[1:2]
				}
			}
			for _, s := range succs {
				if !feasible[edge{b, s}] {
					feasible[edge{b, s}] = true
					changed = true
				}
				if !reach[s] {
					reach[s] = true
					changed = true
				}
			}
		}
	}
	// the boolean result over the reachable returns
	result, first := U, true
	for _, b := range fn.Blocks {
		if !reach[b] {
			continue
		}
		ret, ok := b.Instrs[len(b.Instrs)-1].(*ssa.Return)
		if !ok || len(ret.Results) == 0 || !isBool(ret.Results[0].Type()) {
			continue
		}
		r := eval(ret.Results[0], 0)
		if first {
			result, first = r, false
		} else if r != result {
			result = U
		}
	}
	return reach, result
}

// returnsNilError: every return of fn yields a nil constant as result idx, directly or by
// forwarding the same result of a module function for which this holds.
func (a *A) returnsNilError(fn *ssa.Function, idx int, depth int) bool {
	if fn == nil || fn.Blocks == nil || depth > 4 {
		return false
	}
	for _, b := range fn.Blocks {
		ret, ok := b.Instrs[len(b.Instrs)-1].(*ssa.Return)
		if !ok || len(ret.Results) <= idx {
			continue
		}
		for _, leaf := range phiLeaves(ret.Results[idx]) {
			if k, ok := leaf.(*ssa.Const); ok && k.Value == nil {
				continue
			}
			if ex, ok := leaf.(*ssa.Extract); ok {
				if c, ok := ex.Tuple.(*ssa.Call); ok {
					if cal := c.Call.StaticCallee(); cal != nil && a.fnInModule(cal) && a.returnsNilError(cal, ex.Index, depth+1) {
						continue
					}
				}
			}
			return false
		}
	}
	return true
}

// rulePooledMapCleared: a map taken from a sync.Pool is never used or returned dirty: either a
// delete-all loop over it dominates every write to it (cleared on Get), or no path from Get to a
// function exit avoids a delete-all loop (cleared before Put on every path).
func (a *A) rulePooledMapCleared(fn *ssa.Function) int {
	n := 0
	allInstrs(fn, func(in ssa.Instruction) {
		ta, ok := in.(*ssa.TypeAssert)
		if !ok {
			return
		}
		if _, isMap := ta.AssertedType.Underlying().(*types.Map); !isMap {
			return
		}
		c, ok := ta.X.(*ssa.Call)
		if !ok || calleeFull(&c.Call) != "(*sync.Pool).Get" {
			return
		}
		n++
		var m ssa.Value = ta
		if ta.CommaOk {
			for _, r := range *ta.Referrers() {
				if ex, ok := r.(*ssa.Extract); ok && ex.Index == 0 {
					m = ex
				}
			}
		}
		// clear loops over m
		var clearHeads []*ssa.BasicBlock
		for _, l := range mapRangeLoops(fn) {
			if l.X != m {
				continue
			}
			del := false
			for b := range l.Blocks {
				for _, x := range b.Instrs {
					if cc, ok := isBuiltinCall(x, "delete"); ok && cc.Args[0] == m {
						del = true
					}
				}
			}
			if del {
				clearHeads = append(clearHeads, l.Header)
			}
		}
		// builtin clear(m)
		var clearCalls []ssa.Instruction
		allInstrs(fn, func(x ssa.Instruction) {
			if cc, ok := isBuiltinCall(x, "clear"); ok && cc.Args[0] == m {
				clearCalls = append(clearCalls, x)
			}
		})
		construct := fname(fn) + "#pooled-map-cleared"
		// (A) cleared on Get: a clear dominates every write
		onGet := len(clearHeads)+len(clearCalls) > 0
		allInstrs(fn, func(x ssa.Instruction) {
			mu, ok := x.(*ssa.MapUpdate)
			if !ok || mu.Map != m {
				return
			}
			dom := false
			for _, h := range clearHeads {
				if h.Dominates(mu.Block()) && h != mu.Block() {
					dom = true
				}
			}
			for _, cl := range clearCalls {
				if dominatesInstr(cl, mu) {
					dom = true
				}
			}
			if !dom {
				onGet = false
			}
		})
		// (B) cleared before every exit
		isClear := func(x ssa.Instruction) bool {
			for _, h := range clearHeads {
				if x.Block() == h {
					return true
				}
			}
			for _, cl := range clearCalls {
				if x == cl {
					return true
				}
			}
			return false
		}
		beforeExit := len(clearHeads)+len(clearCalls) > 0 && pathToExitAvoiding(in, isClear, false) == nil
		// (C) emptied before every Put: the pool only ever holds empty maps. Every Put on the same pool, anywhere in
		// the module, puts a map that a clearing loop (for k := range m { delete(m, k) }) or clear(m) has just
		// emptied: the loop's header dominates the Put and lies outside it.
		onPut := false
		if !onGet && !beforeExit {
			poolOf := func(cc *ssa.CallCommon) string { return TermOf(cc.Args[0], nil).String() }
			pool := poolOf(&c.Call)
			puts, good := 0, 0
			for _, g := range a.ModFuncs {
				if g.Pkg != fn.Pkg && ssaPkgOf(g) != ssaPkgOf(fn) {
					continue
				}
				allInstrs(g, func(x ssa.Instruction) {
					pc, ok := x.(*ssa.Call)
					if !ok || calleeFull(&pc.Call) != "(*sync.Pool).Put" || poolOf(&pc.Call) != pool {
						return
					}
					puts++
					v := pc.Call.Args[1]
					if mi, ok := v.(*ssa.MakeInterface); ok {
						v = mi.X
					}
					cleared := false
					for _, l := range mapRangeLoops(g) {
						if l.X != v || l.Blocks[pc.Block()] || !l.Header.Dominates(pc.Block()) {
							continue
						}
						for b := range l.Blocks {
							for _, y := range b.Instrs {
								if dc, ok := isBuiltinCall(y, "delete"); ok && dc.Args[0] == v {
									cleared = true
								}
							}
						}
					}
					allInstrs(g, func(y ssa.Instruction) {
						if cc, ok := isBuiltinCall(y, "clear"); ok && cc.Args[0] == v && dominatesInstr(y, pc) {
							cleared = true
						}
					})
					if cleared {
						good++
					}
				})
			}
			onPut = puts > 0 && good == puts
		}
		a.Check(onGet || beforeExit || onPut, construct, in.Pos(), "the pooled map is emptied before its first write after Get (or before every exit, or before every Put on that pool)",
			"a map taken from the pool can be written without having been emptied, or go back to the pool with the previous row's entries on some path: the next evaluation (of any partition, any instance) sees stale fields")
	})
	return n
}

// ---------------------------------------------------------------- delivered batches are fresh storage

// sliceOrigin is one place the backing array of a slice value may come from.
type sliceOrigin struct {
	Kind string // fresh | nil | field | global | param | unknown
	Desc string
	Pos  token.Pos
}

// sliceOrigins traces the backing array of slice value v backwards: through re-slicing, append
// (the base operand), phis, conversions, results of module functions (all their returns) and
// parameters (all module call sites, bounded depth). A load from a struct field or a package variable
// is reported as retained storage.
func (a *A) sliceOrigins(v ssa.Value, fn *ssa.Function) []sliceOrigin {
	var out []sliceOrigin
	type key struct {
		v ssa.Value
	}
	seen := map[key]bool{}
	var walk func(v ssa.Value, fn *ssa.Function, d int)
	walk = func(v ssa.Value, fn *ssa.Function, d int) {
		if v == nil || seen[key{v}] {
			return
		}
		seen[key{v}] = true
		if d > 14 {
			out = append(out, sliceOrigin{"unknown", "trace depth exceeded at " + v.Name(), v.Pos()})
			return
		}
		switch x := v.(type) {
		case *ssa.Const:
			out = append(out, sliceOrigin{"nil", "nil", token.NoPos})
		case *ssa.MakeSlice:
			out = append(out, sliceOrigin{"fresh", "make", x.Pos()})
		case *ssa.Slice:
			if al, ok := x.X.(*ssa.Alloc); ok {
				out = append(out, sliceOrigin{"fresh", "literal", al.Pos()})
				return
			}
			walk(x.X, fn, d+1)
		case *ssa.Phi:
			for _, e := range x.Edges {
				walk(e, fn, d+1)
			}
		case *ssa.ChangeType:
			walk(x.X, fn, d+1)
		case *ssa.Extract:
			if c, ok := x.Tuple.(*ssa.Call); ok {
				a.calleeReturns(c, x.Index, func(rv ssa.Value, rf *ssa.Function) { walk(rv, rf, d+1) }, func(why string) {
					out = append(out, sliceOrigin{"unknown", why, c.Pos()})
				})
				return
			}
			out = append(out, sliceOrigin{"unknown", "tuple " + x.Tuple.Name(), x.Pos()})
		case *ssa.Call:
			if cc, ok := isBuiltinCall(x, "append"); ok {
				walk(cc.Args[0], fn, d+1)
				return
			}
			a.calleeReturns(x, 0, func(rv ssa.Value, rf *ssa.Function) { walk(rv, rf, d+1) }, func(why string) {
				out = append(out, sliceOrigin{"unknown", why, x.Pos()})
			})
		case *ssa.UnOp:
			if x.Op != token.MUL {
				out = append(out, sliceOrigin{"unknown", "op " + x.Op.String(), x.Pos()})
				return
			}
			switch y := x.X.(type) {
			case *ssa.FieldAddr:
				if isFreshObject(y) {
					out = append(out, sliceOrigin{"fresh", "field of an object allocated here", x.Pos()})
					return
				}
				out = append(out, sliceOrigin{"field", TermOf(x, nil).String(), x.Pos()})
			case *ssa.Global:
				out = append(out, sliceOrigin{"global", y.Name(), x.Pos()})
			case *ssa.Alloc:
				// local variable spilled to memory: every store into it
				for _, r := range *y.Referrers() {
					if st, ok := r.(*ssa.Store); ok && st.Addr == ssa.Value(y) {
						walk(st.Val, fn, d+1)
					}
				}
			case *ssa.IndexAddr, *ssa.Lookup:
				out = append(out, sliceOrigin{"element", TermOf(x, nil).String(), x.Pos()})
			default:
				out = append(out, sliceOrigin{"unknown", "load of " + TermOf(x.X, nil).String(), x.Pos()})
			}
		case *ssa.Lookup:
			out = append(out, sliceOrigin{"element", TermOf(x, nil).String(), x.Pos()})
		case *ssa.Parameter:
			// all module call sites
			idx := -1
			for i, p := range x.Parent().Params {
				if p == x {
					idx = i
				}
			}
			n := a.CG().Nodes[x.Parent()]
			sites := 0
			if n != nil && idx >= 0 {
				for _, e := range n.In {
					if e.Caller == nil || !a.fnInModule(e.Caller.Func) || e.Site == nil {
						continue
					}
					args := e.Site.Common().Args
					if e.Site.Common().IsInvoke() {
						// receiver is not in Args for invoke-mode calls
						if idx == 0 {
							continue
						}
						if idx-1 < len(args) {
							sites++
							walk(args[idx-1], e.Caller.Func, d+1)
						}
						continue
					}
					if idx < len(args) {
						sites++
						walk(args[idx], e.Caller.Func, d+1)
					}
				}
			}
			if sites == 0 {
				out = append(out, sliceOrigin{"param", "parameter " + x.Name() + " of " + fname(x.Parent()) + " (no module caller)", x.Pos()})
			}
		case *ssa.TypeAssert:
			out = append(out, sliceOrigin{"unknown", "type assertion of " + TermOf(x.X, nil).String(), x.Pos()})
		default:
			out = append(out, sliceOrigin{"unknown", fmt.Sprintf("%T %s", v, v.Name()), v.Pos()})
		}
	}
	walk(v, fn, 0)
	return out
}

// calleeReturns enumerates result #idx of every return of the (static or call-graph resolved)
// module callees of call c.
func (a *A) calleeReturns(c *ssa.Call, idx int, f func(rv ssa.Value, rf *ssa.Function), unknown func(why string)) {
	var callees []*ssa.Function
	if sc := c.Call.StaticCallee(); sc != nil {
		callees = append(callees, sc)
	} else if n := a.CG().Nodes[c.Parent()]; n != nil {
		for _, e := range n.Out {
			if e.Site == ssa.CallInstruction(c) && e.Callee != nil {
				callees = append(callees, e.Callee.Func)
			}
		}
	}
	if len(callees) == 0 {
		unknown("unresolved call " + c.String())
		return
	}
	for _, callee := range callees {
		if !a.fnInModule(callee) || callee.Blocks == nil {
			unknown("result of " + fname(callee))
			continue
		}
		for _, b := range callee.Blocks {
			if ret, ok := b.Instrs[len(b.Instrs)-1].(*ssa.Return); ok && idx < len(ret.Results) {
				f(ret.Results[idx], callee)
			}
		}
	}
}

// ruleDeliveredBatchFresh: a batch handed to the result channel and the sinks is read by them after
// the engine has moved on (async sink workers, a consumer of ToChannel). Its backing array must
// therefore be storage the engine does not keep: for every call of sendResultNonBlocking /
// callSinksAsync in package stream, no origin of the slice argument is a load from a struct field or a
// package variable (a scratch buffer reused for the next batch would rewrite a delivered one).
func (a *A) ruleDeliveredBatchFresh() int {
	S := a.Named("stream", "Stream")
	n := 0
	for _, name := range []string{"sendResultNonBlocking", "callSinksAsync"} {
		target := a.methodOf(S, name)
		if target == nil {
			a.anchorFail("Stream.%s not found", name)
		}
		for _, fn := range a.ModFuncs {
			for _, site := range callsTo(fn, target) {
				cc := callCommon(site)
				n++
				construct := fmt.Sprintf("%s->%s#batch-storage", fname(fn), name)
				var retained, unknown []string
				kinds := map[string]int{}
				for _, o := range a.sliceOrigins(cc.Args[1], fn) {
					kinds[o.Kind]++
					switch o.Kind {
					case "field", "global":
						retained = append(retained, o.Desc+" at "+a.pos(o.Pos))
					case "unknown":
						unknown = append(unknown, o.Desc)
					}
				}
				switch {
				case len(retained) > 0:
					a.Bad(construct, site.Pos(), "the delivered batch may be backed by retained storage (%s): the next batch written into it rewrites rows a sink or channel consumer still holds", strings.Join(retained, "; "))
				case len(unknown) > 0:
					a.Und(construct, site.Pos(), "origin of the delivered slice not resolved: %s", strings.Join(unknown, "; "))
				default:
					a.Ok(construct, site.Pos(), "backing array origins: %v", kinds)
				}
			}
		}
	}
	return n
}

// ---------------------------------------------------------------- in-place filtering

// ruleInPlaceFilter: `out := xs[:0]` followed by appends to out while xs is still being ranged over
// is the in-place filter idiom. It is only correct when the write index never overtakes the read
// index: on every path through one iteration at most one element is appended. A loop that can append
// two elements for one element read (a run that forks into several successors) overwrites elements it
// has not read yet.
func (a *A) ruleInPlaceFilter(pkgs ...string) int {
	inPkgs := map[*ssa.Package]bool{}
	for _, p := range pkgs {
		inPkgs[a.Pkg(p)] = true
	}
	n := 0
	for _, fn := range a.ModFuncs {
		if fn.Pkg == nil || !inPkgs[fn.Pkg] || fn.Blocks == nil {
			continue
		}
		loops := rangeLoops(fn)
		allInstrs(fn, func(in ssa.Instruction) {
			s0, ok := in.(*ssa.Slice)
			if !ok || s0.High == nil {
				return
			}
			if k, ok := s0.High.(*ssa.Const); !ok || k.Int64() != 0 {
				return
			}
			if _, isSlice := s0.X.Type().Underlying().(*types.Slice); !isSlice {
				return
			}
			baseT := TermOf(s0.X, nil).String()
			// values that share s0's backing array
			alias := flowsForward(s0)
			for _, l := range loops {
				if l.X == nil || TermOf(l.X, nil).String() != baseT {
					continue
				}
				isApp := func(in ssa.Instruction) bool {
					c, ok := in.(*ssa.Call)
					if !ok {
						return false
					}
					cc, ok := isBuiltinCall(c, "append")
					return ok && alias[cc.Args[0]]
				}
				// only a loop that writes into the shared backing array is an in-place filter
				writes := false
				for b := range l.Blocks {
					for _, in := range b.Instrs {
						if isApp(in) {
							writes = true
						}
					}
				}
				if !writes {
					continue
				}
				n++
				construct := fname(fn) + "#in-place-filter"
				// max number of aliasing appends on a path through one iteration (2 = "two or more")
				memo := map[*ssa.BasicBlock]int{}
				onStack := map[*ssa.BasicBlock]bool{}
				var most func(b *ssa.BasicBlock) int
				most = func(b *ssa.BasicBlock) int {
					if b == l.Header || !l.Blocks[b] {
						return 0
					}
					if onStack[b] {
						// inner cycle: if it contains an append the count is unbounded
						return 0
					}
					if v, ok := memo[b]; ok {
						return v
					}
					onStack[b] = true
					here := 0
					for _, in := range b.Instrs {
						if isApp(in) {
							here++
						}
					}
					best := 0
					for _, s := range b.Succs {
						if v := most(s); v > best {
							best = v
						}
					}
					onStack[b] = false
					memo[b] = here + best
					return here + best
				}
				cnt := most(l.Body)
				// appends inside an inner cycle of the iteration
				inner := false
				for b := range l.Blocks {
					hasApp := false
					for _, in := range b.Instrs {
						if isApp(in) {
							hasApp = true
						}
					}
					if !hasApp {
						continue
					}
					for _, s := range b.Succs {
						if s != l.Header && reachesAvoiding(s, b, l.Header) {
							inner = true
						}
					}
				}
				// the compaction must be committed: once the loop has shifted elements down inside the
				// shared backing array, the owner (a field) has to be set to the compacted slice on every
				// path to a return, or it keeps its old length over half-shifted contents (trailing
				// elements duplicated)
				if fa := fieldAddrOfLoad(s0.X); fa != nil {
					isCommit := func(in ssa.Instruction) bool {
						st, ok := in.(*ssa.Store)
						if !ok {
							return false
						}
						sfa, ok := st.Addr.(*ssa.FieldAddr)
						return ok && sfa.Field == fa.Field && sfa.X == fa.X && alias[st.Val]
					}
					var uncommitted ssa.Instruction
					for b := range l.Blocks {
						for _, sc := range b.Succs {
							if l.Blocks[sc] || sc == l.Header {
								continue
							}
							if x := pathToExitAvoiding(sc.Instrs[0], isCommit, false); x != nil {
								uncommitted = x
							}
						}
					}
					for _, sc := range l.Header.Succs {
						if !l.Blocks[sc] && sc != l.Body {
							if len(sc.Instrs) > 0 {
								if isCommit(sc.Instrs[0]) {
									continue
								}
								if x := pathToExitAvoiding(sc.Instrs[0], isCommit, false); x != nil {
									uncommitted = x
								}
							}
						}
					}
					if uncommitted != nil {
						a.Bad(construct+"-committed", uncommitted.Pos(), "after compacting %s in place the function can return (here) without storing the compacted slice back: the field keeps its old length over half-shifted contents, so trailing rows are duplicated", baseT)
					} else {
						a.Ok(construct+"-committed", s0.Pos(), "the compacted slice is stored back on every path to a return")
					}
				}
				a.Check(cnt <= 1 && !inner, construct, s0.Pos(),
					"at most one element is appended to the re-used backing array per element read",
					fmt.Sprintf("%s re-uses the backing array of %s while ranging over it and can append more than one element for one element read (%d on one path%s): the extra element overwrites an element that has not been read yet", s0.Name(), baseT, cnt, map[bool]string{true: ", inside an inner loop", false: ""}[inner]))
			}
		})
	}
	return n
}

// fieldAddrOfLoad: for a load *(&x.f) the FieldAddr, else nil.
func fieldAddrOfLoad(v ssa.Value) *ssa.FieldAddr {
	if u, ok := v.(*ssa.UnOp); ok && u.Op == token.MUL {
		fa, _ := u.X.(*ssa.FieldAddr)
		return fa
	}
	return nil
}

// reachOnSomePath: is target reachable from fn's entry on a path that is consistent with assume and
// with itself — a condition that assume leaves open is decided once per path, and a structurally
// identical condition met again (the same comparison of the same values: `timeChar == EventTime`
// written twice) takes the same branch; phis are resolved by the edge the path came in on. Each block
// is entered at most twice per path; on budget exhaustion the answer is true (reachable).
func reachOnSomePath(fn *ssa.Function, target ssa.Instruction, assume func(v ssa.Value) Tri) bool {
	return reachOnSomePathAvoiding(fn, target, assume, nil)
}

// reachOnSomePathAvoiding: as reachOnSomePath, and a path ends where it executes an instruction
// accepted by barrier before it reaches target.
func reachOnSomePathAvoiding(fn *ssa.Function, target ssa.Instruction, assume func(v ssa.Value) Tri, barrier func(ssa.Instruction) bool) bool {
	return explorePaths(fn, target, assume, barrier, nil)
}

// pathLeavesAt: the values a merged value v can stand for when control reaches instruction at,
// path by path: phis are resolved by the edge each path came in by, and branches on booleans that a
// path has made constant (a flag such as `copied`) follow only the feasible side. complete is false
// when the exploration ran out of budget (the answer is then not to be relied on).
func pathLeavesAt(fn *ssa.Function, at ssa.Instruction, v ssa.Value) (leaves []ssa.Value, complete bool) {
	seen := map[ssa.Value]bool{}
	over := explorePaths(fn, at, func(ssa.Value) Tri { return U }, func(ssa.Instruction) bool { return false },
		func(resolve func(ssa.Value) ssa.Value) {
			if l := resolve(v); !seen[l] {
				seen[l] = true
				leaves = append(leaves, l)
			}
		})
	return leaves, !over
}

// explorePaths walks the feasible paths from fn's entry. Without onHit it stops at the first path
// that reaches target and reports true. With onHit every path that reaches target calls it with the
// path's resolution of merged values and ends there; the result is then true only if the budget ran out.
func explorePaths(fn *ssa.Function, target ssa.Instruction, assume func(v ssa.Value) Tri, barrier func(ssa.Instruction) bool, onHit func(resolve func(ssa.Value) ssa.Value)) bool {
	return explorePathsX(fn, nil, target, nil, assume, barrier, onHit)
}

// pathFromTo: is there a feasible path that starts right after instruction from and reaches an
// instruction accepted by isTarget without executing one accepted by barrier? (Merged values that
// were decided before from are unknown on such a path.)
func pathFromTo(from ssa.Instruction, isTarget func(ssa.Instruction) bool, assume func(v ssa.Value) Tri, barrier func(ssa.Instruction) bool) bool {
	if assume == nil {
		assume = func(ssa.Value) Tri { return U }
	}
	return explorePathsX(from.Parent(), from, nil, isTarget, assume, barrier, nil)
}

func explorePathsX(fn *ssa.Function, start ssa.Instruction, target ssa.Instruction, isTarget func(ssa.Instruction) bool, assume func(v ssa.Value) Tri, barrier func(ssa.Instruction) bool, onHit func(resolve func(ssa.Value) ssa.Value)) bool {
	if isTarget == nil {
		isTarget = func(in ssa.Instruction) bool { return in == target }
	}
	if barrier == nil && (start != nil || target == nil) {
		barrier = func(ssa.Instruction) bool { return false }
	}
	skip := 0 // instructions of the first block that lie before the start
	if start != nil {
		skip = instrIndex(start) + 1
	}
	type pathState struct {
		decided map[string]Tri
		phi     map[*ssa.Phi]ssa.Value
		visits  map[*ssa.BasicBlock]int
	}
	key := func(v ssa.Value) string {
		switch x := v.(type) {
		case *ssa.BinOp:
			opnd := func(o ssa.Value) string {
				if k, ok := o.(*ssa.Const); ok {
					return "k:" + k.String()
				}
				return fmt.Sprintf("%p", o)
			}
			return fmt.Sprintf("%s|%s|%s", x.Op, opnd(x.X), opnd(x.Y))
		case *ssa.Phi, *ssa.Parameter, *ssa.Extract:
			return fmt.Sprintf("v|%p", v)
		}
		return ""
	}
	budget := 40000
	found := false
	var eval func(v ssa.Value, ps *pathState, d int) Tri
	eval = func(v ssa.Value, ps *pathState, d int) Tri {
		if d > 6 {
			return U
		}
		if isNewFlag(v) {
			return F // an option added later, at its default
		}
		switch x := v.(type) {
		case *ssa.UnOp:
			if x.Op == token.NOT {
				return eval(x.X, ps, d+1).not()
			}
		case *ssa.Const:
			if x.Value != nil && x.Value.Kind() == constant.Bool {
				return tri(constant.BoolVal(x.Value))
			}
		case *ssa.Phi:
			if r := assume(v); r != U {
				return r
			}
			if e, ok := ps.phi[x]; ok {
				return eval(e, ps, d+1)
			}
		case *ssa.BinOp:
			// a nil test of a merged value the path has made definite: `err != nil` after the value
			// came in as the constant nil, or as an error that was just constructed
			if r := assume(v); r != U {
				return r
			}
			// a counter of findings (`nulls := 0; … if v == nil { nulls++ } …; if nulls > 0`): positive once the
			// path has passed an increment - the counter starts at a constant >= 0 and only ever grows
			if isIntType(x.X.Type()) && isZeroConst(x.Y) {
				structural := map[ssa.Value]bool{}
				var lb func(v ssa.Value, seen map[ssa.Value]bool, d int) (int64, bool)
				lb = func(v ssa.Value, seen map[ssa.Value]bool, d int) (int64, bool) {
					if d > 12 {
						return 0, false
					}
					switch y := v.(type) {
					case *ssa.Const:
						if y.Value != nil && y.Value.Kind() == constant.Int {
							return y.Int64(), true
						}
					case *ssa.BinOp:
						if y.Op == token.ADD {
							if k, isK := y.Y.(*ssa.Const); isK && k.Value != nil && k.Value.Kind() == constant.Int && k.Int64() >= 0 {
								if b, ok := lb(y.X, seen, d+1); ok {
									return b + k.Int64(), true
								}
							}
						}
					case *ssa.Phi:
						if e, has := ps.phi[y]; has && !seen[y] {
							seen[y] = true
							return lb(e, seen, d+1)
						}
						if structural[y] {
							return 1 << 40, true // on a cycle: bounded by the other edges
						}
						// (the value the variable had before its last update is not kept by the path: from here on
						// the bound is the one every way into the variable guarantees)
						structural[y] = true
						min, any := int64(1<<40), false
						for _, e := range y.Edges {
							b, ok := lb(e, seen, d+1)
							if !ok {
								return 0, false
							}
							if b < min {
								min = b
							}
							any = true
						}
						return min, any
					}
					return 0, false
				}
				if b, ok := lb(x.X, map[ssa.Value]bool{}, 0); ok && b >= 1 && b < 1<<39 {
					switch x.Op {
					case token.GTR, token.NEQ, token.GEQ:
						return T
					case token.EQL, token.LEQ, token.LSS:
						return F
					}
				}
			}
			// an outcome code the path has made definite: `switch code { case dropped: …` after code came in
			// as one of the constants of the arms that set it
			if x.Op == token.EQL || x.Op == token.NEQ {
				res := func(o ssa.Value) *ssa.Const {
					for i := 0; i < 16; i++ {
						ph, isPhi := o.(*ssa.Phi)
						if !isPhi {
							break
						}
						e, has := ps.phi[ph]
						if !has {
							break
						}
						o = e
					}
					k, _ := o.(*ssa.Const)
					return k
				}
				if kx, ky := res(x.X), res(x.Y); kx != nil && ky != nil && kx.Value != nil && ky.Value != nil &&
					(kx.Value.Kind() == constant.Int || kx.Value.Kind() == constant.String) && kx.Value.Kind() == ky.Value.Kind() {
					return tri(constant.Compare(kx.Value, token.EQL, ky.Value) == (x.Op == token.EQL))
				}
			}
			if opnd, nilWhenTrue, ok := nilTest(v); ok {
				for i := 0; i < 16; i++ {
					ph, isPhi := opnd.(*ssa.Phi)
					if !isPhi {
						break
					}
					e, has := ps.phi[ph]
					if !has {
						break
					}
					opnd = e
				}
				if k, isK := opnd.(*ssa.Const); isK && k.Value == nil {
					return tri(nilWhenTrue)
				}
				if definitelyNonNil(opnd, 0) {
					return tri(!nilWhenTrue)
				}
			}
		}
		if r := assume(v); r != U {
			return r
		}
		if k := key(v); k != "" {
			if r, ok := ps.decided[k]; ok {
				return r
			}
		}
		return U
	}
	clone := func(ps *pathState) *pathState {
		q := &pathState{decided: map[string]Tri{}, phi: map[*ssa.Phi]ssa.Value{}, visits: map[*ssa.BasicBlock]int{}}
		for k, v := range ps.decided {
			q.decided[k] = v
		}
		for k, v := range ps.phi {
			q.phi[k] = v
		}
		for k, v := range ps.visits {
			q.visits[k] = v
		}
		return q
	}
	var walk func(b, pred *ssa.BasicBlock, ps *pathState)
	walk = func(b, pred *ssa.BasicBlock, ps *pathState) {
		for {
			if found {
				return
			}
			budget--
			if budget < 0 {
				found = true
				return
			}
			if ps.visits[b] >= 2 {
				return
			}
			ps.visits[b]++
			if pred != nil {
				for i, p := range b.Preds {
					if p != pred {
						continue
					}
					// all phis of a block are assigned at once from the values before the entry: an operand
					// that is itself a phi (of another block, or of this block on a back edge - the loop
					// variable carried round unchanged) stands for what it resolved to so far
					type asg struct {
						phi *ssa.Phi
						v   ssa.Value
					}
					var asgs []asg
					for _, in := range b.Instrs {
						phi, ok := in.(*ssa.Phi)
						if !ok {
							break
						}
						e := phi.Edges[i]
						if pe, ok := e.(*ssa.Phi); ok {
							if pv, ok := ps.phi[pe]; ok {
								e = pv
							}
						}
						asgs = append(asgs, asg{phi, e})
					}
					for _, x := range asgs {
						ps.phi[x.phi] = x.v
					}
					break
				}
			}
			if barrier == nil {
				if b == target.Block() {
					found = true
					return
				}
			} else {
				dead := false
				for idx, in := range b.Instrs {
					if idx < skip {
						continue
					}
					if isTarget(in) {
						if onHit != nil {
							onHit(func(v ssa.Value) ssa.Value {
								// a comparison the path has decided answers with its verdict
								if bo, isBo := v.(*ssa.BinOp); isBo {
									if k := key(bo); k != "" {
										if r, has := ps.decided[k]; has && r != U {
											return ssa.NewConst(constant.MakeBool(r == T), types.Typ[types.Bool])
										}
									}
									return v
								}
								for i := 0; i < 32; i++ {
									ph, ok := v.(*ssa.Phi)
									if !ok {
										break
									}
									e, ok := ps.phi[ph]
									if !ok {
										break
									}
									v = e
								}
								return v
							})
							return
						}
						found = true
						return
					}
					if barrier(in) {
						dead = true
						break
					}
				}
				if dead {
					return
				}
			}
			skip = 0
			iff, ok := b.Instrs[len(b.Instrs)-1].(*ssa.If)
			if !ok {
				if len(b.Succs) == 0 {
					return
				}
				pred, b = b, b.Succs[0]
				continue
			}
			switch eval(iff.Cond, ps, 0) {
			case T:
				pred, b = b, b.Succs[0]
			case F:
				pred, b = b, b.Succs[1]
			default:
				c := iff.Cond
				sense := true
				for {
					u, ok := c.(*ssa.UnOp)
					if !ok || u.Op != token.NOT {
						break
					}
					c, sense = u.X, !sense
				}
				// through a phi to the value it took on this path
				if ph, ok := c.(*ssa.Phi); ok {
					if e, ok := ps.phi[ph]; ok {
						c = e
					}
				}
				k := key(c)
				q := clone(ps)
				if k != "" {
					q.decided[k] = tri(sense)
					ps.decided[k] = tri(!sense)
				}
				walk(b.Succs[0], b, q)
				pred, b = b, b.Succs[1]
			}
		}
	}
	first := fn.Blocks[0]
	if start != nil {
		first = start.Block()
	}
	walk(first, nil, &pathState{decided: map[string]Tri{}, phi: map[*ssa.Phi]ssa.Value{}, visits: map[*ssa.BasicBlock]int{}})
	return found
}

// pathToExitAvoidingUnder: like pathToExitAvoiding, but a branch whose condition assume decides
// (through negation) follows only the decided edge.
func pathToExitAvoidingUnder(from ssa.Instruction, pass func(ssa.Instruction) bool, assume func(v ssa.Value) Tri) ssa.Instruction {
	var eval func(v ssa.Value) Tri
	eval = func(v ssa.Value) Tri {
		if u, ok := v.(*ssa.UnOp); ok && u.Op == token.NOT {
			return eval(u.X).not()
		}
		return assume(v)
	}
	type item struct {
		b   *ssa.BasicBlock
		idx int
	}
	seen := map[*ssa.BasicBlock]bool{}
	st := []item{{from.Block(), instrIndex(from) + 1}}
	for len(st) > 0 {
		it := st[len(st)-1]
		st = st[:len(st)-1]
		blocked := false
		for i := it.idx; i < len(it.b.Instrs); i++ {
			in := it.b.Instrs[i]
			if pass(in) {
				blocked = true
				break
			}
			if _, ok := in.(*ssa.Return); ok {
				return in
			}
			if _, ok := in.(*ssa.Panic); ok {
				blocked = true
				break
			}
		}
		if blocked {
			continue
		}
		succs := it.b.Succs
		if iff, ok := it.b.Instrs[len(it.b.Instrs)-1].(*ssa.If); ok {
			switch eval(iff.Cond) {
			case T:
				succs = succs[:1]
			case F:
				succs = succs[1:2]
			}
		}
		for _, s := range succs {
			if !seen[s] {
				seen[s] = true
				st = append(st, item{s, 0})
			}
		}
	}
	return nil
}

// effectiveBranch: the condition that decides where control goes after block b: the condition of
// its If, or, when b only jumps into the merge block of a named boolean (`c := A && B; if c {`:
// the right operand's block jumps to a block that starts with the phi of c and branches on it), the
// value b contributes to that phi.
func effectiveBranch(b *ssa.BasicBlock) ssa.Value {
	switch last := b.Instrs[len(b.Instrs)-1].(type) {
	case *ssa.If:
		return last.Cond
	case *ssa.Jump:
		j := b.Succs[0]
		iff, ok := j.Instrs[len(j.Instrs)-1].(*ssa.If)
		if !ok {
			return nil
		}
		v := iff.Cond
		for {
			if u, ok := v.(*ssa.UnOp); ok && u.Op == token.NOT {
				v = u.X
				continue
			}
			break
		}
		phi, ok := v.(*ssa.Phi)
		if !ok || phi.Block() != j {
			return nil
		}
		for i, p := range j.Preds {
			if p == b {
				return phi.Edges[i]
			}
		}
	}
	return nil
}

// pathCond: the condition of the branch ending block b as it reads on a path that entered b from
// pred: negations are stripped (neg reports an odd number of them) and a phi of b itself - a named
// boolean such as `c := A && B; if c {` - is replaced by the value it receives over the edge from
// pred (a constant when the short-circuit already decided it).
func pathCond(iff *ssa.If, pred *ssa.BasicBlock) (cond ssa.Value, neg bool) {
	b := iff.Block()
	cond = iff.Cond
	for {
		if u, ok := cond.(*ssa.UnOp); ok && u.Op == token.NOT {
			cond, neg = u.X, !neg
			continue
		}
		if phi, ok := cond.(*ssa.Phi); ok && phi.Block() == b && pred != nil {
			moved := false
			for i, p := range b.Preds {
				if p == pred {
					cond, moved = phi.Edges[i], true
					break
				}
			}
			if moved {
				continue
			}
		}
		return
	}
}

// constBool: the value of a boolean constant.
func constBool(v ssa.Value) (bool, bool) {
	if k, ok := v.(*ssa.Const); ok && k.Value != nil && k.Value.Kind() == constant.Bool {
		return constant.BoolVal(k.Value), true
	}
	return false, false
}

// leafAt is one way a merged value can have come about: the leaf value and the block at whose end
// it entered the merge (nil when the value is not a phi: it is simply itself).
type leafAt struct {
	v    ssa.Value
	from *ssa.BasicBlock
}

// phiLeafEdges: the non-phi values that flow into v through phis, each with the predecessor block
// over whose edge it first enters a phi (what holds at the end of that block held when the value
// was chosen).
func phiLeafEdges(v ssa.Value) []leafAt {
	seen := map[ssa.Value]bool{}
	var out []leafAt
	var rec func(v ssa.Value, from *ssa.BasicBlock)
	rec = func(v ssa.Value, from *ssa.BasicBlock) {
		if phi, ok := v.(*ssa.Phi); ok {
			if seen[v] {
				return
			}
			seen[v] = true
			for i, e := range phi.Edges {
				rec(e, phi.Block().Preds[i])
			}
			return
		}
		out = append(out, leafAt{v, from})
	}
	rec(v, nil)
	return out
}

// guardsAtEnd: the conditions known when control leaves block b towards succ (its dominating
// guards plus the polarity of its own branch).
func guardsAtEnd(b, succ *ssa.BasicBlock) []Guard {
	gs := guardsOf(b)
	if iff, ok := b.Instrs[len(b.Instrs)-1].(*ssa.If); ok && b.Succs[0] != b.Succs[1] {
		s := b.Succs[0] == succ
		gs = append(gs, Guard{Cond: iff.Cond, Sense: s, If: iff})
		gs = append(gs, impliedGuards(iff.Cond, s, iff, map[*ssa.Phi]bool{})...)
	}
	return gs
}

// knownPositive: do the guards of block b establish x > 0 for a value x accepted by is? Recognised
// in either orientation and polarity: x > 0 holds, x <= 0 fails, 0 < x holds, 0 >= x fails (and the
// same with a constant bound >= 0 on the strict side, >= 1 on the non-strict side).
func knownPositive(b *ssa.BasicBlock, is func(v ssa.Value) bool) bool {
	for _, g := range guardsOf(b) {
		v, sense := g.Cond, g.Sense
		for {
			if u, ok := v.(*ssa.UnOp); ok && u.Op == token.NOT {
				v, sense = u.X, !sense
				continue
			}
			break
		}
		bo, ok := v.(*ssa.BinOp)
		if !ok {
			continue
		}
		op, x, y := bo.Op, bo.X, bo.Y
		if _, isK := x.(*ssa.Const); isK {
			// k OP x  ==  x OP' k
			x, y = y, x
			switch op {
			case token.LSS:
				op = token.GTR
			case token.LEQ:
				op = token.GEQ
			case token.GTR:
				op = token.LSS
			case token.GEQ:
				op = token.LEQ
			}
		}
		k, isK := y.(*ssa.Const)
		if !isK || k.Value == nil || !is(x) {
			continue
		}
		kv, exact := constant.Int64Val(constant.ToInt(k.Value))
		if !exact {
			continue
		}
		if !sense {
			switch op {
			case token.LSS:
				op = token.GEQ
			case token.LEQ:
				op = token.GTR
			case token.GTR:
				op = token.LEQ
			case token.GEQ:
				op = token.LSS
			default:
				continue
			}
		}
		if (op == token.GTR && kv >= 0) || (op == token.GEQ && kv >= 1) {
			return true
		}
	}
	return false
}

// nilTest: v is `x == nil` or `x != nil`; returns x and whether v being true means x is nil.
func nilTest(v ssa.Value) (x ssa.Value, nilWhenTrue bool, ok bool) {
	bo, isB := v.(*ssa.BinOp)
	if !isB || (bo.Op != token.EQL && bo.Op != token.NEQ) {
		return nil, false, false
	}
	if k, isK := bo.Y.(*ssa.Const); isK && k.Value == nil {
		return bo.X, bo.Op == token.EQL, true
	}
	if k, isK := bo.X.(*ssa.Const); isK && k.Value == nil {
		return bo.Y, bo.Op == token.EQL, true
	}
	return nil, false, false
}

// guardedNil: block b is reached only when a value accepted by is was found nil (wantNil) or
// non-nil (!wantNil), whichever way the test was written (x == nil / x != nil, either branch).
func guardedNil(b *ssa.BasicBlock, is func(v ssa.Value) bool, wantNil bool) bool {
	for _, g := range guardsOf(b) {
		v, sense := g.Cond, g.Sense
		for {
			if u, ok := v.(*ssa.UnOp); ok && u.Op == token.NOT {
				v, sense = u.X, !sense
				continue
			}
			break
		}
		if x, nilWhenTrue, ok := nilTest(v); ok && is(x) && (nilWhenTrue == sense) == wantNil {
			return true
		}
	}
	return false
}

// sameValue: the two operands denote the same value: the same SSA value, or loads of one local /
// access paths that read the same thing (a variable captured by a closure lives in a cell and every
// use is a separate load of it).
func sameValue(x, y ssa.Value) bool {
	if x == y {
		return true
	}
	tx, ty := TermOf(x, nil), TermOf(y, nil)
	if tx.Kind == "opaque" || ty.Kind == "opaque" || tx.Kind == "phi" || ty.Kind == "phi" {
		return false
	}
	return tx.String() == ty.String()
}

// inlinePartOf: fn is host, or a function literal nested in host that is only ever called on the
// spot (or deferred) by the function it is written in - never started as a goroutine, stored or
// handed to someone else. Such a literal runs on host's goroutine as part of host.
func inlinePartOf(fn, host *ssa.Function) bool {
	for fn != nil && fn != host {
		par := fn.Parent()
		if par == nil {
			return false
		}
		used := false
		for _, b := range par.Blocks {
			for _, in := range b.Instrs {
				mc, ok := in.(*ssa.MakeClosure)
				if !ok || mc.Fn != ssa.Value(fn) {
					continue
				}
				used = true
				for _, r := range *mc.Referrers() {
					switch x := r.(type) {
					case *ssa.Call:
						if x.Call.Value != ssa.Value(mc) {
							return false
						}
					case *ssa.Defer:
						if x.Call.Value != ssa.Value(mc) {
							return false
						}
					case *ssa.DebugRef:
					default:
						return false
					}
				}
			}
		}
		if !used {
			// a literal without free variables is called as a plain function value
			for _, b := range par.Blocks {
				for _, in := range b.Instrs {
					if cc := callCommon(in); cc != nil && cc.Value == ssa.Value(fn) {
						if _, isGo := in.(*ssa.Go); isGo {
							return false
						}
						used = true
					}
				}
			}
			if !used {
				return false
			}
		}
		fn = par
	}
	return fn == host
}

// definitelyNonNil: v cannot be nil: the address of something, a freshly made value, a non-interface
// value boxed into an interface, or the result of a constructor that only ever returns such values
// (fmt.Errorf, errors.New, a module function all of whose returns qualify).
func definitelyNonNil(v ssa.Value, depth int) bool {
	if depth > 3 {
		return false
	}
	switch x := v.(type) {
	case *ssa.Alloc, *ssa.MakeMap, *ssa.MakeSlice, *ssa.MakeChan, *ssa.MakeClosure, *ssa.FieldAddr, *ssa.IndexAddr, *ssa.Function:
		return true
	case *ssa.MakeInterface:
		if _, isIface := x.X.Type().Underlying().(*types.Interface); !isIface {
			if _, isPtr := x.X.Type().Underlying().(*types.Pointer); isPtr {
				return definitelyNonNil(x.X, depth+1)
			}
			return true
		}
		return definitelyNonNil(x.X, depth+1)
	case *ssa.ChangeInterface:
		return definitelyNonNil(x.X, depth+1)
	case *ssa.Extract:
		if c, ok := x.Tuple.(*ssa.Call); ok {
			return callResultNonNil(c, x.Index, depth)
		}
	case *ssa.Call:
		return callResultNonNil(x, 0, depth)
	}
	return false
}

func callResultNonNil(c *ssa.Call, idx int, depth int) bool {
	switch calleeFull(&c.Call) {
	case "fmt.Errorf", "errors.New":
		return true
	}
	cal := c.Call.StaticCallee()
	if cal == nil || cal.Blocks == nil {
		return false
	}
	n := 0
	for _, b := range cal.Blocks {
		ret, ok := b.Instrs[len(b.Instrs)-1].(*ssa.Return)
		if !ok || idx >= len(ret.Results) {
			continue
		}
		n++
		for _, l := range phiLeaves(ret.Results[idx]) {
			if !definitelyNonNil(l, depth+1) {
				return false
			}
		}
	}
	return n > 0
}

// calledOnlyFrom: every call of fn in the module is a plain (synchronous) call made by host or by a
// literal that is an inline part of host: fn runs on host's goroutine as a stage of host (the locked
// receive of a processing loop extracted into a method).
func (a *A) calledOnlyFrom(fn, host *ssa.Function) bool {
	if fn == nil || fn == host {
		return fn == host
	}
	node := a.CG().Nodes[fn]
	if node == nil || len(node.In) == 0 {
		return false
	}
	for _, e := range node.In {
		if e.Caller == nil || e.Caller.Func == nil {
			return false
		}
		if _, isCall := e.Site.(*ssa.Call); !isCall {
			return false // go / defer
		}
		if !inlinePartOf(e.Caller.Func, host) {
			return false
		}
	}
	// and it is not used as a value anywhere (handed to another goroutine)
	for _, g := range a.ModFuncs {
		bad := false
		allInstrs(g, func(in ssa.Instruction) {
			for _, op := range in.Operands(nil) {
				if *op == ssa.Value(fn) {
					if cc := callCommon(in); cc == nil || cc.Value != ssa.Value(fn) {
						bad = true
					}
				}
				if mc, ok := (*op).(*ssa.MakeClosure); ok && mc.Fn == ssa.Value(fn) {
					_ = mc
				}
			}
		})
		if bad {
			return false
		}
	}
	return true
}

// allInstrsOf: the instructions of fn as a slice (nil-safe).
func allInstrsOf(fn *ssa.Function) []ssa.Instruction {
	var out []ssa.Instruction
	if fn == nil {
		return nil
	}
	for _, b := range fn.Blocks {
		out = append(out, b.Instrs...)
	}
	return out
}

// isConstInt: v is the integer constant k.
func isConstInt(v ssa.Value, k int64) bool {
	c, ok := v.(*ssa.Const)
	return ok && c.Value != nil && c.Value.Kind() == constant.Int && c.Int64() == k
}

// timeOrder: c is a.Before(b) or a.After(b) on time.Time values; returns the operands as (earlier, later) when the
// call yields true - the same comparison whichever side it is read from (b.After(a) for a.Before(b)).
func timeOrder(c *ssa.Call) (earlier, later ssa.Value, ok bool) {
	if len(c.Call.Args) != 2 {
		return nil, nil, false
	}
	switch timeMethod(&c.Call) {
	case "Before":
		return c.Call.Args[0], c.Call.Args[1], true
	case "After":
		return c.Call.Args[1], c.Call.Args[0], true
	}
	return nil, nil, false
}

// valueSources: phiLeaves, and through a local slice that is filled and then walked (`texts = append(texts, c.BareCall)
// ... for _, t := range texts`): an element read from such a slice stands for every value appended to it.
func valueSources(v ssa.Value) []ssa.Value {
	var out []ssa.Value
	seen := map[ssa.Value]bool{}
	var rec func(v ssa.Value, d int)
	var elems func(sl ssa.Value, d int) bool
	elems = func(sl ssa.Value, d int) bool {
		ok := true
		for _, l := range phiLeaves(sl) {
			if seen[l] {
				continue
			}
			seen[l] = true
			switch x := l.(type) {
			case *ssa.Const:
				if x.Value != nil {
					ok = false
				}
			case *ssa.MakeSlice:
			case *ssa.Call:
				cc, isAp := isBuiltinCall(x, "append")
				if !isAp {
					return false
				}
				els := appendedElems(cc)
				if els == nil && len(cc.Args) > 1 {
					return false
				}
				for _, e := range els {
					rec(e, d+1)
				}
				if !elems(cc.Args[0], d+1) {
					ok = false
				}
			case *ssa.Slice:
				if al, isAl := x.X.(*ssa.Alloc); isAl && al.Comment == "slicelit" {
					for _, r := range *al.Referrers() {
						if ia, isIA := r.(*ssa.IndexAddr); isIA {
							for _, rr := range *ia.Referrers() {
								if st, isSt := rr.(*ssa.Store); isSt && st.Addr == ssa.Value(ia) {
									rec(st.Val, d+1)
								}
							}
						}
					}
				} else {
					ok = false
				}
			default:
				ok = false
			}
		}
		return ok
	}
	rec = func(v ssa.Value, d int) {
		if d > 8 {
			out = append(out, v)
			return
		}
		for _, l := range phiLeaves(v) {
			if ld, ok := l.(*ssa.UnOp); ok && ld.Op == token.MUL {
				if ia, ok := ld.X.(*ssa.IndexAddr); ok {
					if _, isSlice := ia.X.Type().Underlying().(*types.Slice); isSlice {
						n := len(out)
						if elems(ia.X, d) && len(out) > n {
							continue
						}
						out = out[:n]
					}
				}
			}
			out = append(out, l)
		}
	}
	rec(v, 0)
	return out
}

// isPredicateEvalCall: an invocation of a predicate object's evaluation method: Evaluate(env) bool, or a variant
// that also reports why a row was rejected (EvaluateWithError(env) (bool, error)) - any interface method named
// Evaluate… whose first result is the boolean verdict.
func isPredicateEvalCall(c *ssa.CallCommon) bool {
	if c == nil || !c.IsInvoke() || !strings.HasPrefix(c.Method.Name(), "Evaluate") {
		return false
	}
	res := c.Signature().Results()
	return res.Len() >= 1 && isBool(res.At(0).Type())
}

// predicateVerdict: v is the boolean verdict of a predicate evaluation: the call itself, or result 0 of the variant
// that also returns an error.
func predicateVerdict(v ssa.Value) bool {
	switch x := v.(type) {
	case *ssa.Call:
		return isPredicateEvalCall(&x.Call) && isBool(x.Type())
	case *ssa.Extract:
		if c, ok := x.Tuple.(*ssa.Call); ok && x.Index == 0 {
			return isPredicateEvalCall(&c.Call)
		}
	}
	return false
}

// elementwiseCopy: dst is filled by a counting loop `for i := 0; i < N; i++ { dst[i] = src[i] … }` (or the range
// form over an index) whose body runs the store on every iteration and which is left only by its test. Returns
// the source slice and the bound N. The store covers exactly the indexes 0 … N-1, as copy(dst[:N], src[:N]) does.
func elementwiseCopy(dst ssa.Value) (src, bound ssa.Value, ok bool) {
	refs := dst.Referrers()
	if refs == nil {
		return nil, nil, false
	}
	for _, r := range *refs {
		ia, isIA := r.(*ssa.IndexAddr)
		if !isIA || ia.X != dst {
			continue
		}
		for _, rr := range *ia.Referrers() {
			st, isSt := rr.(*ssa.Store)
			if !isSt || st.Addr != ssa.Value(ia) {
				continue
			}
			ld, isLd := st.Val.(*ssa.UnOp)
			if !isLd || ld.Op != token.MUL {
				continue
			}
			sa, isSA := ld.X.(*ssa.IndexAddr)
			if !isSA || sa.Index != ia.Index {
				continue
			}
			idx := ia.Index
			// the counter: phi [0, phi+1] used as the index, or (range form) phi [-1, phi+1] with phi+1 as the index
			var phi *ssa.Phi
			start := int64(0)
			if p, isPhi := idx.(*ssa.Phi); isPhi {
				phi = p
			} else if inc, isInc := idx.(*ssa.BinOp); isInc && inc.Op == token.ADD && isConstInt(inc.Y, 1) {
				if p, isPhi := inc.X.(*ssa.Phi); isPhi {
					phi, start = p, -1
				}
			}
			if phi == nil || len(phi.Edges) != 2 {
				continue
			}
			H := phi.Block()
			var latch *ssa.BasicBlock
			okPhi := true
			for i, e := range phi.Edges {
				pred := H.Preds[i]
				if H.Dominates(pred) {
					inc, isInc := e.(*ssa.BinOp)
					if !isInc || inc.Op != token.ADD || inc.X != ssa.Value(phi) || !isConstInt(inc.Y, 1) {
						okPhi = false
					}
					latch = pred
				} else if !isConstInt(e, start) {
					okPhi = false
				}
			}
			if !okPhi || latch == nil {
				continue
			}
			iff, isIf := H.Instrs[len(H.Instrs)-1].(*ssa.If)
			if !isIf {
				continue
			}
			cmp, isCmp := iff.Cond.(*ssa.BinOp)
			if !isCmp || cmp.Op != token.LSS || cmp.X != idx {
				continue
			}
			body := H.Succs[0]
			// the natural loop of the back edge latch -> H
			loop := map[*ssa.BasicBlock]bool{H: true}
			stack := []*ssa.BasicBlock{latch}
			for len(stack) > 0 {
				b := stack[len(stack)-1]
				stack = stack[:len(stack)-1]
				if loop[b] {
					continue
				}
				loop[b] = true
				stack = append(stack, b.Preds...)
			}
			left := false
			for b := range loop {
				if b == H {
					continue
				}
				if !(body == b || body.Dominates(b)) {
					left = true
				}
				for _, s := range b.Succs {
					if !loop[s] {
						left = true // a break, return or panic edge out of the body
					}
				}
				if _, isRet := b.Instrs[len(b.Instrs)-1].(*ssa.Return); isRet {
					left = true
				}
			}
			if left || !loop[st.Block()] || !(st.Block() == latch || st.Block().Dominates(latch)) {
				continue
			}
			return sa.X, cmp.Y, true
		}
	}
	return nil, nil, false
}
