package main

// ordtab.go — E1: order-predicate truth tables.
//
// Values that are touched only through comparisons have finitely many relevant
// orderings. For a decision site (a boolean function, or "is this instruction
// reached in this loop body") the engine enumerates every weak ordering of the
// named roles that satisfies the stated invariant, evaluates the branch
// conditions of the SSA control-flow graph abstractly under that ordering
// (comparison atoms only: < <= > >= == !=, time.Before/After/Equal/IsZero, !, and
// same-module boolean helpers, which are inlined), and compares the decision with
// the relation the property prescribes. No streamsql code is executed; the CFG is
// read as a decision diagram. Any atom that is not a comparison of roles and is
// not covered by a stated assumption makes the obligation undecided.

import (
	"fmt"
	"go/constant"
	"go/token"
	"go/types"
	"sort"
	"strings"

	"golang.org/x/tools/go/ssa"
)

type Tri int

const (
	U Tri = iota
	T
	F
)

func (t Tri) String() string { return [...]string{"?", "true", "false"}[t] }
func tri(b bool) Tri {
	if b {
		return T
	}
	return F
}
func (t Tri) not() Tri {
	switch t {
	case T:
		return F
	case F:
		return T
	}
	return U
}

type Env struct {
	Role   func(t *Term) string // role name of a term, "" if none
	Rank   map[string]int       // role -> rank in the weak ordering under evaluation
	Flags  map[string]bool      // extra boolean atoms, e.g. "zero:wm"
	Assume func(t *Term, v ssa.Value) Tri
	Norm   func(t *Term) *Term // optional term normalisation before role lookup
	CurW   *Walker             // the walker currently evaluating (set while conditions are evaluated; inlined helpers have their own)
	a      *A
	depth  int
}

func (e *Env) role(t *Term) (string, bool) {
	if e.Role == nil {
		return "", false
	}
	r := e.Role(t)
	if r == "" {
		return "", false
	}
	if _, ok := e.Rank[r]; !ok {
		return "", false
	}
	return r, true
}

type Outcome struct {
	Hit   bool
	Tag   string
	RetI  *int64 // integer constant returned (RetIdx result), if it is one
	Ret   Tri
	Rets  []Tri  // every boolean result of the return (U for the others)
	Ended string // return, stop, loop, panic
	Err   bool   // the return hands out an error that is not nil on this path (error return, not a verdict)
	RecvParams []int // parameters a receive from which fired in a select on this path (a nil argument rules the path out)
	Why   string // first unknown condition met on the path (diagnostics)
}

type Walker struct {
	env      *Env
	fr       *frame
	cur      *pstate
	lastPred *ssa.BasicBlock // predecessor through which the current block was entered
	parent   *Walker         // the walker that inlined this helper (nil at top level)
	parentPs *pstate         // its path state at the call
	argVals  []ssa.Value     // the call's argument values in the parent's function
	Target   func(in ssa.Instruction, w *Walker) bool
	AllRets  bool                            // evaluate every boolean result at a return (Outcome.Rets)
	CallFork func(c *ssa.Call) []CallSummary // ways a summarised helper called here can end (nil: not summarised)
	Stop     func(b *ssa.BasicBlock) bool
	RetIdx   int
	Visits   int
	out      []Outcome
	paths    int
	over     bool
	why      string
}

type pstate struct {
	vals      map[ssa.Value]Tri
	ints      map[ssa.Value]int64
	visited   map[*ssa.BasicBlock]int
	hit       bool
	tag       string
	epoch     map[*types.Var]int       // stores to a field passed so far on this path
	loadEpoch map[ssa.Value]int        // epoch at which a field load executed
	decided   map[string]Tri           // unknown conditions already decided on this path, by access path
	phiVal    map[*ssa.Phi]ssa.Value   // the incoming value each phi took on this path
	locals    map[*ssa.Alloc]ssa.Value // the last value stored into a local on this path (defer-spilled results, reassigned locals)
	recvParam map[int]bool             // parameters (by index) a receive from which fired in a select on this path
	tm        *termer
}

func newPstate(fr *frame) *pstate {
	ps := &pstate{vals: map[ssa.Value]Tri{}, ints: map[ssa.Value]int64{}, visited: map[*ssa.BasicBlock]int{},
		epoch: map[*types.Var]int{}, loadEpoch: map[ssa.Value]int{}, decided: map[string]Tri{}, phiVal: map[*ssa.Phi]ssa.Value{}, locals: map[*ssa.Alloc]ssa.Value{}, recvParam: map[int]bool{}}
	ps.tm = newTermer(fr)
	ps.tm.localOf = func(al *ssa.Alloc) ssa.Value { return ps.locals[al] }
	ps.tm.tagOf = func(v ssa.Value) int { return ps.loadEpoch[v] }
	ps.tm.phiOf = func(p *ssa.Phi) ssa.Value { return ps.phiVal[p] }
	return ps
}

func (p *pstate) clone(fr *frame) *pstate {
	q := newPstate(fr)
	q.hit, q.tag = p.hit, p.tag
	for k, v := range p.recvParam {
		q.recvParam[k] = v
	}
	for k, v := range p.vals {
		q.vals[k] = v
	}
	for k, v := range p.visited {
		q.visited[k] = v
	}
	for k, v := range p.ints {
		q.ints[k] = v
	}
	for k, v := range p.epoch {
		q.epoch[k] = v
	}
	for k, v := range p.loadEpoch {
		q.loadEpoch[k] = v
	}
	for k, v := range p.decided {
		q.decided[k] = v
	}
	for k, v := range p.phiVal {
		q.phiVal[k] = v
	}
	for k, v := range p.locals {
		q.locals[k] = v
	}
	return q
}

func NewWalker(env *Env, fr *frame) *Walker {
	return &Walker{env: env, fr: fr}
}

// Term gives the access path of v at the current point of the walk (field loads carry the
// number of stores to that field already passed on this path).
func (w *Walker) Term(v ssa.Value) *Term { return w.cur.tm.of(v) }

// Epoch is the number of stores to field f passed so far on the current path.
func (w *Walker) Epoch(f *types.Var) int { return w.cur.epoch[f] }

// Tag marks the current path (reported in the Outcome).
func (w *Walker) Tag(s string) { w.cur.tag = s }

// Run walks from block start (entered from pred, which may be nil).
func (w *Walker) Run(start, pred *ssa.BasicBlock) []Outcome {
	w.out = nil
	w.walk(start, pred, newPstate(w.fr))
	if w.over {
		return append(w.out, Outcome{Ended: "overflow", Why: "path budget exceeded"})
	}
	return w.out
}

func (w *Walker) walk(b, pred *ssa.BasicBlock, ps *pstate) { w.walkAt(b, pred, ps, 0) }

// CallSummary is one way a summarised helper can end: the tag it adds to the path and the values of
// its boolean results (U where not known).
type CallSummary struct {
	Tag  string
	Rets []Tri
	RetI *int64 // the integer constant a single-result helper returns on this way out (an outcome code), if known
	RecvParams []int // this way out took `case <-param` for these parameters: impossible where the argument is nil
}

// walkAt continues the walk of block b at instruction index from (0: enter the block normally).
func (w *Walker) walkAt(b, pred *ssa.BasicBlock, ps *pstate, from int) {
	for {
		w.cur = ps
		if w.over {
			return
		}
		start := from
		from = 0
		if start > 0 {
			goto instrs
		}
		if w.Stop != nil && w.Stop(b) {
			w.out = append(w.out, Outcome{Hit: ps.hit, Tag: ps.tag, Ended: "stop", Why: w.why})
			return
		}
		if ps.visited[b] >= w.maxVisits() {
			w.out = append(w.out, Outcome{Hit: ps.hit, Tag: ps.tag, Ended: "loop", Why: w.why})
			return
		}
		ps.visited[b]++
		w.lastPred = pred
		// phis first, all evaluated against the incoming edge
		if pred != nil {
			idx := -1
			for i, p := range b.Preds {
				if p == pred {
					idx = i
				}
			}
			newv := map[ssa.Value]Tri{}
			for _, in := range b.Instrs {
				phi, ok := in.(*ssa.Phi)
				if !ok {
					break
				}
				if idx >= 0 {
					ev := phi.Edges[idx]
					if pe, ok := ev.(*ssa.Phi); ok {
						if pv, ok := ps.phiVal[pe]; ok {
							ev = pv
						}
					}
					if ps.phiVal[phi] != ev {
						ps.phiVal[phi] = ev
						ps.tm.memo = map[ssa.Value]*Term{}
					}
				}
				if idx >= 0 && isBool(phi.Type()) {
					newv[phi] = w.evalBool(phi.Edges[idx], ps)
				}
				if idx >= 0 && isIntType(phi.Type()) {
					if c, ok := phi.Edges[idx].(*ssa.Const); ok && c.Value != nil {
						ps.ints[phi] = c.Int64()
					} else if iv, ok := ps.ints[phi.Edges[idx]]; ok {
						ps.ints[phi] = iv
					} else {
						delete(ps.ints, phi)
					}
				}
			}
			for k, v := range newv {
				ps.vals[k] = v
			}
		}
	instrs:
		for i := start; i < len(b.Instrs); i++ {
			in := b.Instrs[i]
			switch x := in.(type) {
			case *ssa.Call:
				// a summarised helper: one continuation per way it can end
				if w.CallFork != nil {
					if sums := w.CallFork(x); len(sums) > 0 {
						// a way out that took `case <-param` cannot happen where the argument is nil on this path
						var feasible []CallSummary
						for _, cs := range sums {
							okWay := true
							for _, k := range cs.RecvParams {
								args := x.Call.Args
								if k < len(args) {
									if t := ps.tm.of(args[k]); t.Kind == "const" {
										if kc, isK := t.Val.(*ssa.Const); isK && kc.Value == nil {
											okWay = false
										}
									}
								}
							}
							if okWay {
								feasible = append(feasible, cs)
							}
						}
						if len(feasible) > 0 {
							sums = feasible
						}
						bind := func(q *pstate, cs CallSummary) {
							q.tag += cs.Tag
							if len(cs.Rets) == 1 {
								q.vals[x] = cs.Rets[0]
							}
							if cs.RetI != nil {
								q.ints[x] = *cs.RetI
							}
							for _, r := range *x.Referrers() {
								if ex, ok := r.(*ssa.Extract); ok && ex.Index < len(cs.Rets) {
									q.vals[ex] = cs.Rets[ex.Index]
								}
							}
						}
						for _, cs := range sums[1:] {
							w.paths++
							if w.paths > 20000 {
								w.over = true
								return
							}
							q := ps.clone(w.fr)
							bind(q, cs)
							w.walkAt(b, pred, q, i+1)
							w.cur = ps
							w.lastPred = pred
						}
						bind(ps, sums[0])
					}
				}
			case *ssa.UnOp:
				if x.Op == token.MUL {
					if fa, ok := x.X.(*ssa.FieldAddr); ok {
						if st := derefStruct(fa.X.Type()); st != nil {
							ps.loadEpoch[x] = ps.epoch[st.Field(fa.Field)]
						}
					}
				}
			case *ssa.Store:
				if al, ok := x.Addr.(*ssa.Alloc); ok {
					if ps.locals[al] != x.Val {
						ps.locals[al] = x.Val
						ps.tm.memo = map[ssa.Value]*Term{}
					}
				}
				if fa, ok := x.Addr.(*ssa.FieldAddr); ok {
					if st := derefStruct(fa.X.Type()); st != nil {
						ps.epoch[st.Field(fa.Field)]++
						ps.tm.memo = map[ssa.Value]*Term{}
					}
				}
			}
			if w.Target != nil && w.Target(in, w) {
				ps.hit = true
			}
		}
		last := b.Instrs[len(b.Instrs)-1]
		switch t := last.(type) {
		case *ssa.Return:
			o := Outcome{Hit: ps.hit, Tag: ps.tag, Ended: "return", Why: w.why, Err: returnsNonNilError(t)}
			for k := range ps.recvParam {
				o.RecvParams = append(o.RecvParams, k)
			}
			sort.Ints(o.RecvParams)
			if w.RetIdx >= 0 && w.RetIdx < len(t.Results) && isBool(t.Results[w.RetIdx].Type()) {
				o.Ret = w.evalBool(t.Results[w.RetIdx], ps)
			}
			if w.AllRets {
				for _, r := range t.Results {
					if isBool(r.Type()) {
						o.Rets = append(o.Rets, w.evalBool(r, ps))
					} else {
						o.Rets = append(o.Rets, U)
					}
				}
			}
			if w.RetIdx >= 0 && w.RetIdx < len(t.Results) && isIntType(t.Results[w.RetIdx].Type()) {
				if c, ok := t.Results[w.RetIdx].(*ssa.Const); ok && c.Value != nil {
					iv := c.Int64()
					o.RetI = &iv
				} else if iv, ok := ps.ints[t.Results[w.RetIdx]]; ok {
					o.RetI = &iv
				} else if iv, ok := w.evalInt(t.Results[w.RetIdx], ps); ok {
					o.RetI = &iv
				} else if c, ok := t.Results[w.RetIdx].(*ssa.Call); ok {
					// the result of a same-module integer helper (threeWay(a < b, a > b)): evaluated
					// with its parameters bound to the arguments in this path's context
					if iv, ok := w.evalInt(c, ps); ok {
						o.RetI = &iv
					}
				}
			}
			w.out = append(w.out, o)
			return
		case *ssa.Panic:
			w.out = append(w.out, Outcome{Hit: ps.hit, Tag: ps.tag, Ended: "panic", Why: w.why})
			return
		case *ssa.Jump:
			pred, b = b, b.Succs[0]
		case *ssa.If:
			c := w.evalBool(t.Cond, ps)
			switch c {
			case T:
				pred, b = b, b.Succs[0]
			case F:
				pred, b = b, b.Succs[1]
			default:
				// the same pure condition met again on this path takes the branch chosen before
				ct := w.cur.tm.of(t.Cond)
				key := ""
				if pureTerm(ct) {
					key = ct.String()
					if d, ok := ps.decided[key]; ok {
						if d == T {
							pred, b = b, b.Succs[0]
						} else {
							pred, b = b, b.Succs[1]
						}
						continue
					}
				}
				if w.why == "" {
					w.why = fmt.Sprintf("unknown condition %s in %s", w.cur.tm.of(t.Cond), fname(b.Parent()))
				}
				w.paths++
				if w.paths > 20000 {
					w.over = true
					return
				}
				c1 := ps.clone(w.fr)
				if key != "" {
					c1.decided[key] = T
					ps.decided[key] = F
				}
				noteSelectRecv(t.Cond, c1, ps)
				w.walk(b.Succs[0], b, c1)
				w.cur = ps
				pred, b = b, b.Succs[1]
			}
		default:
			w.out = append(w.out, Outcome{Hit: ps.hit, Tag: ps.tag, Ended: "end", Why: w.why})
			return
		}
	}
}

// noteSelectRecv: cond is `select-index == i` (or != i) for a receive case whose channel is a parameter of the
// function: the state that takes the case records the parameter.
func noteSelectRecv(cond ssa.Value, onTrue, onFalse *pstate) {
	bo, ok := cond.(*ssa.BinOp)
	if !ok || (bo.Op != token.EQL && bo.Op != token.NEQ) {
		return
	}
	ex, ok := bo.X.(*ssa.Extract)
	if !ok || ex.Index != 0 {
		return
	}
	sel, ok := ex.Tuple.(*ssa.Select)
	if !ok {
		return
	}
	k, ok := bo.Y.(*ssa.Const)
	if !ok || k.Value == nil || k.Value.Kind() != constant.Int {
		return
	}
	i := int(k.Int64())
	if i < 0 || i >= len(sel.States) || sel.States[i].Dir != types.RecvOnly {
		return
	}
	prm, ok := sel.States[i].Chan.(*ssa.Parameter)
	if !ok {
		return
	}
	for idx, q := range prm.Parent().Params {
		if q == prm {
			if bo.Op == token.EQL {
				onTrue.recvParam[idx] = true
			} else {
				onFalse.recvParam[idx] = true
			}
		}
	}
}

func isBool(t types.Type) bool {
	b, ok := t.Underlying().(*types.Basic)
	return ok && b.Info()&types.IsBoolean != 0
}

func (w *Walker) cmpRanks(op token.Token, x, y ssa.Value) Tri {
	tx, ty := w.cur.tm.of(x), w.cur.tm.of(y)
	// a.Sub(b) OP d  ==  a OP b.Add(d)
	if tx.Kind == "call" && tx.Name == "(time.Time).Sub" && len(tx.Args) == 2 {
		tx, ty = tx.Args[0], &Term{Kind: "call", Name: "(time.Time).Add", Args: []*Term{tx.Args[1], ty}}
	}
	if w.env.Norm != nil {
		tx, ty = w.env.Norm(tx), w.env.Norm(ty)
	}
	// integer offsets: a+ka OP b+kb with kb-ka in {-1,0,1}
	if isIntType(x.Type()) {
		bx, kx := splitOffset(tx)
		by, ky := splitOffset(ty)
		_, xIsRole := w.env.role(tx)
		_, yIsRole := w.env.role(ty)
		if (kx != 0 || ky != 0) && !(xIsRole && yIsRole) && ky-kx >= -1 && ky-kx <= 1 {
			d := ky - kx
			tx, ty = bx, by
			switch {
			case d == 0:
			case d == 1 && op == token.LSS: // a < b+1  ==  a <= b
				op = token.LEQ
			case d == 1 && op == token.GEQ: // a >= b+1 ==  a > b
				op = token.GTR
			case d == -1 && op == token.LEQ: // a <= b-1 == a < b
				op = token.LSS
			case d == -1 && op == token.GTR: // a > b-1 ==  a >= b
				op = token.GEQ
			default:
				return U
			}
		}
	}
	// math.Abs(x) OP M, for a specification with a symmetric pair of bounds M and m = -M:
	// |x| >= M  ==  x >= M || x <= m, |x| < M  ==  x < M && x > m (and the same with the non-strict forms)
	if tx.Kind == "call" && tx.Name == "math.Abs" && len(tx.Args) == 1 {
		if ry, oky := w.env.role(ty); oky && ry == "M" {
			if rx, okx := w.env.role(tx.Args[0]); okx {
				if _, hasLow := w.env.Rank["m"]; hasLow && !w.env.Flags["nan:"+rx] {
					a, hi, lo := w.env.Rank[rx], w.env.Rank["M"], w.env.Rank["m"]
					switch op {
					case token.GEQ:
						return tri(a >= hi || a <= lo)
					case token.GTR:
						return tri(a > hi || a < lo)
					case token.LSS:
						return tri(a < hi && a > lo)
					case token.LEQ:
						return tri(a <= hi && a >= lo)
					}
				}
			}
		}
	}
	rx, okx := w.env.role(tx)
	ry, oky := w.env.role(ty)
	if !okx || !oky {
		return U
	}
	if w.env.Flags["nan:"+rx] || w.env.Flags["nan:"+ry] {
		return tri(op == token.NEQ) // IEEE: every ordered comparison with NaN is false
	}
	a, b := w.env.Rank[rx], w.env.Rank[ry]
	switch op {
	case token.LSS:
		return tri(a < b)
	case token.LEQ:
		return tri(a <= b)
	case token.GTR:
		return tri(a > b)
	case token.GEQ:
		return tri(a >= b)
	case token.EQL:
		return tri(a == b)
	case token.NEQ:
		return tri(a != b)
	}
	return U
}

func (w *Walker) evalBool(v ssa.Value, ps *pstate) Tri {
	w.env.CurW = w
	if w.cur == nil {
		w.cur = ps
	}
	if tv, ok := ps.vals[v]; ok {
		return tv
	}
	if isNewFlag(v) {
		return F // an option added later, at its default
	}
	switch x := v.(type) {
	case *ssa.Parameter:
		// a boolean parameter of an inlined helper: the argument, evaluated in the caller's context
		if w.parent != nil {
			for i, p := range x.Parent().Params {
				if p == x && i < len(w.argVals) {
					saved := w.parent.cur
					w.parent.cur = w.parentPs
					r := w.parent.evalBool(w.argVals[i], w.parentPs)
					w.parent.cur = saved
					w.env.CurW = w
					if r != U {
						return r
					}
				}
			}
		}
	case *ssa.Const:
		if x.Value != nil && x.Value.Kind() == constant.Bool {
			return tri(constant.BoolVal(x.Value))
		}
		return U
	case *ssa.UnOp:
		if x.Op == token.NOT {
			return w.evalBool(x.X, ps).not()
		}
		if x.Op == token.MUL {
			// load of a local bool: the value last stored on this path (or its only store)
			if al, ok := x.X.(*ssa.Alloc); ok {
				if lv, ok := ps.locals[al]; ok {
					return w.evalBool(lv, ps)
				}
				if sv := singleStore(al); sv != nil {
					return w.evalBool(sv, ps)
				}
			}
		}
	case *ssa.BinOp:
		switch x.Op {
		case token.LSS, token.LEQ, token.GTR, token.GEQ, token.EQL, token.NEQ:
			// `case <-ch:` of a select whose channel is nil on this path never fires (a nil channel
			// blocks for ever): `var expired <-chan time.Time; if timeout > 0 { expired = timer.C }`
			if ex, ok := x.X.(*ssa.Extract); ok && ex.Index == 0 && (x.Op == token.EQL || x.Op == token.NEQ) {
				if sel, ok := ex.Tuple.(*ssa.Select); ok {
					if k, ok := x.Y.(*ssa.Const); ok && k.Value != nil && k.Value.Kind() == constant.Int {
						if i := int(k.Int64()); i >= 0 && i < len(sel.States) {
							if t := w.cur.tm.of(sel.States[i].Chan); t.Kind == "const" && t.Const == nil {
								if kc, isK := t.Val.(*ssa.Const); isK && kc.Value == nil {
									return tri(x.Op == token.NEQ)
								}
							}
						}
					}
				}
			}
			// a nil test of a value the path has made definite (`row, ok, err := r0, r1, r2` after an
			// inlined helper ended with `r2 = nil`; an error that was just constructed)
			if opnd, nilWhenTrue, isNT := nilTest(x); isNT {
				rv := opnd
				for i := 0; i < 16; i++ {
					ph, isPhi := rv.(*ssa.Phi)
					if !isPhi || w.cur.tm.phiOf == nil {
						break
					}
					e := w.cur.tm.phiOf(ph)
					if e == nil {
						break
					}
					rv = e
				}
				if kc, isK := rv.(*ssa.Const); isK && kc.Value == nil {
					return tri(nilWhenTrue)
				}
				if _, isPhi := rv.(*ssa.Phi); !isPhi && definitelyNonNil(rv, 0) {
					return tri(!nilWhenTrue)
				}
			}
			if isIntType(x.X.Type()) {
				if a, ok := w.evalInt(x.X, ps); ok {
					if b, ok := w.evalInt(x.Y, ps); ok {
						switch x.Op {
						case token.LSS:
							return tri(a < b)
						case token.LEQ:
							return tri(a <= b)
						case token.GTR:
							return tri(a > b)
						case token.GEQ:
							return tri(a >= b)
						case token.EQL:
							return tri(a == b)
						case token.NEQ:
							return tri(a != b)
						}
					}
				}
			}
			if r := w.cmpRanks(x.Op, x.X, x.Y); r != U {
				return r
			}
			if isBool(x.X.Type()) && (x.Op == token.EQL || x.Op == token.NEQ) {
				l, r := w.evalBool(x.X, ps), w.evalBool(x.Y, ps)
				if l != U && r != U {
					if x.Op == token.EQL {
						return tri(l == r)
					}
					return tri(l != r)
				}
			}
		}
	case *ssa.Call:
		if r := w.evalCall(x, ps); r != U {
			return r
		}
	case *ssa.Extract:
		// one boolean result of a same-module helper returning a tuple ((batch, fired), (row, matched)):
		// the helper is walked under the same ordering with its parameters bound to the arguments
		if c, ok := x.Tuple.(*ssa.Call); ok {
			if r := w.evalCallResult(c, x.Index, ps); r != U {
				return r
			}
		}
	case *ssa.Phi:
		// phi not evaluated on entry (reached without pred info)
		return U
	}
	if w.env.Assume != nil {
		return w.env.Assume(w.cur.tm.of(v), v)
	}
	return U
}

func timeMethod(c *ssa.CallCommon) string {
	callee := c.StaticCallee()
	if callee == nil || callee.Signature.Recv() == nil {
		return ""
	}
	if !isTimeTime(callee.Signature.Recv().Type()) {
		return ""
	}
	return callee.Name()
}

// evalCallResult: boolean result #idx of a call to a same-module helper, when every path of the helper
// feasible under the current ordering returns the same value for it.
func (w *Walker) evalCallResult(c *ssa.Call, idx int, ps *pstate) Tri {
	callee := c.Call.StaticCallee()
	if callee == nil || callee.Blocks == nil || !w.env.a.fnInModule(callee) || w.env.depth >= 3 {
		return U
	}
	res := callee.Signature.Results()
	if idx >= res.Len() || !isBool(res.At(idx).Type()) {
		return U
	}
	fr := &frame{fn: callee}
	for _, arg := range c.Call.Args {
		fr.args = append(fr.args, w.cur.tm.of(arg))
	}
	sub := NewWalker(w.env, fr)
	sub.RetIdx = idx
	sub.parent, sub.parentPs, sub.argVals = w, ps, c.Call.Args
	w.env.depth++
	outs := sub.Run(callee.Blocks[0], nil)
	w.env.depth--
	w.env.CurW = w
	w.cur = ps
	r := U
	for _, o := range outs {
		if o.Ended != "return" || o.Ret == U {
			return U
		}
		if r == U {
			r = o.Ret
		} else if r != o.Ret {
			return U
		}
	}
	return r
}

func (w *Walker) evalCall(c *ssa.Call, ps *pstate) Tri {
	if m := timeMethod(&c.Call); m != "" {
		switch m {
		case "Before":
			return w.cmpRanks(token.LSS, c.Call.Args[0], c.Call.Args[1])
		case "After":
			return w.cmpRanks(token.GTR, c.Call.Args[0], c.Call.Args[1])
		case "Equal":
			return w.cmpRanks(token.EQL, c.Call.Args[0], c.Call.Args[1])
		case "IsZero":
			t := w.cur.tm.of(c.Call.Args[0])
			if r := w.env.Role(t); r != "" {
				if fv, ok := w.env.Flags["zero:"+r]; ok {
					return tri(fv)
				}
			}
			return U
		}
		return U
	}
	callee := c.Call.StaticCallee()
	if callee == nil || callee.Blocks == nil || !w.env.a.fnInModule(callee) || w.env.depth >= 3 {
		return U
	}
	if callee.Signature.Results().Len() == 0 || !isBool(callee.Signature.Results().At(0).Type()) {
		return U
	}
	// inline a same-module boolean helper
	fr := &frame{fn: callee}
	for _, arg := range c.Call.Args {
		fr.args = append(fr.args, w.cur.tm.of(arg))
	}
	sub := NewWalker(w.env, fr)
	sub.RetIdx = 0
	sub.parent, sub.parentPs, sub.argVals = w, ps, c.Call.Args
	w.env.depth++
	outs := sub.Run(callee.Blocks[0], nil)
	w.env.depth--
	w.env.CurW = w
	w.cur = ps
	res := U
	for _, o := range outs {
		if o.Ended != "return" || o.Ret == U {
			return U
		}
		if res == U {
			res = o.Ret
		} else if res != o.Ret {
			return U
		}
	}
	return res
}

// ---------------------------------------------------------------- enumeration

// weakOrderings enumerates all weak orderings (ordered set partitions) of roles.
func weakOrderings(roles []string) []map[string]int {
	var out []map[string]int
	n := len(roles)
	assign := make([]int, n)
	var rec func(i, maxUsed int)
	rec = func(i, maxUsed int) {
		if i == n {
			// ranks must form 0..k without gaps
			used := map[int]bool{}
			for _, r := range assign {
				used[r] = true
			}
			for k := 0; k < len(used); k++ {
				if !used[k] {
					return
				}
			}
			m := map[string]int{}
			for j, r := range roles {
				m[r] = assign[j]
			}
			out = append(out, m)
			return
		}
		for r := 0; r < n; r++ {
			assign[i] = r
			rec(i+1, maxUsed)
		}
	}
	rec(0, 0)
	return out
}

func fmtOrdering(m map[string]int, flags map[string]bool) string {
	type kv struct {
		k string
		v int
	}
	var l []kv
	for k, v := range m {
		l = append(l, kv{k, v})
	}
	sort.Slice(l, func(i, j int) bool {
		if l[i].v != l[j].v {
			return l[i].v < l[j].v
		}
		return l[i].k < l[j].k
	})
	var sb strings.Builder
	for i, e := range l {
		if i > 0 {
			if l[i-1].v == e.v {
				sb.WriteString(" = ")
			} else {
				sb.WriteString(" < ")
			}
		}
		sb.WriteString(e.k)
	}
	var fk []string
	for k := range flags {
		fk = append(fk, k)
	}
	sort.Strings(fk)
	for _, k := range fk {
		fmt.Fprintf(&sb, "; %s=%v", k, flags[k])
	}
	return sb.String()
}

type OrdSpec struct {
	Roles     []string
	Flags     []string
	Invariant func(r map[string]int, f map[string]bool) bool
	// Expect gives the prescribed decision. ok=false: the property does not constrain this case.
	Expect func(r map[string]int, f map[string]bool) (want bool, ok bool)
	Role   func(t *Term) string
	Assume func(t *Term, v ssa.Value) Tri
	Norm   func(t *Term) *Term
	// Eval produces the decision under env: T/F, or U with a reason.
	Eval func(env *Env) (Tri, string)
}

// OrdTable runs the exhaustive table and records one obligation.
func (a *A) OrdTable(construct string, pos token.Pos, what string, s OrdSpec) {
	ords := weakOrderings(s.Roles)
	nflag := 1 << len(s.Flags)
	checked := 0
	var rows []string
	for _, r := range ords {
		for fm := 0; fm < nflag; fm++ {
			flags := map[string]bool{}
			for i, f := range s.Flags {
				flags[f] = fm&(1<<i) != 0
			}
			if s.Invariant != nil && !s.Invariant(r, flags) {
				continue
			}
			want, constrained := s.Expect(r, flags)
			if !constrained {
				continue
			}
			env := &Env{Role: s.Role, Rank: r, Flags: flags, Assume: s.Assume, Norm: s.Norm, a: a}
			got, why := s.Eval(env)
			checked++
			if got == U {
				a.Und(construct, pos, "%s: cannot evaluate the decision under ordering [%s]: %s", what, fmtOrdering(r, flags), why)
				return
			}
			rows = append(rows, fmt.Sprintf("%s -> %v", fmtOrdering(r, flags), got == T))
			if (got == T) != want {
				o := a.Bad(construct, pos, "%s: under ordering [%s] the code decides %v, the property prescribes %v", what, fmtOrdering(r, flags), got == T, want)
				o.Extra = map[string]any{"refuting_ordering": fmtOrdering(r, flags)}
				return
			}
		}
	}
	if checked == 0 {
		a.Und(construct, pos, "%s: no ordering satisfied the invariant (vacuous table)", what)
		return
	}
	o := a.Ok(construct, pos, "%s: all %d orderings of (%s) agree with the prescribed relation", what, checked, strings.Join(s.Roles, ","))
	o.Extra = map[string]any{"exhaustive": true, "table": rows}
}

// evalFuncRet evaluates boolean result idx of fn under env with params bound to the given terms (nil = own params).
func evalFuncRet(env *Env, fn *ssa.Function, args []*Term) (Tri, string) {
	var fr *frame
	if args != nil {
		fr = &frame{fn: fn, args: args}
	}
	w := NewWalker(env, fr)
	w.RetIdx = 0
	outs := w.Run(fn.Blocks[0], nil)
	res := U
	for _, o := range outs {
		if o.Ended != "return" || o.Ret == U {
			return U, fmt.Sprintf("path ended with %s, result %v; %s", o.Ended, o.Ret, o.Why)
		}
		if res == U {
			res = o.Ret
		} else if res != o.Ret {
			return U, "result depends on a condition that is not a role comparison: " + o.Why
		}
	}
	return res, ""
}

// evalReach decides whether an instruction satisfying target is executed on the walk from
// start until stop/return. All nondeterministic paths must agree.
func evalReach(env *Env, fr *frame, start, pred *ssa.BasicBlock, stop func(*ssa.BasicBlock) bool, target func(ssa.Instruction, *Walker) bool) (Tri, string) {
	w := NewWalker(env, fr)
	w.RetIdx = -1
	w.Stop = stop
	w.Target = target
	outs := w.Run(start, pred)
	res := U
	for _, o := range outs {
		if o.Ended == "overflow" {
			return U, o.Why
		}
		h := tri(o.Hit)
		if res == U {
			res = h
		} else if res != h {
			return U, "whether the effect happens depends on a condition that is not a role comparison: " + o.Why
		}
	}
	return res, ""
}

// maxVisits: a block may be entered twice on one path, so that every loop is explored with zero
// and with one completed iteration (values merged by loop phis reach the code after the loop).
func (w *Walker) maxVisits() int {
	if w.Visits > 0 {
		return w.Visits
	}
	return 2
}

// mayHit: under env, can some path from start (until stop/return) execute an instruction
// satisfying target? over reports an exceeded path budget.
func mayHit(env *Env, fr *frame, start, pred *ssa.BasicBlock, stop func(*ssa.BasicBlock) bool, target func(ssa.Instruction, *Walker) bool) (hit bool, over bool) {
	w := NewWalker(env, fr)
	w.RetIdx = -1
	w.Stop = stop
	w.Target = target
	for _, o := range w.Run(start, pred) {
		if o.Ended == "overflow" {
			over = true
		}
		if o.Hit {
			hit = true
		}
	}
	return
}

// OnlyIf checks, over all orderings, that target is reachable only when cond(ordering) holds.
func (a *A) OnlyIf(construct string, pos token.Pos, what string, s OrdSpec, start, pred *ssa.BasicBlock,
	stop func(*ssa.BasicBlock) bool, target func(ssa.Instruction, *Walker) bool, cond func(r map[string]int, f map[string]bool) bool) {
	ords := weakOrderings(s.Roles)
	nflag := 1 << len(s.Flags)
	checked, constrained := 0, 0
	for _, r := range ords {
		for fm := 0; fm < nflag; fm++ {
			flags := map[string]bool{}
			for i, f := range s.Flags {
				flags[f] = fm&(1<<i) != 0
			}
			if s.Invariant != nil && !s.Invariant(r, flags) {
				continue
			}
			checked++
			if cond(r, flags) {
				continue
			}
			constrained++
			env := &Env{Role: s.Role, Rank: r, Flags: flags, Assume: s.Assume, Norm: s.Norm, a: a}
			hit, over := mayHit(env, nil, start, pred, stop, target)
			if over {
				a.Und(construct, pos, "%s: path budget exceeded", what)
				return
			}
			if hit {
				o := a.Bad(construct, pos, "%s: the effect is reachable under ordering [%s], where the property forbids it (conditions that are not comparisons of the roles are assumed to go either way)", what, fmtOrdering(r, flags))
				o.Extra = map[string]any{"refuting_ordering": fmtOrdering(r, flags)}
				return
			}
		}
	}
	if constrained == 0 {
		a.Und(construct, pos, "%s: vacuous (no ordering is constrained)", what)
		return
	}
	o := a.Ok(construct, pos, "%s: unreachable under all %d forbidden orderings (of %d) of (%s)", what, constrained, checked, strings.Join(s.Roles, ","))
	o.Extra = map[string]any{"exhaustive": true}
}

func isIntType(t types.Type) bool {
	b, ok := t.Underlying().(*types.Basic)
	return ok && b.Info()&types.IsInteger != 0
}

// splitOffset: t = base + k for a small integer constant k.
func splitOffset(t *Term) (*Term, int64) {
	if t.Kind == "bin" && (t.Name == "+" || t.Name == "-") && len(t.Args) == 2 {
		if c := t.Args[1]; c.Kind == "const" && c.Const != nil && c.Const.Kind() == constant.Int {
			if k, ok := constant.Int64Val(c.Const); ok {
				if t.Name == "-" {
					k = -k
				}
				return t.Args[0], k
			}
		}
		if c := t.Args[0]; t.Name == "+" && c.Kind == "const" && c.Const != nil && c.Const.Kind() == constant.Int {
			if k, ok := constant.Int64Val(c.Const); ok {
				return t.Args[1], k
			}
		}
	}
	return t, 0
}

// pureTerm: the value named by the access path cannot change between two evaluations on one path
// (no calls other than len; field loads carry their store epoch).
func pureTerm(t *Term) bool {
	if t == nil {
		return false
	}
	switch t.Kind {
	case "param", "free", "const", "global":
		return true
	case "phi":
		return true
	case "field", "index", "len", "mapkey", "mapval", "extract":
		return pureTerm(t.Base)
	case "bin", "un":
		for _, a := range t.Args {
			if !pureTerm(a) {
				return false
			}
		}
		return true
	case "call":
		if strings.HasPrefix(t.Name, "assert<") && len(t.Args) == 1 {
			return pureTerm(t.Args[0])
		}
	}
	return false
}

// evalInt: the integer value of v on the current path when it is determined by the ordering: a
// constant, a loop-free integer helper of the module whose result is the same constant on every
// path (a three-way comparator), strings.Compare/cmp.Compare of two roles, or a phi that took a constant.
func (w *Walker) evalInt(v ssa.Value, ps *pstate) (int64, bool) {
	if iv, ok := ps.ints[v]; ok {
		return iv, true
	}
	switch x := v.(type) {
	case *ssa.UnOp:
		// a local that holds the value on this path (results spilled because the function defers)
		if al, ok := x.X.(*ssa.Alloc); ok && x.Op == token.MUL {
			if lv := ps.locals[al]; lv != nil && lv != v {
				return w.evalInt(lv, ps)
			}
		}
	case *ssa.Convert:
		return w.evalInt(x.X, ps)
	case *ssa.ChangeType:
		return w.evalInt(x.X, ps)
	case *ssa.Parameter:
		// a parameter of an inlined helper: evaluate the argument in the caller's context
		if w.parent != nil {
			for i, p := range x.Parent().Params {
				if p == x && i < len(w.argVals) {
					saved := w.parent.cur
					w.parent.cur = w.parentPs
					r, ok := w.parent.evalInt(w.argVals[i], w.parentPs)
					w.parent.cur = saved
					return r, ok
				}
			}
		}
	case *ssa.Const:
		if x.Value != nil && x.Value.Kind() == constant.Int {
			return x.Int64(), true
		}
	case *ssa.Phi:
		if iv, ok := ps.ints[x]; ok {
			return iv, true
		}
		if pv, ok := ps.phiVal[x]; ok && pv != ssa.Value(x) {
			return w.evalInt(pv, ps)
		}
	case *ssa.Call:
		callee := x.Call.StaticCallee()
		if callee == nil {
			return 0, false
		}
		if full := calleeFull(&x.Call); (full == "strings.Compare" || full == "cmp.Compare") && len(x.Call.Args) == 2 {
			lt := w.cmpRanks(token.LSS, x.Call.Args[0], x.Call.Args[1])
			gt := w.cmpRanks(token.GTR, x.Call.Args[0], x.Call.Args[1])
			switch {
			case lt == T:
				return -1, true
			case gt == T:
				return 1, true
			case lt == F && gt == F:
				return 0, true
			}
			return 0, false
		}
		if callee.Blocks == nil || !w.env.a.fnInModule(callee) || w.env.depth >= 3 || callee.Signature.Results().Len() != 1 || !isIntType(callee.Signature.Results().At(0).Type()) {
			return 0, false
		}
		fr := &frame{fn: callee}
		for _, arg := range x.Call.Args {
			fr.args = append(fr.args, w.cur.tm.of(arg))
		}
		sub := NewWalker(w.env, fr)
		sub.RetIdx = 0
		sub.parent, sub.parentPs, sub.argVals = w, ps, x.Call.Args
		w.env.depth++
		outs := sub.Run(callee.Blocks[0], nil)
		w.env.depth--
		w.env.CurW = w
		w.cur = ps
		var res *int64
		for _, o := range outs {
			if o.Ended != "return" || o.RetI == nil {
				return 0, false
			}
			if res == nil {
				res = o.RetI
			} else if *res != *o.RetI {
				return 0, false
			}
		}
		if res != nil {
			return *res, true
		}
	}
	return 0, false
}

// returnsNonNilError: the last result of ret is an error that cannot be nil here: it was just made
// (fmt.Errorf, errors.New, a composite converted to error), or the return is guarded by `err != nil`.
func returnsNonNilError(ret *ssa.Return) bool {
	if len(ret.Results) == 0 {
		return false
	}
	r := ret.Results[len(ret.Results)-1]
	if !isErrorType(r.Type()) {
		return false
	}
	switch x := r.(type) {
	case *ssa.MakeInterface:
		return true
	case *ssa.Call:
		if f := x.Call.StaticCallee(); f != nil && f.Pkg != nil {
			if p := f.Pkg.Pkg.Path(); (p == "fmt" && f.Name() == "Errorf") || (p == "errors" && f.Name() == "New") {
				return true
			}
		}
	}
	for _, g := range guardsOf(ret.Block()) {
		v, sense := g.Cond, g.Sense
		for {
			u, ok := v.(*ssa.UnOp)
			if !ok || u.Op != token.NOT {
				break
			}
			v, sense = u.X, !sense
		}
		if bo, ok := v.(*ssa.BinOp); ok && bo.X == r && isNilConst(bo.Y) {
			if (bo.Op == token.NEQ && sense) || (bo.Op == token.EQL && !sense) {
				return true
			}
		}
	}
	return false
}
