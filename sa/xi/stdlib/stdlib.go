// Copyright 2022 The Go Authors. All rights reserved.
// Use of this source code is governed by a BSD-style
// license that can be found in the LICENSE file.

//go:generate go run generate.go

// Package stdlib provides a table of all exported symbols in the
// standard library, along with the version at which they first
// appeared.
package stdlib

import (
	"fmt"
	"strings"
)

type Symbol struct {
	Name    string
	Kind    Kind
	Version Version // Go version that first included the symbol
}

// A Kind indicates the kind of a symbol:
// function, variable, constant, type, and so on.
type Kind int8

const (
	Invalid Kind = iota // Example name:
	Type                // "Buffer"
	Func                // "Println"
	Var                 // "EOF"
	Const               // "Pi"
	Field               // "Point.X"
	Method              // "(*Buffer).Grow"
)

func (kind Kind) String() string {
	return [...]string{
		Invalid: "invalid",
		Type:    "type",
		Func:    "func",
		Var:     "var",
		Const:   "const",
		Field:   "field",
		Method:  "method",
	}[kind]
}

// A Version represents a version of Go of the form "go1.%d".
type Version int8

// String returns a version string of the form "go1.23", without allocating.
func (v Version) String() string { return versions[v] }

var versions [30]string // (increase constant as needed)

func init() {
	for i := range versions {
		versions[i] = fmt.Sprintf("go1.%d", i)
	}
}

// HasPackage reports whether the specified package path is part of
// the standard library's public API.
func HasPackage(path string) bool {
	_, ok := PackageSymbols[path]
	return ok
}

// SplitField splits the field symbol name into type and field
// components. It must be called only on Field symbols.
//
// Example: "File.Package" -> ("File", "Package")
func (sym *Symbol) SplitField() (typename, name string) {
	if sym.Kind != Field {
		panic("not a field")
	}
	typename, name, _ = strings.Cut(sym.Name, ".")
	return
}

// SplitMethod splits the method symbol name into pointer, receiver,
// and method components. It must be called only on Method symbols.
//
// Example: "(*Buffer).Grow" -> (true, "Buffer", "Grow")
func (sym *Symbol) SplitMethod() (ptr bool, recv, name string) {
	if sym.Kind != Method {
		panic("not a method")
	}
	recv, name, _ = strings.Cut(sym.Name, ".")
	recv = recv[len("(") : len(recv)-len(")")]
	ptr = recv[0] == '*'
	if ptr {
		recv = recv[len("*"):]
	}
	return
}
