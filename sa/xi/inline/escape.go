// Copyright 2023 The Go Authors. All rights reserved.
// Use of this source code is governed by a BSD-style
// license that can be found in the LICENSE file.

package inline

import (
	"fmt"
	"go/ast"
	"go/token"
	"go/types"
)

// escape implements a simple "address-taken" escape analysis. It
// calls f for each local variable that appears on the left side of an
// assignment (escapes=false) or has its address taken (escapes=true).
// The initialization of a variable by its declaration does not count
// as an assignment.
func escape(info *types.Info, root ast.Node, f func(v *types.Var, escapes bool)) {

	// lvalue is called for each address-taken expression or LHS of assignment.
	// Supported forms are: x, (x), x[i], x.f, *x, T{}.
	var lvalue func(e ast.Expr, escapes bool)
	lvalue = func(e ast.Expr, escapes bool) {
		switch e := e.(type) {
		case *ast.Ident:
			if v, ok := info.Uses[e].(*types.Var); ok {
				if !isPkgLevel(v) {
					f(v, escapes)
				}
			}
		case *ast.ParenExpr:
			lvalue(e.X, escapes)
		case *ast.IndexExpr:
			// TODO(adonovan): support generics without assuming e.X has a core type.
			// Consider:
			//
			// func Index[T interface{ [3]int | []int }](t T, i int) *int {
			//     return &t[i]
			// }
			//
			// We must traverse the normal terms and check
			// whether any of them is an array.
			//
			// We assume TypeOf returns non-nil.
			if _, ok := info.TypeOf(e.X).Underlying().(*types.Array); ok {
				lvalue(e.X, escapes) // &a[i] on array
			}
		case *ast.SelectorExpr:
			// We assume TypeOf returns non-nil.
			if _, ok := info.TypeOf(e.X).Underlying().(*types.Struct); ok {
				lvalue(e.X, escapes) // &s.f on struct
			}
		case *ast.StarExpr:
			// *ptr indirects an existing pointer
		case *ast.CompositeLit:
			// &T{...} creates a new variable
		default:
			panic(fmt.Sprintf("&x on %T", e)) // unreachable in well-typed code
		}
	}

	// Search function body for operations &x, x.f(), x++, and x = y
	// where x is a parameter. Each of these treats x as an address.
	ast.Inspect(root, func(n ast.Node) bool {
		switch n := n.(type) {
		case *ast.UnaryExpr:
			if n.Op == token.AND {
				lvalue(n.X, true) // &x
			}

		case *ast.CallExpr:
			// implicit &x in method call x.f(),
			// where x has type T and method is (*T).f
			if sel, ok := n.Fun.(*ast.SelectorExpr); ok {
				if seln, ok := info.Selections[sel]; ok &&
					seln.Kind() == types.MethodVal &&
					isPointer(seln.Obj().Type().Underlying().(*types.Signature).Recv().Type()) {
					tArg, indirect := effectiveReceiver(seln)
					if !indirect && !isPointer(tArg) {
						lvalue(sel.X, true) // &x.f
					}
				}
			}

		case *ast.AssignStmt:
			for _, lhs := range n.Lhs {
				if id, ok := lhs.(*ast.Ident); ok &&
					info.Defs[id] != nil &&
					n.Tok == token.DEFINE {
					// declaration: doesn't count
				} else {
					lvalue(lhs, false)
				}
			}

		case *ast.IncDecStmt:
			lvalue(n.X, false)

		case *ast.RangeStmt:
			// (verif) Before Go 1.22 the variables of `for k, v := range x` are one variable each for the whole
			// loop, assigned anew in every iteration: an argument that is such a variable must not be
			// substituted into a function literal of the callee (the literal would see the last
			// iteration's value). The module under analysis declares go 1.18; treating range variables as
			// multiply assigned is right there and merely conservative from 1.22 on.
			for _, e := range []ast.Expr{n.Key, n.Value} {
				if id, ok := e.(*ast.Ident); ok {
					if v, ok := info.Defs[id].(*types.Var); ok {
						f(v, false)
					} else if v, ok := info.Uses[id].(*types.Var); ok && !isPkgLevel(v) {
						f(v, false)
					}
				}
			}
		}
		return true
	})
}
