// Copyright 2023 The Go Authors. All rights reserved.
// Use of this source code is governed by a BSD-style
// license that can be found in the LICENSE file.

package inline

// This file defines the analysis of callee effects.

import (
	"go/ast"
	"go/token"
	"go/types"
)

const (
	rinf = -1 //  R∞: arbitrary read from memory
	winf = -2 //  W∞: arbitrary write to memory (or unknown control)
)

// calleefx returns a list of parameter indices indicating the order
// in which parameters are first referenced during evaluation of the
// callee, relative both to each other and to other effects of the
// callee (if any), such as arbitrary reads (rinf) and arbitrary
// effects (winf), including unknown control flow. Each parameter
// that is referenced appears once in the list.
//
// For example, the effects list of this function:
//
//	func f(x, y, z int) int {
//	    return y + x + g() + z
//	}
//
// is [1 0 -2 2], indicating reads of y and x, followed by the unknown
// effects of the g() call. and finally the read of parameter z. This
// information is used during inlining to ascertain when it is safe
// for parameter references to be replaced by their corresponding
// argument expressions. Such substitutions are permitted only when
// they do not cause "write" operations (those with effects) to
// commute with "read" operations (those that have no effect but are
// not pure). Impure operations may be reordered with other impure
// operations, and pure operations may be reordered arbitrarily.
//
// The analysis ignores the effects of runtime panics, on the
// assumption that well-behaved programs shouldn't encounter them.
func calleefx(info *types.Info, body *ast.BlockStmt, paramInfos map[*types.Var]*paramInfo) []int {
	// This traversal analyzes the callee's statements (in syntax
	// form, though one could do better with SSA) to compute the
	// sequence of events of the following kinds:
	//
	// 1  read of a parameter variable.
	// 2. reads from other memory.
	// 3. writes to memory

	var effects []int // indices of parameters, or rinf/winf (-ve)
	seen := make(map[int]bool)
	effect := func(i int) {
		if !seen[i] {
			seen[i] = true
			effects = append(effects, i)
		}
	}

	// unknown is called for statements of unknown effects (or control).
	unknown := func() {
		effect(winf)

		// Ensure that all remaining parameters are "seen"
		// after we go into the unknown (unless they are
		// unreferenced by the function body). This lets us
		// not bother implementing the complete traversal into
		// control structures.
		//
		// TODO(adonovan): add them in a deterministic order.
		// (This is not a bug but determinism is good.)
		for _, pinfo := range paramInfos {
			if !pinfo.IsResult && len(pinfo.Refs) > 0 {
				effect(pinfo.Index)
			}
		}
	}

	var visitExpr func(n ast.Expr)
	var visitStmt func(n ast.Stmt) bool
	visitExpr = func(n ast.Expr) {
		switch n := n.(type) {
		case *ast.Ident:
			if v, ok := info.Uses[n].(*types.Var); ok && !v.IsField() {
				// Use of global?
				if v.Parent() == v.Pkg().Scope() {
					effect(rinf) // read global var
				}

				// Use of parameter?
				if pinfo, ok := paramInfos[v]; ok && !pinfo.IsResult {
					effect(pinfo.Index) // read parameter var
				}

				// Use of local variables is ok.
			}

		case *ast.BasicLit:
			// no effect

		case *ast.FuncLit:
			// A func literal has no read or write effect
			// until called, and (most) function calls are
			// considered to have arbitrary effects.
			// So, no effect.

		case *ast.CompositeLit:
			for _, elt := range n.Elts {
				visitExpr(elt) // note: visits KeyValueExpr
			}

		case *ast.ParenExpr:
			visitExpr(n.X)

		case *ast.SelectorExpr:
			if seln, ok := info.Selections[n]; ok {
				visitExpr(n.X)

				// See types.SelectionKind for background.
				switch seln.Kind() {
				case types.MethodExpr:
					// A method expression T.f acts like a
					// reference to a func decl,
					// so it doesn't read x until called.

				case types.MethodVal, types.FieldVal:
					// A field or method value selection x.f
					// reads x if the selection indirects a pointer.

					if indirectSelection(seln) {
						effect(rinf)
					}
				}
			} else {
				// qualified identifier: treat like unqualified
				visitExpr(n.Sel)
			}

		case *ast.IndexExpr:
			if tv := info.Types[n.Index]; tv.IsType() {
				// no effect (G[T] instantiation)
			} else {
				visitExpr(n.X)
				visitExpr(n.Index)
				switch tv.Type.Underlying().(type) {
				case *types.Slice, *types.Pointer: // []T, *[n]T (not string, [n]T)
					effect(rinf) // indirect read of slice/array element
				}
			}

		case *ast.IndexListExpr:
			// no effect (M[K,V] instantiation)

		case *ast.SliceExpr:
			visitExpr(n.X)
			visitExpr(n.Low)
			visitExpr(n.High)
			visitExpr(n.Max)

		case *ast.TypeAssertExpr:
			visitExpr(n.X)

		case *ast.CallExpr:
			if info.Types[n.Fun].IsType() {
				// conversion T(x)
				visitExpr(n.Args[0])
			} else {
				// call f(args)
				visitExpr(n.Fun)
				for i, arg := range n.Args {
					if i == 0 && info.Types[arg].IsType() {
						continue // new(T), make(T, n)
					}
					visitExpr(arg)
				}

				// The pure built-ins have no effects beyond
				// those of their operands (not even memory reads).
				// All other calls have unknown effects.
				if !callsPureBuiltin(info, n) {
					unknown() // arbitrary effects
				}
			}

		case *ast.StarExpr:
			visitExpr(n.X)
			effect(rinf) // *ptr load or store depends on state of heap

		case *ast.UnaryExpr: // + - ! ^ & ~ <-
			visitExpr(n.X)
			if n.Op == token.ARROW {
				unknown() // effect: channel receive
			}

		case *ast.BinaryExpr:
			visitExpr(n.X)
			visitExpr(n.Y)

		case *ast.KeyValueExpr:
			visitExpr(n.Key) // may be a struct field
			visitExpr(n.Value)

		case *ast.BadExpr:
			// no effect

		case nil:
			// optional subtree

		default:
			// type syntax: unreachable given traversal
			panic(n)
		}
	}

	// visitStmt's result indicates the continuation:
	// false for return, true for the next statement.
	//
	// We could treat return as an unknown, but this way
	// yields definite effects for simple sequences like
	// {S1; S2; return}, so unreferenced parameters are
	// not spuriously added to the effects list, and thus
	// not spuriously disqualified from elimination.
	visitStmt = func(n ast.Stmt) bool {
		switch n := n.(type) {
		case *ast.DeclStmt:
			decl := n.Decl.(*ast.GenDecl)
			for _, spec := range decl.Specs {
				switch spec := spec.(type) {
				case *ast.ValueSpec:
					for _, v := range spec.Values {
						visitExpr(v)
					}

				case *ast.TypeSpec:
					// no effect
				}
			}

		case *ast.LabeledStmt:
			return visitStmt(n.Stmt)

		case *ast.ExprStmt:
			visitExpr(n.X)

		case *ast.SendStmt:
			visitExpr(n.Chan)
			visitExpr(n.Value)
			unknown() // effect: channel send

		case *ast.IncDecStmt:
			visitExpr(n.X)
			unknown() // effect: variable increment

		case *ast.AssignStmt:
			for _, lhs := range n.Lhs {
				visitExpr(lhs)
			}
			for _, rhs := range n.Rhs {
				visitExpr(rhs)
			}
			for _, lhs := range n.Lhs {
				id, _ := lhs.(*ast.Ident)
				if id != nil && id.Name == "_" {
					continue // blank assign has no effect
				}
				if n.Tok == token.DEFINE && id != nil && info.Defs[id] != nil {
					continue // new var declared by := has no effect
				}
				unknown() // assignment to existing var
				break
			}

		case *ast.GoStmt:
			visitExpr(n.Call.Fun)
			for _, arg := range n.Call.Args {
				visitExpr(arg)
			}
			unknown() // effect: create goroutine

		case *ast.DeferStmt:
			visitExpr(n.Call.Fun)
			for _, arg := range n.Call.Args {
				visitExpr(arg)
			}
			unknown() // effect: push defer

		case *ast.ReturnStmt:
			for _, res := range n.Results {
				visitExpr(res)
			}
			return false

		case *ast.BlockStmt:
			for _, stmt := range n.List {
				if !visitStmt(stmt) {
					return false
				}
			}

		case *ast.BranchStmt:
			unknown() // control flow

		case *ast.IfStmt:
			visitStmt(n.Init)
			visitExpr(n.Cond)
			unknown() // control flow

		case *ast.SwitchStmt:
			visitStmt(n.Init)
			visitExpr(n.Tag)
			unknown() // control flow

		case *ast.TypeSwitchStmt:
			visitStmt(n.Init)
			visitStmt(n.Assign)
			unknown() // control flow

		case *ast.SelectStmt:
			unknown() // control flow

		case *ast.ForStmt:
			visitStmt(n.Init)
			visitExpr(n.Cond)
			unknown() // control flow

		case *ast.RangeStmt:
			visitExpr(n.X)
			unknown() // control flow

		case *ast.EmptyStmt, *ast.BadStmt:
			// no effect

		case nil:
			// optional subtree

		default:
			panic(n)
		}
		return true
	}
	visitStmt(body)

	return effects
}
