// Copyright 2023 The Go Authors. All rights reserved.
// Use of this source code is governed by a BSD-style
// license that can be found in the LICENSE file.

/*
Package inline implements inlining of Go function calls.

The client provides information about the caller and callee,
including the source text, syntax tree, and type information, and
the inliner returns the modified source file for the caller, or an
error if the inlining operation is invalid (for example because the
function body refers to names that are inaccessible to the caller).

Although this interface demands more information from the client
than might seem necessary, it enables smoother integration with
existing batch and interactive tools that have their own ways of
managing the processes of reading, parsing, and type-checking
packages. In particular, this package does not assume that the
caller and callee belong to the same token.FileSet or
types.Importer realms.

There are many aspects to a function call. It is the only construct
that can simultaneously bind multiple variables of different
explicit types, with implicit assignment conversions. (Neither var
nor := declarations can do that.) It defines the scope of control
labels, of return statements, and of defer statements. Arguments
and results of function calls may be tuples even though tuples are
not first-class values in Go, and a tuple-valued call expression
may be "spread" across the argument list of a call or the operands
of a return statement. All these unique features mean that in the
general case, not everything that can be expressed by a function
call can be expressed without one.

So, in general, inlining consists of modifying a function or method
call expression f(a1, ..., an) so that the name of the function f
is replaced ("literalized") by a literal copy of the function
declaration, with free identifiers suitably modified to use the
locally appropriate identifiers or perhaps constant argument
values.

Inlining must not change the semantics of the call. Semantics
preservation is crucial for clients such as codebase maintenance
tools that automatically inline all calls to designated functions
on a large scale. Such tools must not introduce subtle behavior
changes. (Fully inlining a call is dynamically observable using
reflection over the call stack, but this exception to the rule is
explicitly allowed.)

In many cases it is possible to entirely replace ("reduce") the
call by a copy of the function's body in which parameters have been
replaced by arguments. The inliner supports a number of reduction
strategies, and we expect this set to grow. Nonetheless, sound
reduction is surprisingly tricky.

The inliner is in some ways like an optimizing compiler. A compiler
is considered correct if it doesn't change the meaning of the
program in translation from source language to target language. An
optimizing compiler exploits the particulars of the input to
generate better code, where "better" usually means more efficient.
When a case is found in which it emits suboptimal code, the
compiler is improved to recognize more cases, or more rules, and
more exceptions to rules; this process has no end. Inlining is
similar except that "better" code means tidier code. The baseline
translation (literalization) is correct, but there are endless
rules--and exceptions to rules--by which the output can be
improved.

The following section lists some of the challenges, and ways in
which they can be addressed.

  - All effects of the call argument expressions must be preserved,
    both in their number (they must not be eliminated or repeated),
    and in their order (both with respect to other arguments, and any
    effects in the callee function).

    This must be the case even if the corresponding parameters are
    never referenced, are referenced multiple times, referenced in
    a different order from the arguments, or referenced within a
    nested function that may be executed an arbitrary number of
    times.

    Currently, parameter replacement is not applied to arguments
    with effects, but with further analysis of the sequence of
    strict effects within the callee we could relax this constraint.

  - When not all parameters can be substituted by their arguments
    (e.g. due to possible effects), if the call appears in a
    statement context, the inliner may introduce a var declaration
    that declares the parameter variables (with the correct types)
    and assigns them to their corresponding argument values.
    The rest of the function body may then follow.
    For example, the call

    f(1, 2)

    to the function

    func f(x, y int32) { stmts }

    may be reduced to

    { var x, y int32 = 1, 2; stmts }.

    There are many reasons why this is not always possible. For
    example, true parameters are statically resolved in the same
    scope, and are dynamically assigned their arguments in
    parallel; but each spec in a var declaration is statically
    resolved in sequence and dynamically executed in sequence, so
    earlier parameters may shadow references in later ones.

  - Even an argument expression as simple as ptr.x may not be
    referentially transparent, because another argument may have the
    effect of changing the value of ptr.

    This constraint could be relaxed by some kind of alias or
    escape analysis that proves that ptr cannot be mutated during
    the call.

  - Although constants are referentially transparent, as a matter of
    style we do not wish to duplicate literals that are referenced
    multiple times in the body because this undoes proper factoring.
    Also, string literals may be arbitrarily large.

  - If the function body consists of statements other than just
    "return expr", in some contexts it may be syntactically
    impossible to reduce the call. Consider:

    if x := f(); cond { ... }

    Go has no equivalent to Lisp's progn or Rust's blocks,
    nor ML's let expressions (let param = arg in body);
    its closest equivalent is func(param){body}(arg).
    Reduction strategies must therefore consider the syntactic
    context of the call.

    In such situations we could work harder to extract a statement
    context for the call, by transforming it to:

    { x := f(); if cond { ... } }

  - Similarly, without the equivalent of Rust-style blocks and
    first-class tuples, there is no general way to reduce a call
    to a function such as

    func(params)(args)(results) { stmts; return expr }

    to an expression such as

    { var params = args; stmts; expr }

    or even a statement such as

    results = { var params = args; stmts; expr }

    Consequently the declaration and scope of the result variables,
    and the assignment and control-flow implications of the return
    statement, must be dealt with by cases.

  - A standalone call statement that calls a function whose body is
    "return expr" cannot be simply replaced by the body expression
    if it is not itself a call or channel receive expression; it is
    necessary to explicitly discard the result using "_ = expr".

    Similarly, if the body is a call expression, only calls to some
    built-in functions with no result (such as copy or panic) are
    permitted as statements, whereas others (such as append) return
    a result that must be used, even if just by discarding.

  - If a parameter or result variable is updated by an assignment
    within the function body, it cannot always be safely replaced
    by a variable in the caller. For example, given

    func f(a int) int { a++; return a }

    The call y = f(x) cannot be replaced by { x++; y = x } because
    this would change the value of the caller's variable x.
    Only if the caller is finished with x is this safe.

    A similar argument applies to parameter or result variables
    that escape: by eliminating a variable, inlining would change
    the identity of the variable that escapes.

  - If the function body uses 'defer' and the inlined call is not a
    tail-call, inlining may delay the deferred effects.

  - Because the scope of a control label is the entire function, a
    call cannot be reduced if the caller and callee have intersecting
    sets of control labels. (It is possible to α-rename any
    conflicting ones, but our colleagues building C++ refactoring
    tools report that, when tools must choose new identifiers, they
    generally do a poor job.)

  - Given

    func f() uint8 { return 0 }

    var x any = f()

    reducing the call to var x any = 0 is unsound because it
    discards the implicit conversion to uint8. We may need to make
    each argument-to-parameter conversion explicit if the types
    differ. Assignments to variadic parameters may need to
    explicitly construct a slice.

    An analogous problem applies to the implicit assignments in
    return statements:

    func g() any { return f() }

    Replacing the call f() with 0 would silently lose a
    conversion to uint8 and change the behavior of the program.

  - When inlining a call f(1, x, g()) where those parameters are
    unreferenced, we should be able to avoid evaluating 1 and x
    since they are pure and thus have no effect. But x may be the
    last reference to a local variable in the caller, so removing
    it would cause a compilation error. Parameter substitution must
    avoid making the caller's local variables unreferenced (or must
    be prepared to eliminate the declaration too---this is where an
    iterative framework for simplification would really help).

  - An expression such as s[i] may be valid if s and i are
    variables but invalid if either or both of them are constants.
    For example, a negative constant index s[-1] is always out of
    bounds, and even a non-negative constant index may be out of
    bounds depending on the particular string constant (e.g.
    "abc"[4]).

    So, if a parameter participates in any expression that is
    subject to additional compile-time checks when its operands are
    constant, it may be unsafe to substitute that parameter by a
    constant argument value (#62664).

More complex callee functions are inlinable with more elaborate and
invasive changes to the statements surrounding the call expression.

TODO(adonovan): future work:

  - Handle more of the above special cases by careful analysis,
    thoughtful factoring of the large design space, and thorough
    test coverage.

  - Compute precisely (not conservatively) when parameter
    substitution would remove the last reference to a caller local
    variable, and blank out the local instead of retreating from
    the substitution.

  - Afford the client more control such as a limit on the total
    increase in line count, or a refusal to inline using the
    general approach (replacing name by function literal). This
    could be achieved by returning metadata alongside the result
    and having the client conditionally discard the change.

  - Support inlining of generic functions, replacing type parameters
    by their instantiations.

  - Support inlining of calls to function literals ("closures").
    But note that the existing algorithm makes widespread assumptions
    that the callee is a package-level function or method.

  - Eliminate explicit conversions of "untyped" literals inserted
    conservatively when they are redundant. For example, the
    conversion int32(1) is redundant when this value is used only as a
    slice index; but it may be crucial if it is used in x := int32(1)
    as it changes the type of x, which may have further implications.
    The conversions may also be important to the falcon analysis.

  - Allow non-'go' build systems such as Bazel/Blaze a chance to
    decide whether an import is accessible using logic other than
    "/internal/" path segments. This could be achieved by returning
    the list of added import paths instead of a text diff.

  - Inlining a function from another module may change the
    effective version of the Go language spec that governs it. We
    should probably make the client responsible for rejecting
    attempts to inline from newer callees to older callers, since
    there's no way for this package to access module versions.

  - Use an alternative implementation of the import-organizing
    operation that doesn't require operating on a complete file
    (and reformatting). Then return the results in a higher-level
    form as a set of import additions and deletions plus a single
    diff that encloses the call expression. This interface could
    perhaps be implemented atop imports.Process by post-processing
    its result to obtain the abstract import changes and discarding
    its formatted output.
*/
package inline
