// Copyright 2023 The Go Authors. All rights reserved.
// Use of this source code is governed by a BSD-style
// license that can be found in the LICENSE file.

package inline

// This file defines various common helpers.

import (
	"go/ast"
	"go/constant"
	"go/token"
	"go/types"
	"reflect"
	"strings"

	"verifsa/xi/typeparams"
)

func is[T any](x any) bool {
	_, ok := x.(T)
	return ok
}

// TODO(adonovan): use go1.21's slices.Index.
func index[T comparable](slice []T, x T) int {
	for i, elem := range slice {
		if elem == x {
			return i
		}
	}
	return -1
}

func btoi(b bool) int {
	if b {
		return 1
	} else {
		return 0
	}
}

func offsetOf(fset *token.FileSet, pos token.Pos) int {
	return fset.PositionFor(pos, false).Offset
}

// objectKind returns an object's kind (e.g. var, func, const, typename).
func objectKind(obj types.Object) string {
	return strings.TrimPrefix(strings.ToLower(reflect.TypeOf(obj).String()), "*types.")
}

// within reports whether pos is within the half-open interval [n.Pos, n.End).
func within(pos token.Pos, n ast.Node) bool {
	return n.Pos() <= pos && pos < n.End()
}

// trivialConversion reports whether it is safe to omit the implicit
// value-to-variable conversion that occurs in argument passing or
// result return. The only case currently allowed is converting from
// untyped constant to its default type (e.g. 0 to int).
//
// The reason for this check is that converting from A to B to C may
// yield a different result than converting A directly to C: consider
// 0 to int32 to any.
//
// trivialConversion under-approximates trivial conversions, as unfortunately
// go/types does not record the type of an expression *before* it is implicitly
// converted, and therefore it cannot distinguish typed constant
// expressions from untyped constant expressions. For example, in the
// expression `c + 2`, where c is a uint32 constant, trivialConversion does not
// detect that the default type of this expression is actually uint32, not untyped
// int.
//
// We could, of course, do better here by reverse engineering some of go/types'
// constant handling. That may or may not be worthwhile.
//
// Example: in func f() int32 { return 0 },
// the type recorded for 0 is int32, not untyped int;
// although it is Identical to the result var,
// the conversion is non-trivial.
func trivialConversion(fromValue constant.Value, from, to types.Type) bool {
	if fromValue != nil {
		var defaultType types.Type
		switch fromValue.Kind() {
		case constant.Bool:
			defaultType = types.Typ[types.Bool]
		case constant.String:
			defaultType = types.Typ[types.String]
		case constant.Int:
			defaultType = types.Typ[types.Int]
		case constant.Float:
			defaultType = types.Typ[types.Float64]
		case constant.Complex:
			defaultType = types.Typ[types.Complex128]
		default:
			return false
		}
		return types.Identical(defaultType, to)
	}
	return types.Identical(from, to)
}

func checkInfoFields(info *types.Info) {
	assert(info.Defs != nil, "types.Info.Defs is nil")
	assert(info.Implicits != nil, "types.Info.Implicits is nil")
	assert(info.Scopes != nil, "types.Info.Scopes is nil")
	assert(info.Selections != nil, "types.Info.Selections is nil")
	assert(info.Types != nil, "types.Info.Types is nil")
	assert(info.Uses != nil, "types.Info.Uses is nil")
}

func funcHasTypeParams(decl *ast.FuncDecl) bool {
	// generic function?
	if decl.Type.TypeParams != nil {
		return true
	}
	// method on generic type?
	if decl.Recv != nil {
		t := decl.Recv.List[0].Type
		if u, ok := t.(*ast.StarExpr); ok {
			t = u.X
		}
		return is[*ast.IndexExpr](t) || is[*ast.IndexListExpr](t)
	}
	return false
}

// intersects reports whether the maps' key sets intersect.
func intersects[K comparable, T1, T2 any](x map[K]T1, y map[K]T2) bool {
	if len(x) > len(y) {
		return intersects(y, x)
	}
	for k := range x {
		if _, ok := y[k]; ok {
			return true
		}
	}
	return false
}

// convert returns syntax for the conversion T(x).
func convert(T, x ast.Expr) *ast.CallExpr {
	// The formatter generally adds parens as needed,
	// but before go1.22 it had a bug (#63362) for
	// channel types that requires this workaround.
	if ch, ok := T.(*ast.ChanType); ok && ch.Dir == ast.RECV {
		T = &ast.ParenExpr{X: T}
	}
	return &ast.CallExpr{
		Fun:  T,
		Args: []ast.Expr{x},
	}
}

// isPointer reports whether t's core type is a pointer.
func isPointer(t types.Type) bool {
	return is[*types.Pointer](typeparams.CoreType(t))
}

// indirectSelection is like seln.Indirect() without bug #8353.
func indirectSelection(seln *types.Selection) bool {
	// Work around bug #8353 in Selection.Indirect when Kind=MethodVal.
	if seln.Kind() == types.MethodVal {
		tArg, indirect := effectiveReceiver(seln)
		if indirect {
			return true
		}

		tParam := seln.Obj().Type().Underlying().(*types.Signature).Recv().Type()
		return isPointer(tArg) && !isPointer(tParam) // implicit *
	}

	return seln.Indirect()
}

// effectiveReceiver returns the effective type of the method
// receiver after all implicit field selections (but not implicit * or
// & operations) have been applied.
//
// The boolean indicates whether any implicit field selection was indirect.
func effectiveReceiver(seln *types.Selection) (types.Type, bool) {
	assert(seln.Kind() == types.MethodVal, "not MethodVal")
	t := seln.Recv()
	indices := seln.Index()
	indirect := false
	for _, index := range indices[:len(indices)-1] {
		if isPointer(t) {
			indirect = true
			t = typeparams.MustDeref(t)
		}
		t = typeparams.CoreType(t).(*types.Struct).Field(index).Type()
	}
	return t, indirect
}
