// Copyright 2023 The Go Authors. All rights reserved.
// Use of this source code is governed by a BSD-style
// license that can be found in the LICENSE file.

package inline

// This file defines the callee side of the "fallible constant" analysis.

import (
	"fmt"
	"go/ast"
	"go/constant"
	"go/format"
	"go/token"
	"go/types"
	"strconv"
	"strings"

	"golang.org/x/tools/go/types/typeutil"
	"verifsa/xi/typeparams"
)

// falconResult is the result of the analysis of the callee.
type falconResult struct {
	Types       []falconType // types for falcon constraint environment
	Constraints []string     // constraints (Go expressions) on values of fallible constants
}

// A falconType specifies the name and underlying type of a synthetic
// defined type for use in falcon constraints.
//
// Unique types from callee code are bijectively mapped onto falcon
// types so that constraints are independent of callee type
// information but preserve type equivalence classes.
//
// Fresh names are deliberately obscure to avoid shadowing even if a
// callee parameter has a nanme like "int" or "any".
type falconType struct {
	Name string
	Kind types.BasicKind // string/number/bool
}

// falcon identifies "fallible constant" expressions, which are
// expressions that may fail to compile if one or more of their
// operands is changed from non-constant to constant.
//
// Consider:
//
//	func sub(s string, i, j int) string { return s[i:j] }
//
// If parameters are replaced by constants, the compiler is
// required to perform these additional checks:
//
//   - if i is constant, 0 <= i.
//   - if s and i are constant, i <= len(s).
//   - ditto for j.
//   - if i and j are constant, i <= j.
//
// s[i:j] is thus a "fallible constant" expression dependent on {s, i,
// j}. Each falcon creates a set of conditional constraints across one
// or more parameter variables.
//
//   - When inlining a call such as sub("abc", -1, 2), the parameter i
//     cannot be eliminated by substitution as its argument value is
//     negative.
//
//   - When inlining sub("", 2, 1), all three parameters cannot be
//     simultaneously eliminated by substitution without violating i
//     <= len(s) and j <= len(s), but the parameters i and j could be
//     safely eliminated without s.
//
// Parameters that cannot be eliminated must remain non-constant,
// either in the form of a binding declaration:
//
//	{ var i int = -1; return "abc"[i:2] }
//
// or a parameter of a literalization:
//
//	func (i int) string { return "abc"[i:2] }(-1)
//
// These example expressions are obviously doomed to fail at run
// time, but in realistic cases such expressions are dominated by
// appropriate conditions that make them reachable only when safe:
//
//	if 0 <= i && i <= j && j <= len(s) { _ = s[i:j] }
//
// (In principle a more sophisticated inliner could entirely eliminate
// such unreachable blocks based on the condition being always-false
// for the given parameter substitution, but this is tricky to do safely
// because the type-checker considers only a single configuration.
// Consider: if runtime.GOOS == "linux" { ... }.)
//
// We believe this is an exhaustive list of "fallible constant" operations:
//
//   - switch z { case x: case y } 	// duplicate case values
//   - s[i], s[i:j], s[i:j:k]		// index out of bounds (0 <= i <= j <= k <= len(s))
//   - T{x: 0}				// index out of bounds, duplicate index
//   - x/y, x%y, x/=y, x%=y		// integer division by zero; minint/-1 overflow
//   - x+y, x-y, x*y			// arithmetic overflow
//   - x<<y				// shift out of range
//   - -x				// negation of minint
//   - T(x)				// value out of range
//
// The fundamental reason for this elaborate algorithm is that the
// "separate analysis" of callee and caller, as required when running
// in an environment such as unitchecker, means that there is no way
// for us to simply invoke the type checker on the combination of
// caller and callee code, as by the time we analyze the caller, we no
// longer have access to type information for the callee (and, in
// particular, any of its direct dependencies that are not direct
// dependencies of the caller). So, in effect, we are forced to map
// the problem in a neutral (callee-type-independent) constraint
// system that can be verified later.
func falcon(logf func(string, ...any), fset *token.FileSet, params map[*types.Var]*paramInfo, info *types.Info, decl *ast.FuncDecl) falconResult {

	st := &falconState{
		logf:   logf,
		fset:   fset,
		params: params,
		info:   info,
		decl:   decl,
	}

	// type mapping
	st.int = st.typename(types.Typ[types.Int])
	st.any = "interface{}" // don't use "any" as it may be shadowed
	for obj, info := range st.params {
		if isBasic(obj.Type(), types.IsConstType) {
			info.FalconType = st.typename(obj.Type())
		}
	}

	st.stmt(st.decl.Body)

	return st.result
}

type falconState struct {
	// inputs
	logf   func(string, ...any)
	fset   *token.FileSet
	params map[*types.Var]*paramInfo
	info   *types.Info
	decl   *ast.FuncDecl

	// working state
	int       string
	any       string
	typenames typeutil.Map

	result falconResult
}

// typename returns the name in the falcon constraint system
// of a given string/number/bool type t. Falcon types are
// specified directly in go/types data structures rather than
// by name, avoiding potential shadowing conflicts with
// confusing parameter names such as "int".
//
// Also, each distinct type (as determined by types.Identical)
// is mapped to a fresh type in the falcon system so that we
// can map the types in the callee code into a neutral form
// that does not depend on imports, allowing us to detect
// potential conflicts such as
//
//	map[any]{T1(1): 0, T2(1): 0}
//
// where T1=T2.
func (st *falconState) typename(t types.Type) string {
	name, ok := st.typenames.At(t).(string)
	if !ok {
		basic := t.Underlying().(*types.Basic)

		// That dot ۰ is an Arabic zero numeral U+06F0.
		// It is very unlikely to appear in a real program.
		// TODO(adonovan): use a non-heuristic solution.
		name = fmt.Sprintf("%s۰%d", basic, st.typenames.Len())
		st.typenames.Set(t, name)
		st.logf("falcon: emit type %s %s // %q", name, basic, t)
		st.result.Types = append(st.result.Types, falconType{
			Name: name,
			Kind: basic.Kind(),
		})
	}
	return name
}

// -- constraint emission --

// emit emits a Go expression that must have a legal type.
// In effect, we let the go/types constant folding algorithm
// do most of the heavy lifting (though it may be hard to
// believe from the complexity of this algorithm!).
func (st *falconState) emit(constraint ast.Expr) {
	var out strings.Builder
	if err := format.Node(&out, st.fset, constraint); err != nil {
		panic(err) // can't happen
	}
	syntax := out.String()
	st.logf("falcon: emit constraint %s", syntax)
	st.result.Constraints = append(st.result.Constraints, syntax)
}

// emitNonNegative emits an []T{}[index] constraint,
// which ensures index is non-negative if constant.
func (st *falconState) emitNonNegative(index ast.Expr) {
	st.emit(&ast.IndexExpr{
		X: &ast.CompositeLit{
			Type: &ast.ArrayType{
				Elt: makeIdent(st.int),
			},
		},
		Index: index,
	})
}

// emitMonotonic emits an []T{}[i:j] constraint,
// which ensures i <= j if both are constant.
func (st *falconState) emitMonotonic(i, j ast.Expr) {
	st.emit(&ast.SliceExpr{
		X: &ast.CompositeLit{
			Type: &ast.ArrayType{
				Elt: makeIdent(st.int),
			},
		},
		Low:  i,
		High: j,
	})
}

// emitUnique emits a T{elem1: 0, ... elemN: 0} constraint,
// which ensures that all constant elems are unique.
// T may be a map, slice, or array depending
// on the desired check semantics.
func (st *falconState) emitUnique(typ ast.Expr, elems []ast.Expr) {
	if len(elems) > 1 {
		var elts []ast.Expr
		for _, elem := range elems {
			elts = append(elts, &ast.KeyValueExpr{
				Key:   elem,
				Value: makeIntLit(0),
			})
		}
		st.emit(&ast.CompositeLit{
			Type: typ,
			Elts: elts,
		})
	}
}

// -- traversal --

// The traversal functions scan the callee body for expressions that
// are not constant but would become constant if the parameter vars
// were redeclared as constants, and emits for each one a constraint
// (a Go expression) with the property that it will not type-check
// (using types.CheckExpr) if the particular argument values are
// unsuitable.
//
// These constraints are checked by Inline with the actual
// constant argument values. Violations cause it to reject
// parameters as candidates for substitution.

func (st *falconState) stmt(s ast.Stmt) {
	ast.Inspect(s, func(n ast.Node) bool {
		switch n := n.(type) {
		case ast.Expr:
			_ = st.expr(n)
			return false // skip usual traversal

		case *ast.AssignStmt:
			switch n.Tok {
			case token.QUO_ASSIGN, token.REM_ASSIGN:
				// x /= y
				// Possible "integer division by zero"
				// Emit constraint: 1/y.
				_ = st.expr(n.Lhs[0])
				kY := st.expr(n.Rhs[0])
				if kY, ok := kY.(ast.Expr); ok {
					op := token.QUO
					if n.Tok == token.REM_ASSIGN {
						op = token.REM
					}
					st.emit(&ast.BinaryExpr{
						Op: op,
						X:  makeIntLit(1),
						Y:  kY,
					})
				}
				return false // skip usual traversal
			}

		case *ast.SwitchStmt:
			if n.Init != nil {
				st.stmt(n.Init)
			}
			tBool := types.Type(types.Typ[types.Bool])
			tagType := tBool // default: true
			if n.Tag != nil {
				st.expr(n.Tag)
				tagType = st.info.TypeOf(n.Tag)
			}

			// Possible "duplicate case value".
			// Emit constraint map[T]int{v1: 0, ..., vN:0}
			// to ensure all maybe-constant case values are unique
			// (unless switch tag is boolean, which is relaxed).
			var unique []ast.Expr
			for _, clause := range n.Body.List {
				clause := clause.(*ast.CaseClause)
				for _, caseval := range clause.List {
					if k := st.expr(caseval); k != nil {
						unique = append(unique, st.toExpr(k))
					}
				}
				for _, stmt := range clause.Body {
					st.stmt(stmt)
				}
			}
			if unique != nil && !types.Identical(tagType.Underlying(), tBool) {
				tname := st.any
				if !types.IsInterface(tagType) {
					tname = st.typename(tagType)
				}
				t := &ast.MapType{
					Key:   makeIdent(tname),
					Value: makeIdent(st.int),
				}
				st.emitUnique(t, unique)
			}
		}
		return true
	})
}

// fieldTypes visits the .Type of each field in the list.
func (st *falconState) fieldTypes(fields *ast.FieldList) {
	if fields != nil {
		for _, field := range fields.List {
			_ = st.expr(field.Type)
		}
	}
}

// expr visits the expression (or type) and returns a
// non-nil result if the expression is constant or would
// become constant if all suitable function parameters were
// redeclared as constants.
//
// If the expression is constant, st.expr returns its type
// and value (types.TypeAndValue). If the expression would
// become constant, st.expr returns an ast.Expr tree whose
// leaves are literals and parameter references, and whose
// interior nodes are operations that may become constant,
// such as -x, x+y, f(x), and T(x). We call these would-be
// constant expressions "fallible constants", since they may
// fail to type-check for some values of x, i, and j. (We
// refer to the non-nil cases collectively as "maybe
// constant", and the nil case as "definitely non-constant".)
//
// As a side effect, st.expr emits constraints for each
// fallible constant expression; this is its main purpose.
//
// Consequently, st.expr must visit the entire subtree so
// that all necessary constraints are emitted. It may not
// short-circuit the traversal when it encounters a constant
// subexpression as constants may contain arbitrary other
// syntax that may impose constraints. Consider (as always)
// this contrived but legal example of a type parameter (!)
// that contains statement syntax:
//
//	func f[T [unsafe.Sizeof(func() { stmts })]int]()
//
// There is no need to emit constraints for (e.g.) s[i] when s
// and i are already constants, because we know the expression
// is sound, but it is sometimes easier to emit these
// redundant constraints than to avoid them.
func (st *falconState) expr(e ast.Expr) (res any) { // = types.TypeAndValue | ast.Expr
	tv := st.info.Types[e]
	if tv.Value != nil {
		// A constant value overrides any other result.
		defer func() { res = tv }()
	}

	switch e := e.(type) {
	case *ast.Ident:
		if v, ok := st.info.Uses[e].(*types.Var); ok {
			if _, ok := st.params[v]; ok && isBasic(v.Type(), types.IsConstType) {
				return e // reference to constable parameter
			}
		}
		// (References to *types.Const are handled by the defer.)

	case *ast.BasicLit:
		// constant

	case *ast.ParenExpr:
		return st.expr(e.X)

	case *ast.FuncLit:
		_ = st.expr(e.Type)
		st.stmt(e.Body)
		// definitely non-constant

	case *ast.CompositeLit:
		// T{k: v, ...}, where T ∈ {array,*array,slice,map},
		// imposes a constraint that all constant k are
		// distinct and, for arrays [n]T, within range 0-n.
		//
		// Types matter, not just values. For example,
		// an interface-keyed map may contain keys
		// that are numerically equal so long as they
		// are of distinct types. For example:
		//
		//   type myint int
		//   map[any]bool{1: true, 1:        true} // error: duplicate key
		//   map[any]bool{1: true, int16(1): true} // ok
		//   map[any]bool{1: true, myint(1): true} // ok
		//
		// This can be asserted by emitting a
		// constraint of the form T{k1: 0, ..., kN: 0}.
		if e.Type != nil {
			_ = st.expr(e.Type)
		}
		t := types.Unalias(typeparams.Deref(tv.Type))
		var uniques []ast.Expr
		for _, elt := range e.Elts {
			if kv, ok := elt.(*ast.KeyValueExpr); ok {
				if !is[*types.Struct](t) {
					if k := st.expr(kv.Key); k != nil {
						uniques = append(uniques, st.toExpr(k))
					}
				}
				_ = st.expr(kv.Value)
			} else {
				_ = st.expr(elt)
			}
		}
		if uniques != nil {
			// Inv: not a struct.

			// The type T in constraint T{...} depends on the CompLit:
			// - for a basic-keyed map, use map[K]int;
			// - for an interface-keyed map, use map[any]int;
			// - for a slice, use []int;
			// - for an array or *array, use [n]int.
			// The last two entail progressively stronger index checks.
			var ct ast.Expr // type syntax for constraint
			switch t := typeparams.CoreType(t).(type) {
			case *types.Map:
				if types.IsInterface(t.Key()) {
					ct = &ast.MapType{
						Key:   makeIdent(st.any),
						Value: makeIdent(st.int),
					}
				} else {
					ct = &ast.MapType{
						Key:   makeIdent(st.typename(t.Key())),
						Value: makeIdent(st.int),
					}
				}
			case *types.Array: // or *array
				ct = &ast.ArrayType{
					Len: makeIntLit(t.Len()),
					Elt: makeIdent(st.int),
				}
			default:
				panic(fmt.Sprintf("%T: %v", t, t))
			}
			st.emitUnique(ct, uniques)
		}
		// definitely non-constant

	case *ast.SelectorExpr:
		_ = st.expr(e.X)
		_ = st.expr(e.Sel)
		// The defer is sufficient to handle
		// qualified identifiers (pkg.Const).
		// All other cases are definitely non-constant.

	case *ast.IndexExpr:
		if tv.IsType() {
			// type C[T]
			_ = st.expr(e.X)
			_ = st.expr(e.Index)
		} else {
			// term x[i]
			//
			// Constraints (if x is slice/string/array/*array, not map):
			// - i >= 0
			//     if i is a fallible constant
			// - i < len(x)
			//     if x is array/*array and
			//     i is a fallible constant;
			//  or if s is a string and both i,
			//     s are maybe-constants,
			//     but not both are constants.
			kX := st.expr(e.X)
			kI := st.expr(e.Index)
			if kI != nil && !is[*types.Map](st.info.TypeOf(e.X).Underlying()) {
				if kI, ok := kI.(ast.Expr); ok {
					st.emitNonNegative(kI)
				}
				// Emit constraint to check indices against known length.
				// TODO(adonovan): factor with SliceExpr logic.
				var x ast.Expr
				if kX != nil {
					// string
					x = st.toExpr(kX)
				} else if arr, ok := typeparams.CoreType(typeparams.Deref(st.info.TypeOf(e.X))).(*types.Array); ok {
					// array, *array
					x = &ast.CompositeLit{
						Type: &ast.ArrayType{
							Len: makeIntLit(arr.Len()),
							Elt: makeIdent(st.int),
						},
					}
				}
				if x != nil {
					st.emit(&ast.IndexExpr{
						X:     x,
						Index: st.toExpr(kI),
					})
				}
			}
		}
		// definitely non-constant

	case *ast.SliceExpr:
		// x[low:high:max]
		//
		// Emit non-negative constraints for each index,
		// plus low <= high <= max <= len(x)
		// for each pair that are maybe-constant
		// but not definitely constant.

		kX := st.expr(e.X)
		var kLow, kHigh, kMax any
		if e.Low != nil {
			kLow = st.expr(e.Low)
			if kLow != nil {
				if kLow, ok := kLow.(ast.Expr); ok {
					st.emitNonNegative(kLow)
				}
			}
		}
		if e.High != nil {
			kHigh = st.expr(e.High)
			if kHigh != nil {
				if kHigh, ok := kHigh.(ast.Expr); ok {
					st.emitNonNegative(kHigh)
				}
				if kLow != nil {
					st.emitMonotonic(st.toExpr(kLow), st.toExpr(kHigh))
				}
			}
		}
		if e.Max != nil {
			kMax = st.expr(e.Max)
			if kMax != nil {
				if kMax, ok := kMax.(ast.Expr); ok {
					st.emitNonNegative(kMax)
				}
				if kHigh != nil {
					st.emitMonotonic(st.toExpr(kHigh), st.toExpr(kMax))
				}
			}
		}

		// Emit constraint to check indices against known length.
		var x ast.Expr
		if kX != nil {
			// string
			x = st.toExpr(kX)
		} else if arr, ok := typeparams.CoreType(typeparams.Deref(st.info.TypeOf(e.X))).(*types.Array); ok {
			// array, *array
			x = &ast.CompositeLit{
				Type: &ast.ArrayType{
					Len: makeIntLit(arr.Len()),
					Elt: makeIdent(st.int),
				},
			}
		}
		if x != nil {
			// Avoid slice[::max] if kHigh is nonconstant (nil).
			high, max := st.toExpr(kHigh), st.toExpr(kMax)
			if high == nil {
				high = max // => slice[:max:max]
			}
			st.emit(&ast.SliceExpr{
				X:    x,
				Low:  st.toExpr(kLow),
				High: high,
				Max:  max,
			})
		}
		// definitely non-constant

	case *ast.TypeAssertExpr:
		_ = st.expr(e.X)
		if e.Type != nil {
			_ = st.expr(e.Type)
		}

	case *ast.CallExpr:
		_ = st.expr(e.Fun)
		if tv, ok := st.info.Types[e.Fun]; ok && tv.IsType() {
			// conversion T(x)
			//
			// Possible "value out of range".
			kX := st.expr(e.Args[0])
			if kX != nil && isBasic(tv.Type, types.IsConstType) {
				conv := convert(makeIdent(st.typename(tv.Type)), st.toExpr(kX))
				if is[ast.Expr](kX) {
					st.emit(conv)
				}
				return conv
			}
			return nil // definitely non-constant
		}

		// call f(x)

		all := true // all args are possibly-constant
		kArgs := make([]ast.Expr, len(e.Args))
		for i, arg := range e.Args {
			if kArg := st.expr(arg); kArg != nil {
				kArgs[i] = st.toExpr(kArg)
			} else {
				all = false
			}
		}

		// Calls to built-ins with fallibly constant arguments
		// may become constant. All other calls are either
		// constant or non-constant
		if id, ok := e.Fun.(*ast.Ident); ok && all && tv.Value == nil {
			if builtin, ok := st.info.Uses[id].(*types.Builtin); ok {
				switch builtin.Name() {
				case "len", "imag", "real", "complex", "min", "max":
					return &ast.CallExpr{
						Fun:      id,
						Args:     kArgs,
						Ellipsis: e.Ellipsis,
					}
				}
			}
		}

	case *ast.StarExpr: // *T, *ptr
		_ = st.expr(e.X)

	case *ast.UnaryExpr:
		// + - ! ^ & <- ~
		//
		// Possible "negation of minint".
		// Emit constraint: -x
		kX := st.expr(e.X)
		if kX != nil && !is[types.TypeAndValue](kX) {
			if e.Op == token.SUB {
				st.emit(&ast.UnaryExpr{
					Op: e.Op,
					X:  st.toExpr(kX),
				})
			}

			return &ast.UnaryExpr{
				Op: e.Op,
				X:  st.toExpr(kX),
			}
		}

	case *ast.BinaryExpr:
		kX := st.expr(e.X)
		kY := st.expr(e.Y)
		switch e.Op {
		case token.QUO, token.REM:
			// x/y, x%y
			//
			// Possible "integer division by zero" or
			// "minint / -1" overflow.
			// Emit constraint: x/y or 1/y
			if kY != nil {
				if kX == nil {
					kX = makeIntLit(1)
				}
				st.emit(&ast.BinaryExpr{
					Op: e.Op,
					X:  st.toExpr(kX),
					Y:  st.toExpr(kY),
				})
			}

		case token.ADD, token.SUB, token.MUL:
			// x+y, x-y, x*y
			//
			// Possible "arithmetic overflow".
			// Emit constraint: x+y
			if kX != nil && kY != nil {
				st.emit(&ast.BinaryExpr{
					Op: e.Op,
					X:  st.toExpr(kX),
					Y:  st.toExpr(kY),
				})
			}

		case token.SHL, token.SHR:
			// x << y, x >> y
			//
			// Possible "constant shift too large".
			// Either operand may be too large individually,
			// and they may be too large together.
			// Emit constraint:
			//    x << y (if both maybe-constant)
			//    x << 0 (if y is non-constant)
			//    1 << y (if x is non-constant)
			if kX != nil || kY != nil {
				x := st.toExpr(kX)
				if x == nil {
					x = makeIntLit(1)
				}
				y := st.toExpr(kY)
				if y == nil {
					y = makeIntLit(0)
				}
				st.emit(&ast.BinaryExpr{
					Op: e.Op,
					X:  x,
					Y:  y,
				})
			}

		case token.LSS, token.GTR, token.EQL, token.NEQ, token.LEQ, token.GEQ:
			// < > == != <= <=
			//
			// A "x cmp y" expression with constant operands x, y is
			// itself constant, but I can't see how a constant bool
			// could be fallible: the compiler doesn't reject duplicate
			// boolean cases in a switch, presumably because boolean
			// switches are less like n-way branches and more like
			// sequential if-else chains with possibly overlapping
			// conditions; and there is (sadly) no way to convert a
			// boolean constant to an int constant.
		}
		if kX != nil && kY != nil {
			return &ast.BinaryExpr{
				Op: e.Op,
				X:  st.toExpr(kX),
				Y:  st.toExpr(kY),
			}
		}

	// types
	//
	// We need to visit types (and even type parameters)
	// in order to reach all the places where things could go wrong:
	//
	// 	const (
	// 		s = ""
	// 		i = 0
	// 	)
	// 	type C[T [unsafe.Sizeof(func() { _ = s[i] })]int] bool

	case *ast.IndexListExpr:
		_ = st.expr(e.X)
		for _, expr := range e.Indices {
			_ = st.expr(expr)
		}

	case *ast.Ellipsis:
		if e.Elt != nil {
			_ = st.expr(e.Elt)
		}

	case *ast.ArrayType:
		if e.Len != nil {
			_ = st.expr(e.Len)
		}
		_ = st.expr(e.Elt)

	case *ast.StructType:
		st.fieldTypes(e.Fields)

	case *ast.FuncType:
		st.fieldTypes(e.TypeParams)
		st.fieldTypes(e.Params)
		st.fieldTypes(e.Results)

	case *ast.InterfaceType:
		st.fieldTypes(e.Methods)

	case *ast.MapType:
		_ = st.expr(e.Key)
		_ = st.expr(e.Value)

	case *ast.ChanType:
		_ = st.expr(e.Value)
	}
	return
}

// toExpr converts the result of visitExpr to a falcon expression.
// (We don't do this in visitExpr as we first need to discriminate
// constants from maybe-constants.)
func (st *falconState) toExpr(x any) ast.Expr {
	switch x := x.(type) {
	case nil:
		return nil

	case types.TypeAndValue:
		lit := makeLiteral(x.Value)
		if !isBasic(x.Type, types.IsUntyped) {
			// convert to "typed" type
			lit = &ast.CallExpr{
				Fun:  makeIdent(st.typename(x.Type)),
				Args: []ast.Expr{lit},
			}
		}
		return lit

	case ast.Expr:
		return x

	default:
		panic(x)
	}
}

func makeLiteral(v constant.Value) ast.Expr {
	switch v.Kind() {
	case constant.Bool:
		// Rather than refer to the true or false built-ins,
		// which could be shadowed by poorly chosen parameter
		// names, we use 0 == 0 for true and 0 != 0 for false.
		op := token.EQL
		if !constant.BoolVal(v) {
			op = token.NEQ
		}
		return &ast.BinaryExpr{
			Op: op,
			X:  makeIntLit(0),
			Y:  makeIntLit(0),
		}

	case constant.String:
		return &ast.BasicLit{
			Kind:  token.STRING,
			Value: v.ExactString(),
		}

	case constant.Int:
		return &ast.BasicLit{
			Kind:  token.INT,
			Value: v.ExactString(),
		}

	case constant.Float:
		return &ast.BasicLit{
			Kind:  token.FLOAT,
			Value: v.ExactString(),
		}

	case constant.Complex:
		// The components could be float or int.
		y := makeLiteral(constant.Imag(v))
		y.(*ast.BasicLit).Value += "i" // ugh
		if re := constant.Real(v); !consteq(re, kZeroInt) {
			// complex: x + yi
			y = &ast.BinaryExpr{
				Op: token.ADD,
				X:  makeLiteral(re),
				Y:  y,
			}
		}
		return y

	default:
		panic(v.Kind())
	}
}

func makeIntLit(x int64) *ast.BasicLit {
	return &ast.BasicLit{
		Kind:  token.INT,
		Value: strconv.FormatInt(x, 10),
	}
}

func isBasic(t types.Type, info types.BasicInfo) bool {
	basic, ok := t.Underlying().(*types.Basic)
	return ok && basic.Info()&info != 0
}
