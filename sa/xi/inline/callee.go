// Copyright 2023 The Go Authors. All rights reserved.
// Use of this source code is governed by a BSD-style
// license that can be found in the LICENSE file.

package inline

// This file defines the analysis of the callee function.

import (
	"bytes"
	"encoding/gob"
	"fmt"
	"go/ast"
	"go/parser"
	"go/token"
	"go/types"
	"strings"

	"golang.org/x/tools/go/types/typeutil"
	"verifsa/xi/typeparams"
	"verifsa/xi/typesinternal"
)

// A Callee holds information about an inlinable function. Gob-serializable.
type Callee struct {
	impl gobCallee
}

func (callee *Callee) String() string { return callee.impl.Name }

type gobCallee struct {
	Content []byte // file content, compacted to a single func decl

	// results of type analysis (does not reach go/types data structures)
	PkgPath          string                 // package path of declaring package
	Name             string                 // user-friendly name for error messages
	Unexported       []string               // names of free objects that are unexported
	FreeRefs         []freeRef              // locations of references to free objects
	FreeObjs         []object               // descriptions of free objects
	ValidForCallStmt bool                   // function body is "return expr" where expr is f() or <-ch
	NumResults       int                    // number of results (according to type, not ast.FieldList)
	Params           []*paramInfo           // information about parameters (incl. receiver)
	Results          []*paramInfo           // information about result variables
	Effects          []int                  // order in which parameters are evaluated (see calleefx)
	HasDefer         bool                   // uses defer
	HasBareReturn    bool                   // uses bare return in non-void function
	Returns          [][]returnOperandFlags // metadata about result expressions for each return
	Labels           []string               // names of all control labels
	Falcon           falconResult           // falcon constraint system
}

// returnOperandFlags records metadata about a single result expression in a return
// statement.
type returnOperandFlags int

const (
	nonTrivialResult returnOperandFlags = 1 << iota // return operand has non-trivial conversion to result type
	untypedNilResult                                // return operand is nil literal
)

// A freeRef records a reference to a free object. Gob-serializable.
// (This means free relative to the FuncDecl as a whole, i.e. excluding parameters.)
type freeRef struct {
	Offset int // byte offset of the reference relative to the FuncDecl
	Object int // index into Callee.freeObjs
}

// An object abstracts a free types.Object referenced by the callee. Gob-serializable.
type object struct {
	Name    string // Object.Name()
	Kind    string // one of {var,func,const,type,pkgname,nil,builtin}
	PkgPath string // path of object's package (or imported package if kind="pkgname")
	PkgName string // name of object's package (or imported package if kind="pkgname")
	// TODO(rfindley): should we also track LocalPkgName here? Do we want to
	// preserve the local package name?
	ValidPos bool      // Object.Pos().IsValid()
	Shadow   shadowMap // shadowing info for the object's refs
}

// AnalyzeCallee analyzes a function that is a candidate for inlining
// and returns a Callee that describes it. The Callee object, which is
// serializable, can be passed to one or more subsequent calls to
// Inline, each with a different Caller.
//
// This design allows separate analysis of callers and callees in the
// golang.org/x/tools/go/analysis framework: the inlining information
// about a callee can be recorded as a "fact".
//
// The content should be the actual input to the compiler, not the
// apparent source file according to any //line directives that
// may be present within it.
func AnalyzeCallee(logf func(string, ...any), fset *token.FileSet, pkg *types.Package, info *types.Info, decl *ast.FuncDecl, content []byte) (*Callee, error) {
	checkInfoFields(info)

	// The client is expected to have determined that the callee
	// is a function with a declaration (not a built-in or var).
	fn := info.Defs[decl.Name].(*types.Func)
	sig := fn.Type().(*types.Signature)

	logf("analyzeCallee %v @ %v", fn, fset.PositionFor(decl.Pos(), false))

	// Create user-friendly name ("pkg.Func" or "(pkg.T).Method")
	var name string
	if sig.Recv() == nil {
		name = fmt.Sprintf("%s.%s", fn.Pkg().Name(), fn.Name())
	} else {
		name = fmt.Sprintf("(%s).%s", types.TypeString(sig.Recv().Type(), (*types.Package).Name), fn.Name())
	}

	if decl.Body == nil {
		return nil, fmt.Errorf("cannot inline function %s as it has no body", name)
	}

	// TODO(adonovan): support inlining of instantiated generic
	// functions by replacing each occurrence of a type parameter
	// T by its instantiating type argument (e.g. int). We'll need
	// to wrap the instantiating type in parens when it's not an
	// ident or qualified ident to prevent "if x == struct{}"
	// parsing ambiguity, or "T(x)" where T = "*int" or "func()"
	// from misparsing.
	if funcHasTypeParams(decl) {
		return nil, fmt.Errorf("cannot inline generic function %s: type parameters are not yet supported", name)
	}

	// Record the location of all free references in the FuncDecl.
	// (Parameters are not free by this definition.)
	var (
		fieldObjs    = fieldObjs(sig)
		freeObjIndex = make(map[types.Object]int)
		freeObjs     []object
		freeRefs     []freeRef // free refs that may need renaming
		unexported   []string  // free refs to unexported objects, for later error checks
	)
	var f func(n ast.Node) bool
	visit := func(n ast.Node) { ast.Inspect(n, f) }
	var stack []ast.Node
	stack = append(stack, decl.Type) // for scope of function itself
	f = func(n ast.Node) bool {
		if n != nil {
			stack = append(stack, n) // push
		} else {
			stack = stack[:len(stack)-1] // pop
		}
		switch n := n.(type) {
		case *ast.SelectorExpr:
			// Check selections of free fields/methods.
			if sel, ok := info.Selections[n]; ok &&
				!within(sel.Obj().Pos(), decl) &&
				!n.Sel.IsExported() {
				sym := fmt.Sprintf("(%s).%s", info.TypeOf(n.X), n.Sel.Name)
				unexported = append(unexported, sym)
			}

			// Don't recur into SelectorExpr.Sel.
			visit(n.X)
			return false

		case *ast.CompositeLit:
			// Check for struct literals that refer to unexported fields,
			// whether keyed or unkeyed. (Logic assumes well-typedness.)
			litType := typeparams.Deref(info.TypeOf(n))
			if s, ok := typeparams.CoreType(litType).(*types.Struct); ok {
				if n.Type != nil {
					visit(n.Type)
				}
				for i, elt := range n.Elts {
					var field *types.Var
					var value ast.Expr
					if kv, ok := elt.(*ast.KeyValueExpr); ok {
						field = info.Uses[kv.Key.(*ast.Ident)].(*types.Var)
						value = kv.Value
					} else {
						field = s.Field(i)
						value = elt
					}
					if !within(field.Pos(), decl) && !field.Exported() {
						sym := fmt.Sprintf("(%s).%s", litType, field.Name())
						unexported = append(unexported, sym)
					}

					// Don't recur into KeyValueExpr.Key.
					visit(value)
				}
				return false
			}

		case *ast.Ident:
			if obj, ok := info.Uses[n]; ok {
				// Methods and fields are handled by SelectorExpr and CompositeLit.
				if isField(obj) || isMethod(obj) {
					panic(obj)
				}
				// Inv: id is a lexical reference.

				// A reference to an unexported package-level declaration
				// cannot be inlined into another package.
				if !n.IsExported() &&
					obj.Pkg() != nil && obj.Parent() == obj.Pkg().Scope() {
					unexported = append(unexported, n.Name)
				}

				// Record free reference (incl. self-reference).
				if obj == fn || !within(obj.Pos(), decl) {
					objidx, ok := freeObjIndex[obj]
					if !ok {
						objidx = len(freeObjIndex)
						var pkgPath, pkgName string
						if pn, ok := obj.(*types.PkgName); ok {
							pkgPath = pn.Imported().Path()
							pkgName = pn.Imported().Name()
						} else if obj.Pkg() != nil {
							pkgPath = obj.Pkg().Path()
							pkgName = obj.Pkg().Name()
						}
						freeObjs = append(freeObjs, object{
							Name:     obj.Name(),
							Kind:     objectKind(obj),
							PkgName:  pkgName,
							PkgPath:  pkgPath,
							ValidPos: obj.Pos().IsValid(),
						})
						freeObjIndex[obj] = objidx
					}

					freeObjs[objidx].Shadow = freeObjs[objidx].Shadow.add(info, fieldObjs, obj.Name(), stack)

					freeRefs = append(freeRefs, freeRef{
						Offset: int(n.Pos() - decl.Pos()),
						Object: objidx,
					})
				}
			}
		}
		return true
	}
	visit(decl)

	// Analyze callee body for "return expr" form,
	// where expr is f() or <-ch. These forms are
	// safe to inline as a standalone statement.
	validForCallStmt := false
	if len(decl.Body.List) != 1 {
		// not just a return statement
	} else if ret, ok := decl.Body.List[0].(*ast.ReturnStmt); ok && len(ret.Results) == 1 {
		validForCallStmt = func() bool {
			switch expr := ast.Unparen(ret.Results[0]).(type) {
			case *ast.CallExpr: // f(x)
				callee := typeutil.Callee(info, expr)
				if callee == nil {
					return false // conversion T(x)
				}

				// The only non-void built-in functions that may be
				// called as a statement are copy and recover
				// (though arguably a call to recover should never
				// be inlined as that changes its behavior).
				if builtin, ok := callee.(*types.Builtin); ok {
					return builtin.Name() == "copy" ||
						builtin.Name() == "recover"
				}

				return true // ordinary call f()

			case *ast.UnaryExpr: // <-x
				return expr.Op == token.ARROW // channel receive <-ch
			}

			// No other expressions are valid statements.
			return false
		}()
	}

	// Record information about control flow in the callee
	// (but not any nested functions).
	var (
		hasDefer      = false
		hasBareReturn = false
		returnInfo    [][]returnOperandFlags
		labels        []string
	)
	ast.Inspect(decl.Body, func(n ast.Node) bool {
		switch n := n.(type) {
		case *ast.FuncLit:
			return false // prune traversal
		case *ast.DeferStmt:
			hasDefer = true
		case *ast.LabeledStmt:
			labels = append(labels, n.Label.Name)
		case *ast.ReturnStmt:

			// Are implicit assignment conversions
			// to result variables all trivial?
			var resultInfo []returnOperandFlags
			if len(n.Results) > 0 {
				argInfo := func(i int) (ast.Expr, types.Type) {
					expr := n.Results[i]
					return expr, info.TypeOf(expr)
				}
				if len(n.Results) == 1 && sig.Results().Len() > 1 {
					// Spread return: return f() where f.Results > 1.
					tuple := info.TypeOf(n.Results[0]).(*types.Tuple)
					argInfo = func(i int) (ast.Expr, types.Type) {
						return nil, tuple.At(i).Type()
					}
				}
				for i := 0; i < sig.Results().Len(); i++ {
					expr, typ := argInfo(i)
					var flags returnOperandFlags
					if typ == types.Typ[types.UntypedNil] { // untyped nil is preserved by go/types
						flags |= untypedNilResult
					}
					if !trivialConversion(info.Types[expr].Value, typ, sig.Results().At(i).Type()) {
						flags |= nonTrivialResult
					}
					resultInfo = append(resultInfo, flags)
				}
			} else if sig.Results().Len() > 0 {
				hasBareReturn = true
			}
			returnInfo = append(returnInfo, resultInfo)
		}
		return true
	})

	// Reject attempts to inline cgo-generated functions.
	for _, obj := range freeObjs {
		// There are others (iconst fconst sconst fpvar macro)
		// but this is probably sufficient.
		if strings.HasPrefix(obj.Name, "_Cfunc_") ||
			strings.HasPrefix(obj.Name, "_Ctype_") ||
			strings.HasPrefix(obj.Name, "_Cvar_") {
			return nil, fmt.Errorf("cannot inline cgo-generated functions")
		}
	}

	// Compact content to just the FuncDecl.
	//
	// As a space optimization, we don't retain the complete
	// callee file content; all we need is "package _; func f() { ... }".
	// This reduces the size of analysis facts.
	//
	// Offsets in the callee information are "relocatable"
	// since they are all relative to the FuncDecl.

	content = append([]byte("package _\n"),
		content[offsetOf(fset, decl.Pos()):offsetOf(fset, decl.End())]...)
	// Sanity check: re-parse the compacted content.
	if _, _, err := parseCompact(content); err != nil {
		return nil, err
	}

	params, results, effects, falcon := analyzeParams(logf, fset, info, decl)
	return &Callee{gobCallee{
		Content:          content,
		PkgPath:          pkg.Path(),
		Name:             name,
		Unexported:       unexported,
		FreeObjs:         freeObjs,
		FreeRefs:         freeRefs,
		ValidForCallStmt: validForCallStmt,
		NumResults:       sig.Results().Len(),
		Params:           params,
		Results:          results,
		Effects:          effects,
		HasDefer:         hasDefer,
		HasBareReturn:    hasBareReturn,
		Returns:          returnInfo,
		Labels:           labels,
		Falcon:           falcon,
	}}, nil
}

// parseCompact parses a Go source file of the form "package _\n func f() { ... }"
// and returns the sole function declaration.
func parseCompact(content []byte) (*token.FileSet, *ast.FuncDecl, error) {
	fset := token.NewFileSet()
	const mode = parser.ParseComments | parser.SkipObjectResolution | parser.AllErrors
	f, err := parser.ParseFile(fset, "callee.go", content, mode)
	if err != nil {
		return nil, nil, fmt.Errorf("internal error: cannot compact file: %v", err)
	}
	return fset, f.Decls[0].(*ast.FuncDecl), nil
}

// A paramInfo records information about a callee receiver, parameter, or result variable.
type paramInfo struct {
	Name        string    // parameter name (may be blank, or even "")
	Index       int       // index within signature
	IsResult    bool      // false for receiver or parameter, true for result variable
	IsInterface bool      // parameter has a (non-type parameter) interface type
	Assigned    bool      // parameter appears on left side of an assignment statement
	Escapes     bool      // parameter has its address taken
	Refs        []refInfo // information about references to parameter within body
	Shadow      shadowMap // shadowing info for the above refs; see [shadowMap]
	FalconType  string    // name of this parameter's type (if basic) in the falcon system
}

type refInfo struct {
	Offset           int  // FuncDecl-relative byte offset of parameter ref within body
	Assignable       bool // ref appears in context of assignment to known type
	IfaceAssignment  bool // ref is being assigned to an interface
	AffectsInference bool // ref type may affect type inference
	// IsSelectionOperand indicates whether the parameter reference is the
	// operand of a selection (param.f). If so, and param's argument is itself
	// a receiver parameter (a common case), we don't need to desugar (&v or *ptr)
	// the selection: if param.Method is a valid selection, then so is param.fieldOrMethod.
	IsSelectionOperand bool
	// (verif) InFuncLit: the reference lies inside a function literal of the callee: it is evaluated when
	// the literal runs, not when the call is made.
	InFuncLit bool
}

// analyzeParams computes information about parameters of function fn,
// including a simple "address taken" escape analysis.
//
// It returns two new arrays, one of the receiver and parameters, and
// the other of the result variables of function fn.
//
// The input must be well-typed.
func analyzeParams(logf func(string, ...any), fset *token.FileSet, info *types.Info, decl *ast.FuncDecl) (params, results []*paramInfo, effects []int, _ falconResult) {
	fnobj, ok := info.Defs[decl.Name]
	if !ok {
		panic(fmt.Sprintf("%s: no func object for %q",
			fset.PositionFor(decl.Name.Pos(), false), decl.Name)) // ill-typed?
	}
	sig := fnobj.Type().(*types.Signature)

	paramInfos := make(map[*types.Var]*paramInfo)
	{
		newParamInfo := func(param *types.Var, isResult bool) *paramInfo {
			info := &paramInfo{
				Name:        param.Name(),
				IsResult:    isResult,
				Index:       len(paramInfos),
				IsInterface: isNonTypeParamInterface(param.Type()),
			}
			paramInfos[param] = info
			return info
		}
		if sig.Recv() != nil {
			params = append(params, newParamInfo(sig.Recv(), false))
		}
		for i := 0; i < sig.Params().Len(); i++ {
			params = append(params, newParamInfo(sig.Params().At(i), false))
		}
		for i := 0; i < sig.Results().Len(); i++ {
			results = append(results, newParamInfo(sig.Results().At(i), true))
		}
	}

	// Search function body for operations &x, x.f(), and x = y
	// where x is a parameter, and record it.
	escape(info, decl, func(v *types.Var, escapes bool) {
		if info := paramInfos[v]; info != nil {
			if escapes {
				info.Escapes = true
			} else {
				info.Assigned = true
			}
		}
	})

	// Record locations of all references to parameters.
	// And record the set of intervening definitions for each parameter.
	//
	// TODO(adonovan): combine this traversal with the one that computes
	// FreeRefs. The tricky part is that calleefx needs this one first.
	fieldObjs := fieldObjs(sig)
	var stack []ast.Node
	stack = append(stack, decl.Type) // for scope of function itself
	ast.Inspect(decl.Body, func(n ast.Node) bool {
		if n != nil {
			stack = append(stack, n) // push
		} else {
			stack = stack[:len(stack)-1] // pop
		}

		if id, ok := n.(*ast.Ident); ok {
			if v, ok := info.Uses[id].(*types.Var); ok {
				if pinfo, ok := paramInfos[v]; ok {
					// Record ref information, and any intervening (shadowing) names.
					//
					// If the parameter v has an interface type, and the reference id
					// appears in a context where assignability rules apply, there may be
					// an implicit interface-to-interface widening. In that case it is
					// not necessary to insert an explicit conversion from the argument
					// to the parameter's type.
					//
					// Contrapositively, if param is not an interface type, then the
					// assignment may lose type information, for example in the case that
					// the substituted expression is an untyped constant or unnamed type.
					assignable, ifaceAssign, affectsInference := analyzeAssignment(info, stack)
					ref := refInfo{
						Offset:             int(n.Pos() - decl.Pos()),
						Assignable:         assignable,
						IfaceAssignment:    ifaceAssign,
						AffectsInference:   affectsInference,
						IsSelectionOperand: isSelectionOperand(stack),
					}
					for _, anc := range stack {
						if _, isLit := anc.(*ast.FuncLit); isLit {
							ref.InFuncLit = true
						}
					}
					pinfo.Refs = append(pinfo.Refs, ref)
					pinfo.Shadow = pinfo.Shadow.add(info, fieldObjs, pinfo.Name, stack)
				}
			}
		}
		return true
	})

	// Compute subset and order of parameters that are strictly evaluated.
	// (Depends on Refs computed above.)
	effects = calleefx(info, decl.Body, paramInfos)
	logf("effects list = %v", effects)

	falcon := falcon(logf, fset, paramInfos, info, decl)

	return params, results, effects, falcon
}

// -- callee helpers --

// analyzeAssignment looks at the the given stack, and analyzes certain
// attributes of the innermost expression.
//
// In all cases we 'fail closed' when we cannot detect (or for simplicity
// choose not to detect) the condition in question, meaning we err on the side
// of the more restrictive rule. This is noted for each result below.
//
//   - assignable reports whether the expression is used in a position where
//     assignability rules apply, such as in an actual assignment, as call
//     argument, or in a send to a channel. Defaults to 'false'. If assignable
//     is false, the other two results are irrelevant.
//   - ifaceAssign reports whether that assignment is to an interface type.
//     This is important as we want to preserve the concrete type in that
//     assignment. Defaults to 'true'. Notably, if the assigned type is a type
//     parameter, we assume that it could have interface type.
//   - affectsInference is (somewhat vaguely) defined as whether or not the
//     type of the operand may affect the type of the surrounding syntax,
//     through type inference. It is infeasible to completely reverse engineer
//     type inference, so we over approximate: if the expression is an argument
//     to a call to a generic function (but not method!) that uses type
//     parameters, assume that unification of that argument may affect the
//     inferred types.
func analyzeAssignment(info *types.Info, stack []ast.Node) (assignable, ifaceAssign, affectsInference bool) {
	remaining, parent, expr := exprContext(stack)
	if parent == nil {
		return false, false, false
	}

	// TODO(golang/go#70638): simplify when types.Info records implicit conversions.

	// Types do not need to match for assignment to a variable.
	if assign, ok := parent.(*ast.AssignStmt); ok {
		for i, v := range assign.Rhs {
			if v == expr {
				if i >= len(assign.Lhs) {
					return false, false, false // ill typed
				}
				// Check to see if the assignment is to an interface type.
				if i < len(assign.Lhs) {
					// TODO: We could handle spread calls here, but in current usage expr
					// is an ident.
					if id, _ := assign.Lhs[i].(*ast.Ident); id != nil && info.Defs[id] != nil {
						// Types must match for a defining identifier in a short variable
						// declaration.
						return false, false, false
					}
					// In all other cases, types should be known.
					typ := info.TypeOf(assign.Lhs[i])
					return true, typ == nil || types.IsInterface(typ), false
				}
				// Default:
				return assign.Tok == token.ASSIGN, true, false
			}
		}
	}

	// Types do not need to match for an initializer with known type.
	if spec, ok := parent.(*ast.ValueSpec); ok && spec.Type != nil {
		for _, v := range spec.Values {
			if v == expr {
				typ := info.TypeOf(spec.Type)
				return true, typ == nil || types.IsInterface(typ), false
			}
		}
	}

	// Types do not need to match for index expresions.
	if ix, ok := parent.(*ast.IndexExpr); ok {
		if ix.Index == expr {
			typ := info.TypeOf(ix.X)
			if typ == nil {
				return true, true, false
			}
			m, _ := typeparams.CoreType(typ).(*types.Map)
			return true, m == nil || types.IsInterface(m.Key()), false
		}
	}

	// Types do not need to match for composite literal keys, values, or
	// fields.
	if kv, ok := parent.(*ast.KeyValueExpr); ok {
		var under types.Type
		if len(remaining) > 0 {
			if complit, ok := remaining[len(remaining)-1].(*ast.CompositeLit); ok {
				if typ := info.TypeOf(complit); typ != nil {
					// Unpointer to allow for pointers to slices or arrays, which are
					// permitted as the types of nested composite literals without a type
					// name.
					under = typesinternal.Unpointer(typeparams.CoreType(typ))
				}
			}
		}
		if kv.Key == expr { // M{expr: ...}: assign to map key
			m, _ := under.(*types.Map)
			return true, m == nil || types.IsInterface(m.Key()), false
		}
		if kv.Value == expr {
			switch under := under.(type) {
			case interface{ Elem() types.Type }: // T{...: expr}: assign to map/array/slice element
				return true, types.IsInterface(under.Elem()), false
			case *types.Struct: // Struct{k: expr}
				if id, _ := kv.Key.(*ast.Ident); id != nil {
					for fi := 0; fi < under.NumFields(); fi++ {
						field := under.Field(fi)
						if info.Uses[id] == field {
							return true, types.IsInterface(field.Type()), false
						}
					}
				}
			default:
				return true, true, false
			}
		}
	}
	if lit, ok := parent.(*ast.CompositeLit); ok {
		for i, v := range lit.Elts {
			if v == expr {
				typ := info.TypeOf(lit)
				if typ == nil {
					return true, true, false
				}
				// As in the KeyValueExpr case above, unpointer to handle pointers to
				// array/slice literals.
				under := typesinternal.Unpointer(typeparams.CoreType(typ))
				switch under := under.(type) {
				case interface{ Elem() types.Type }: // T{expr}: assign to map/array/slice element
					return true, types.IsInterface(under.Elem()), false
				case *types.Struct: // Struct{expr}: assign to unkeyed struct field
					if i < under.NumFields() {
						return true, types.IsInterface(under.Field(i).Type()), false
					}
				}
				return true, true, false
			}
		}
	}

	// Types do not need to match for values sent to a channel.
	if send, ok := parent.(*ast.SendStmt); ok {
		if send.Value == expr {
			typ := info.TypeOf(send.Chan)
			if typ == nil {
				return true, true, false
			}
			ch, _ := typeparams.CoreType(typ).(*types.Chan)
			return true, ch == nil || types.IsInterface(ch.Elem()), false
		}
	}

	// Types do not need to match for an argument to a call, unless the
	// corresponding parameter has type parameters, as in that case the
	// argument type may affect inference.
	if call, ok := parent.(*ast.CallExpr); ok {
		if _, ok := isConversion(info, call); ok {
			return false, false, false // redundant conversions are handled at the call site
		}
		// Ordinary call. Could be a call of a func, builtin, or function value.
		for i, arg := range call.Args {
			if arg == expr {
				typ := info.TypeOf(call.Fun)
				if typ == nil {
					return true, true, false
				}
				sig, _ := typeparams.CoreType(typ).(*types.Signature)
				if sig != nil {
					// Find the relevant parameter type, accounting for variadics.
					paramType := paramTypeAtIndex(sig, call, i)
					ifaceAssign := paramType == nil || types.IsInterface(paramType)
					affectsInference := false
					if fn := typeutil.StaticCallee(info, call); fn != nil {
						if sig2 := fn.Type().(*types.Signature); sig2.Recv() == nil {
							originParamType := paramTypeAtIndex(sig2, call, i)
							affectsInference = originParamType == nil || new(typeparams.Free).Has(originParamType)
						}
					}
					return true, ifaceAssign, affectsInference
				}
			}
		}
	}

	return false, false, false
}

// paramTypeAtIndex returns the effective parameter type at the given argument
// index in call, if valid.
func paramTypeAtIndex(sig *types.Signature, call *ast.CallExpr, index int) types.Type {
	if plen := sig.Params().Len(); sig.Variadic() && index >= plen-1 && !call.Ellipsis.IsValid() {
		if s, ok := sig.Params().At(plen - 1).Type().(*types.Slice); ok {
			return s.Elem()
		}
	} else if index < plen {
		return sig.Params().At(index).Type()
	}
	return nil // ill typed
}

// exprContext returns the innermost parent->child expression nodes for the
// given outer-to-inner stack, after stripping parentheses, along with the
// remaining stack up to the parent node.
//
// If no such context exists, returns (nil, nil).
func exprContext(stack []ast.Node) (remaining []ast.Node, parent ast.Node, expr ast.Expr) {
	expr, _ = stack[len(stack)-1].(ast.Expr)
	if expr == nil {
		return nil, nil, nil
	}
	i := len(stack) - 2
	for ; i >= 0; i-- {
		if pexpr, ok := stack[i].(*ast.ParenExpr); ok {
			expr = pexpr
		} else {
			parent = stack[i]
			break
		}
	}
	if parent == nil {
		return nil, nil, nil
	}
	// inv: i is the index of parent in the stack.
	return stack[:i], parent, expr
}

// isSelectionOperand reports whether the innermost node of stack is operand
// (x) of a selection x.f.
func isSelectionOperand(stack []ast.Node) bool {
	_, parent, expr := exprContext(stack)
	if parent == nil {
		return false
	}
	sel, ok := parent.(*ast.SelectorExpr)
	return ok && sel.X == expr
}

// A shadowMap records information about shadowing at any of the parameter's
// references within the callee decl.
//
// For each name shadowed at a reference to the parameter within the callee
// body, shadow map records the 1-based index of the callee decl parameter
// causing the shadowing, or -1, if the shadowing is not due to a callee decl.
// A value of zero (or missing) indicates no shadowing. By convention,
// self-shadowing is excluded from the map.
//
// For example, in the following callee
//
//	func f(a, b int) int {
//		c := 2 + b
//		return a + c
//	}
//
// the shadow map of a is {b: 2, c: -1}, because b is shadowed by the 2nd
// parameter. The shadow map of b is {a: 1}, because c is not shadowed at the
// use of b.
type shadowMap map[string]int

// add returns the [shadowMap] augmented by the set of names
// locally shadowed at the location of the reference in the callee
// (identified by the stack). The name of the reference itself is
// excluded.
//
// These shadowed names may not be used in a replacement expression
// for the reference.
func (s shadowMap) add(info *types.Info, paramIndexes map[types.Object]int, exclude string, stack []ast.Node) shadowMap {
	for _, n := range stack {
		if scope := scopeFor(info, n); scope != nil {
			for _, name := range scope.Names() {
				if name != exclude {
					if s == nil {
						s = make(shadowMap)
					}
					obj := scope.Lookup(name)
					if idx, ok := paramIndexes[obj]; ok {
						s[name] = idx + 1
					} else {
						s[name] = -1
					}
				}
			}
		}
	}
	return s
}

// fieldObjs returns a map of each types.Object defined by the given signature
// to its index in the parameter list. Parameters with missing or blank name
// are skipped.
func fieldObjs(sig *types.Signature) map[types.Object]int {
	m := make(map[types.Object]int)
	for i := range sig.Params().Len() {
		if p := sig.Params().At(i); p.Name() != "" && p.Name() != "_" {
			m[p] = i
		}
	}
	return m
}

func isField(obj types.Object) bool {
	if v, ok := obj.(*types.Var); ok && v.IsField() {
		return true
	}
	return false
}

func isMethod(obj types.Object) bool {
	if f, ok := obj.(*types.Func); ok && f.Type().(*types.Signature).Recv() != nil {
		return true
	}
	return false
}

// -- serialization --

var (
	_ gob.GobEncoder = (*Callee)(nil)
	_ gob.GobDecoder = (*Callee)(nil)
)

func (callee *Callee) GobEncode() ([]byte, error) {
	var out bytes.Buffer
	if err := gob.NewEncoder(&out).Encode(callee.impl); err != nil {
		return nil, err
	}
	return out.Bytes(), nil
}

func (callee *Callee) GobDecode(data []byte) error {
	return gob.NewDecoder(bytes.NewReader(data)).Decode(&callee.impl)
}
