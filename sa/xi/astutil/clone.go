// Copyright 2023 The Go Authors. All rights reserved.
// Use of this source code is governed by a BSD-style
// license that can be found in the LICENSE file.

package astutil

import (
	"go/ast"
	"reflect"
)

// CloneNode returns a deep copy of a Node.
// It omits pointers to ast.{Scope,Object} variables.
func CloneNode[T ast.Node](n T) T {
	return cloneNode(n).(T)
}

func cloneNode(n ast.Node) ast.Node {
	var clone func(x reflect.Value) reflect.Value
	set := func(dst, src reflect.Value) {
		src = clone(src)
		if src.IsValid() {
			dst.Set(src)
		}
	}
	clone = func(x reflect.Value) reflect.Value {
		switch x.Kind() {
		case reflect.Ptr:
			if x.IsNil() {
				return x
			}
			// Skip fields of types potentially involved in cycles.
			switch x.Interface().(type) {
			case *ast.Object, *ast.Scope:
				return reflect.Zero(x.Type())
			}
			y := reflect.New(x.Type().Elem())
			set(y.Elem(), x.Elem())
			return y

		case reflect.Struct:
			y := reflect.New(x.Type()).Elem()
			for i := 0; i < x.Type().NumField(); i++ {
				set(y.Field(i), x.Field(i))
			}
			return y

		case reflect.Slice:
			if x.IsNil() {
				return x
			}
			y := reflect.MakeSlice(x.Type(), x.Len(), x.Cap())
			for i := 0; i < x.Len(); i++ {
				set(y.Index(i), x.Index(i))
			}
			return y

		case reflect.Interface:
			y := reflect.New(x.Type()).Elem()
			set(y, x.Elem())
			return y

		case reflect.Array, reflect.Chan, reflect.Func, reflect.Map, reflect.UnsafePointer:
			panic(x) // unreachable in AST

		default:
			return x // bool, string, number
		}
	}
	return clone(reflect.ValueOf(n)).Interface().(ast.Node)
}
