// Copyright 2023 The Go Authors. All rights reserved.
// Use of this source code is governed by a BSD-style
// license that can be found in the LICENSE file.

package versions

import (
	"strings"
)

// Note: If we use build tags to use go/versions when go >=1.22,
// we run into go.dev/issue/53737. Under some operations users would see an
// import of "go/versions" even if they would not compile the file.
// For example, during `go get -u ./...` (go.dev/issue/64490) we do not try to include
// For this reason, this library just a clone of go/versions for the moment.

// Lang returns the Go language version for version x.
// If x is not a valid version, Lang returns the empty string.
// For example:
//
//	Lang("go1.21rc2") = "go1.21"
//	Lang("go1.21.2") = "go1.21"
//	Lang("go1.21") = "go1.21"
//	Lang("go1") = "go1"
//	Lang("bad") = ""
//	Lang("1.21") = ""
func Lang(x string) string {
	v := lang(stripGo(x))
	if v == "" {
		return ""
	}
	return x[:2+len(v)] // "go"+v without allocation
}

// Compare returns -1, 0, or +1 depending on whether
// x < y, x == y, or x > y, interpreted as Go versions.
// The versions x and y must begin with a "go" prefix: "go1.21" not "1.21".
// Invalid versions, including the empty string, compare less than
// valid versions and equal to each other.
// The language version "go1.21" compares less than the
// release candidate and eventual releases "go1.21rc1" and "go1.21.0".
// Custom toolchain suffixes are ignored during comparison:
// "go1.21.0" and "go1.21.0-bigcorp" are equal.
func Compare(x, y string) int { return compare(stripGo(x), stripGo(y)) }

// IsValid reports whether the version x is valid.
func IsValid(x string) bool { return isValid(stripGo(x)) }

// stripGo converts from a "go1.21" version to a "1.21" version.
// If v does not start with "go", stripGo returns the empty string (a known invalid version).
func stripGo(v string) string {
	v, _, _ = strings.Cut(v, "-") // strip -bigcorp suffix.
	if len(v) < 2 || v[:2] != "go" {
		return ""
	}
	return v[2:]
}
