// Copyright 2023 The Go Authors. All rights reserved.
// Use of this source code is governed by a BSD-style
// license that can be found in the LICENSE file.

package versions

import (
	"go/ast"
	"go/types"
)

// FileVersion returns a file's Go version.
// The reported version is an unknown Future version if a
// version cannot be determined.
func FileVersion(info *types.Info, file *ast.File) string {
	// In tools built with Go >= 1.22, the Go version of a file
	// follow a cascades of sources:
	// 1) types.Info.FileVersion, which follows the cascade:
	//   1.a) file version (ast.File.GoVersion),
	//   1.b) the package version (types.Config.GoVersion), or
	// 2) is some unknown Future version.
	//
	// File versions require a valid package version to be provided to types
	// in Config.GoVersion. Config.GoVersion is either from the package's module
	// or the toolchain (go run). This value should be provided by go/packages
	// or unitchecker.Config.GoVersion.
	if v := info.FileVersions[file]; IsValid(v) {
		return v
	}
	// Note: we could instead return runtime.Version() [if valid].
	// This would act as a max version on what a tool can support.
	return Future
}
