// Copyright 2023 The Go Authors. All rights reserved.
// Use of this source code is governed by a BSD-style
// license that can be found in the LICENSE file.

// This is a fork of internal/gover for use by x/tools until
// go1.21 and earlier are no longer supported by x/tools.

package versions

import "strings"

// A gover is a parsed Go gover: major[.Minor[.Patch]][kind[pre]]
// The numbers are the original decimal strings to avoid integer overflows
// and since there is very little actual math. (Probably overflow doesn't matter in practice,
// but at the time this code was written, there was an existing test that used
// go1.99999999999, which does not fit in an int on 32-bit platforms.
// The "big decimal" representation avoids the problem entirely.)
type gover struct {
	major string // decimal
	minor string // decimal or ""
	patch string // decimal or ""
	kind  string // "", "alpha", "beta", "rc"
	pre   string // decimal or ""
}

// compare returns -1, 0, or +1 depending on whether
// x < y, x == y, or x > y, interpreted as toolchain versions.
// The versions x and y must not begin with a "go" prefix: just "1.21" not "go1.21".
// Malformed versions compare less than well-formed versions and equal to each other.
// The language version "1.21" compares less than the release candidate and eventual releases "1.21rc1" and "1.21.0".
func compare(x, y string) int {
	vx := parse(x)
	vy := parse(y)

	if c := cmpInt(vx.major, vy.major); c != 0 {
		return c
	}
	if c := cmpInt(vx.minor, vy.minor); c != 0 {
		return c
	}
	if c := cmpInt(vx.patch, vy.patch); c != 0 {
		return c
	}
	if c := strings.Compare(vx.kind, vy.kind); c != 0 { // "" < alpha < beta < rc
		return c
	}
	if c := cmpInt(vx.pre, vy.pre); c != 0 {
		return c
	}
	return 0
}

// lang returns the Go language version. For example, lang("1.2.3") == "1.2".
func lang(x string) string {
	v := parse(x)
	if v.minor == "" || v.major == "1" && v.minor == "0" {
		return v.major
	}
	return v.major + "." + v.minor
}

// isValid reports whether the version x is valid.
func isValid(x string) bool {
	return parse(x) != gover{}
}

// parse parses the Go version string x into a version.
// It returns the zero version if x is malformed.
func parse(x string) gover {
	var v gover

	// Parse major version.
	var ok bool
	v.major, x, ok = cutInt(x)
	if !ok {
		return gover{}
	}
	if x == "" {
		// Interpret "1" as "1.0.0".
		v.minor = "0"
		v.patch = "0"
		return v
	}

	// Parse . before minor version.
	if x[0] != '.' {
		return gover{}
	}

	// Parse minor version.
	v.minor, x, ok = cutInt(x[1:])
	if !ok {
		return gover{}
	}
	if x == "" {
		// Patch missing is same as "0" for older versions.
		// Starting in Go 1.21, patch missing is different from explicit .0.
		if cmpInt(v.minor, "21") < 0 {
			v.patch = "0"
		}
		return v
	}

	// Parse patch if present.
	if x[0] == '.' {
		v.patch, x, ok = cutInt(x[1:])
		if !ok || x != "" {
			// Note that we are disallowing prereleases (alpha, beta, rc) for patch releases here (x != "").
			// Allowing them would be a bit confusing because we already have:
			//	1.21 < 1.21rc1
			// But a prerelease of a patch would have the opposite effect:
			//	1.21.3rc1 < 1.21.3
			// We've never needed them before, so let's not start now.
			return gover{}
		}
		return v
	}

	// Parse prerelease.
	i := 0
	for i < len(x) && (x[i] < '0' || '9' < x[i]) {
		if x[i] < 'a' || 'z' < x[i] {
			return gover{}
		}
		i++
	}
	if i == 0 {
		return gover{}
	}
	v.kind, x = x[:i], x[i:]
	if x == "" {
		return v
	}
	v.pre, x, ok = cutInt(x)
	if !ok || x != "" {
		return gover{}
	}

	return v
}

// cutInt scans the leading decimal number at the start of x to an integer
// and returns that value and the rest of the string.
func cutInt(x string) (n, rest string, ok bool) {
	i := 0
	for i < len(x) && '0' <= x[i] && x[i] <= '9' {
		i++
	}
	if i == 0 || x[0] == '0' && i != 1 { // no digits or unnecessary leading zero
		return "", "", false
	}
	return x[:i], x[i:], true
}

// cmpInt returns cmp.Compare(x, y) interpreting x and y as decimal numbers.
// (Copied from golang.org/x/mod/semver's compareInt.)
func cmpInt(x, y string) int {
	if x == y {
		return 0
	}
	if len(x) < len(y) {
		return -1
	}
	if len(x) > len(y) {
		return +1
	}
	if x < y {
		return -1
	} else {
		return +1
	}
}
