// Copyright 2023 The Go Authors. All rights reserved.
// Use of this source code is governed by a BSD-style
// license that can be found in the LICENSE file.

package versions

// This file contains predicates for working with file versions to
// decide when a tool should consider a language feature enabled.

// GoVersions that features in x/tools can be gated to.
const (
	Go1_18 = "go1.18"
	Go1_19 = "go1.19"
	Go1_20 = "go1.20"
	Go1_21 = "go1.21"
	Go1_22 = "go1.22"
)

// Future is an invalid unknown Go version sometime in the future.
// Do not use directly with Compare.
const Future = ""

// AtLeast reports whether the file version v comes after a Go release.
//
// Use this predicate to enable a behavior once a certain Go release
// has happened (and stays enabled in the future).
func AtLeast(v, release string) bool {
	if v == Future {
		return true // an unknown future version is always after y.
	}
	return Compare(Lang(v), Lang(release)) >= 0
}

// Before reports whether the file version v is strictly before a Go release.
//
// Use this predicate to disable a behavior once a certain Go release
// has happened (and stays enabled in the future).
func Before(v, release string) bool {
	if v == Future {
		return false // an unknown future version happens after y.
	}
	return Compare(Lang(v), Lang(release)) < 0
}
