// Copyright 2024 The Go Authors. All rights reserved.
// Use of this source code is governed by a BSD-style
// license that can be found in the LICENSE file.

package typesinternal

import (
	"go/types"
)

// ReceiverNamed returns the named type (if any) associated with the
// type of recv, which may be of the form N or *N, or aliases thereof.
// It also reports whether a Pointer was present.
//
// The named result may be nil in ill-typed code.
func ReceiverNamed(recv *types.Var) (isPtr bool, named *types.Named) {
	t := recv.Type()
	if ptr, ok := types.Unalias(t).(*types.Pointer); ok {
		isPtr = true
		t = ptr.Elem()
	}
	named, _ = types.Unalias(t).(*types.Named)
	return
}

// Unpointer returns T given *T or an alias thereof.
// For all other types it is the identity function.
// It does not look at underlying types.
// The result may be an alias.
//
// Use this function to strip off the optional pointer on a receiver
// in a field or method selection, without losing the named type
// (which is needed to compute the method set).
//
// See also [typeparams.MustDeref], which removes one level of
// indirection from the type, regardless of named types (analogous to
// a LOAD instruction).
func Unpointer(t types.Type) types.Type {
	if ptr, ok := types.Unalias(t).(*types.Pointer); ok {
		return ptr.Elem()
	}
	return t
}
