// Copyright 2024 The Go Authors. All rights reserved.
// Use of this source code is governed by a BSD-style
// license that can be found in the LICENSE file.

package typesinternal

import (
	"fmt"
	"go/ast"
	"go/token"
	"go/types"
	"strings"
)

// ZeroString returns the string representation of the zero value for any type t.
// The boolean result indicates whether the type is or contains an invalid type
// or a non-basic (constraint) interface type.
//
// Even for invalid input types, ZeroString may return a partially correct
// string representation. The caller should use the returned isValid boolean
// to determine the validity of the expression.
//
// When assigning to a wider type (such as 'any'), it's the caller's
// responsibility to handle any necessary type conversions.
//
// This string can be used on the right-hand side of an assignment where the
// left-hand side has that explicit type.
// References to named types are qualified by an appropriate (optional)
// qualifier function.
// Exception: This does not apply to tuples. Their string representation is
// informational only and cannot be used in an assignment.
//
// See [ZeroExpr] for a variant that returns an [ast.Expr].
func ZeroString(t types.Type, qual types.Qualifier) (_ string, isValid bool) {
	switch t := t.(type) {
	case *types.Basic:
		switch {
		case t.Info()&types.IsBoolean != 0:
			return "false", true
		case t.Info()&types.IsNumeric != 0:
			return "0", true
		case t.Info()&types.IsString != 0:
			return `""`, true
		case t.Kind() == types.UnsafePointer:
			fallthrough
		case t.Kind() == types.UntypedNil:
			return "nil", true
		case t.Kind() == types.Invalid:
			return "invalid", false
		default:
			panic(fmt.Sprintf("ZeroString for unexpected type %v", t))
		}

	case *types.Pointer, *types.Slice, *types.Chan, *types.Map, *types.Signature:
		return "nil", true

	case *types.Interface:
		if !t.IsMethodSet() {
			return "invalid", false
		}
		return "nil", true

	case *types.Named:
		switch under := t.Underlying().(type) {
		case *types.Struct, *types.Array:
			return types.TypeString(t, qual) + "{}", true
		default:
			return ZeroString(under, qual)
		}

	case *types.Alias:
		switch t.Underlying().(type) {
		case *types.Struct, *types.Array:
			return types.TypeString(t, qual) + "{}", true
		default:
			// A type parameter can have alias but alias type's underlying type
			// can never be a type parameter.
			// Use types.Unalias to preserve the info of type parameter instead
			// of call Underlying() going right through and get the underlying
			// type of the type parameter which is always an interface.
			return ZeroString(types.Unalias(t), qual)
		}

	case *types.Array, *types.Struct:
		return types.TypeString(t, qual) + "{}", true

	case *types.TypeParam:
		// Assumes func new is not shadowed.
		return "*new(" + types.TypeString(t, qual) + ")", true

	case *types.Tuple:
		// Tuples are not normal values.
		// We are currently format as "(t[0], ..., t[n])". Could be something else.
		isValid := true
		components := make([]string, t.Len())
		for i := 0; i < t.Len(); i++ {
			comp, ok := ZeroString(t.At(i).Type(), qual)

			components[i] = comp
			isValid = isValid && ok
		}
		return "(" + strings.Join(components, ", ") + ")", isValid

	case *types.Union:
		// Variables of these types cannot be created, so it makes
		// no sense to ask for their zero value.
		panic(fmt.Sprintf("invalid type for a variable: %v", t))

	default:
		panic(t) // unreachable.
	}
}

// ZeroExpr returns the ast.Expr representation of the zero value for any type t.
// The boolean result indicates whether the type is or contains an invalid type
// or a non-basic (constraint) interface type.
//
// Even for invalid input types, ZeroExpr may return a partially correct ast.Expr
// representation. The caller should use the returned isValid boolean to determine
// the validity of the expression.
//
// This function is designed for types suitable for variables and should not be
// used with Tuple or Union types.References to named types are qualified by an
// appropriate (optional) qualifier function.
//
// See [ZeroString] for a variant that returns a string.
func ZeroExpr(t types.Type, qual types.Qualifier) (_ ast.Expr, isValid bool) {
	switch t := t.(type) {
	case *types.Basic:
		switch {
		case t.Info()&types.IsBoolean != 0:
			return &ast.Ident{Name: "false"}, true
		case t.Info()&types.IsNumeric != 0:
			return &ast.BasicLit{Kind: token.INT, Value: "0"}, true
		case t.Info()&types.IsString != 0:
			return &ast.BasicLit{Kind: token.STRING, Value: `""`}, true
		case t.Kind() == types.UnsafePointer:
			fallthrough
		case t.Kind() == types.UntypedNil:
			return ast.NewIdent("nil"), true
		case t.Kind() == types.Invalid:
			return &ast.BasicLit{Kind: token.STRING, Value: `"invalid"`}, false
		default:
			panic(fmt.Sprintf("ZeroExpr for unexpected type %v", t))
		}

	case *types.Pointer, *types.Slice, *types.Chan, *types.Map, *types.Signature:
		return ast.NewIdent("nil"), true

	case *types.Interface:
		if !t.IsMethodSet() {
			return &ast.BasicLit{Kind: token.STRING, Value: `"invalid"`}, false
		}
		return ast.NewIdent("nil"), true

	case *types.Named:
		switch under := t.Underlying().(type) {
		case *types.Struct, *types.Array:
			return &ast.CompositeLit{
				Type: TypeExpr(t, qual),
			}, true
		default:
			return ZeroExpr(under, qual)
		}

	case *types.Alias:
		switch t.Underlying().(type) {
		case *types.Struct, *types.Array:
			return &ast.CompositeLit{
				Type: TypeExpr(t, qual),
			}, true
		default:
			return ZeroExpr(types.Unalias(t), qual)
		}

	case *types.Array, *types.Struct:
		return &ast.CompositeLit{
			Type: TypeExpr(t, qual),
		}, true

	case *types.TypeParam:
		return &ast.StarExpr{ // *new(T)
			X: &ast.CallExpr{
				// Assumes func new is not shadowed.
				Fun: ast.NewIdent("new"),
				Args: []ast.Expr{
					ast.NewIdent(t.Obj().Name()),
				},
			},
		}, true

	case *types.Tuple:
		// Unlike ZeroString, there is no ast.Expr can express tuple by
		// "(t[0], ..., t[n])".
		panic(fmt.Sprintf("invalid type for a variable: %v", t))

	case *types.Union:
		// Variables of these types cannot be created, so it makes
		// no sense to ask for their zero value.
		panic(fmt.Sprintf("invalid type for a variable: %v", t))

	default:
		panic(t) // unreachable.
	}
}

// IsZeroExpr uses simple syntactic heuristics to report whether expr
// is a obvious zero value, such as 0, "", nil, or false.
// It cannot do better without type information.
func IsZeroExpr(expr ast.Expr) bool {
	switch e := expr.(type) {
	case *ast.BasicLit:
		return e.Value == "0" || e.Value == `""`
	case *ast.Ident:
		return e.Name == "nil" || e.Name == "false"
	default:
		return false
	}
}

// TypeExpr returns syntax for the specified type. References to named types
// are qualified by an appropriate (optional) qualifier function.
// It may panic for types such as Tuple or Union.
func TypeExpr(t types.Type, qual types.Qualifier) ast.Expr {
	switch t := t.(type) {
	case *types.Basic:
		switch t.Kind() {
		case types.UnsafePointer:
			return &ast.SelectorExpr{X: ast.NewIdent(qual(types.NewPackage("unsafe", "unsafe"))), Sel: ast.NewIdent("Pointer")}
		default:
			return ast.NewIdent(t.Name())
		}

	case *types.Pointer:
		return &ast.UnaryExpr{
			Op: token.MUL,
			X:  TypeExpr(t.Elem(), qual),
		}

	case *types.Array:
		return &ast.ArrayType{
			Len: &ast.BasicLit{
				Kind:  token.INT,
				Value: fmt.Sprintf("%d", t.Len()),
			},
			Elt: TypeExpr(t.Elem(), qual),
		}

	case *types.Slice:
		return &ast.ArrayType{
			Elt: TypeExpr(t.Elem(), qual),
		}

	case *types.Map:
		return &ast.MapType{
			Key:   TypeExpr(t.Key(), qual),
			Value: TypeExpr(t.Elem(), qual),
		}

	case *types.Chan:
		dir := ast.ChanDir(t.Dir())
		if t.Dir() == types.SendRecv {
			dir = ast.SEND | ast.RECV
		}
		return &ast.ChanType{
			Dir:   dir,
			Value: TypeExpr(t.Elem(), qual),
		}

	case *types.Signature:
		var params []*ast.Field
		for i := 0; i < t.Params().Len(); i++ {
			params = append(params, &ast.Field{
				Type: TypeExpr(t.Params().At(i).Type(), qual),
				Names: []*ast.Ident{
					{
						Name: t.Params().At(i).Name(),
					},
				},
			})
		}
		if t.Variadic() {
			last := params[len(params)-1]
			last.Type = &ast.Ellipsis{Elt: last.Type.(*ast.ArrayType).Elt}
		}
		var returns []*ast.Field
		for i := 0; i < t.Results().Len(); i++ {
			returns = append(returns, &ast.Field{
				Type: TypeExpr(t.Results().At(i).Type(), qual),
			})
		}
		return &ast.FuncType{
			Params: &ast.FieldList{
				List: params,
			},
			Results: &ast.FieldList{
				List: returns,
			},
		}

	case *types.TypeParam:
		pkgName := qual(t.Obj().Pkg())
		if pkgName == "" || t.Obj().Pkg() == nil {
			return ast.NewIdent(t.Obj().Name())
		}
		return &ast.SelectorExpr{
			X:   ast.NewIdent(pkgName),
			Sel: ast.NewIdent(t.Obj().Name()),
		}

	// types.TypeParam also implements interface NamedOrAlias. To differentiate,
	// case TypeParam need to be present before case NamedOrAlias.
	// TODO(hxjiang): remove this comment once TypeArgs() is added to interface
	// NamedOrAlias.
	case NamedOrAlias:
		var expr ast.Expr = ast.NewIdent(t.Obj().Name())
		if pkgName := qual(t.Obj().Pkg()); pkgName != "." && pkgName != "" {
			expr = &ast.SelectorExpr{
				X:   ast.NewIdent(pkgName),
				Sel: expr.(*ast.Ident),
			}
		}

		// TODO(hxjiang): call t.TypeArgs after adding method TypeArgs() to
		// typesinternal.NamedOrAlias.
		if hasTypeArgs, ok := t.(interface{ TypeArgs() *types.TypeList }); ok {
			if typeArgs := hasTypeArgs.TypeArgs(); typeArgs != nil && typeArgs.Len() > 0 {
				var indices []ast.Expr
				for i := range typeArgs.Len() {
					indices = append(indices, TypeExpr(typeArgs.At(i), qual))
				}
				expr = &ast.IndexListExpr{
					X:       expr,
					Indices: indices,
				}
			}
		}

		return expr

	case *types.Struct:
		return ast.NewIdent(t.String())

	case *types.Interface:
		return ast.NewIdent(t.String())

	case *types.Union:
		if t.Len() == 0 {
			panic("Union type should have at least one term")
		}
		// Same as go/ast, the return expression will put last term in the
		// Y field at topmost level of BinaryExpr.
		// For union of type "float32 | float64 | int64", the structure looks
		// similar to:
		// {
		// 	X: {
		// 		X: float32,
		// 		Op: |
		// 		Y: float64,
		// 	}
		// 	Op: |,
		// 	Y: int64,
		// }
		var union ast.Expr
		for i := range t.Len() {
			term := t.Term(i)
			termExpr := TypeExpr(term.Type(), qual)
			if term.Tilde() {
				termExpr = &ast.UnaryExpr{
					Op: token.TILDE,
					X:  termExpr,
				}
			}
			if i == 0 {
				union = termExpr
			} else {
				union = &ast.BinaryExpr{
					X:  union,
					Op: token.OR,
					Y:  termExpr,
				}
			}
		}
		return union

	case *types.Tuple:
		panic("invalid input type types.Tuple")

	default:
		panic("unreachable")
	}
}
