// Copyright 2024 The Go Authors. All rights reserved.
// Use of this source code is governed by a BSD-style
// license that can be found in the LICENSE file.

package typesinternal

import (
	"go/types"

	"verifsa/xi/stdlib"
	"verifsa/xi/versions"
)

// TooNewStdSymbols computes the set of package-level symbols
// exported by pkg that are not available at the specified version.
// The result maps each symbol to its minimum version.
//
// The pkg is allowed to contain type errors.
func TooNewStdSymbols(pkg *types.Package, version string) map[types.Object]string {
	disallowed := make(map[types.Object]string)

	// Pass 1: package-level symbols.
	symbols := stdlib.PackageSymbols[pkg.Path()]
	for _, sym := range symbols {
		symver := sym.Version.String()
		if versions.Before(version, symver) {
			switch sym.Kind {
			case stdlib.Func, stdlib.Var, stdlib.Const, stdlib.Type:
				disallowed[pkg.Scope().Lookup(sym.Name)] = symver
			}
		}
	}

	// Pass 2: fields and methods.
	//
	// We allow fields and methods if their associated type is
	// disallowed, as otherwise we would report false positives
	// for compatibility shims. Consider:
	//
	//   //go:build go1.22
	//   type T struct { F std.Real } // correct new API
	//
	//   //go:build !go1.22
	//   type T struct { F fake } // shim
	//   type fake struct { ... }
	//   func (fake) M () {}
	//
	// These alternative declarations of T use either the std.Real
	// type, introduced in go1.22, or a fake type, for the field
	// F. (The fakery could be arbitrarily deep, involving more
	// nested fields and methods than are shown here.) Clients
	// that use the compatibility shim T will compile with any
	// version of go, whether older or newer than go1.22, but only
	// the newer version will use the std.Real implementation.
	//
	// Now consider a reference to method M in new(T).F.M() in a
	// module that requires a minimum of go1.21. The analysis may
	// occur using a version of Go higher than 1.21, selecting the
	// first version of T, so the method M is Real.M. This would
	// spuriously cause the analyzer to report a reference to a
	// too-new symbol even though this expression compiles just
	// fine (with the fake implementation) using go1.21.
	for _, sym := range symbols {
		symVersion := sym.Version.String()
		if !versions.Before(version, symVersion) {
			continue // allowed
		}

		var obj types.Object
		switch sym.Kind {
		case stdlib.Field:
			typename, name := sym.SplitField()
			if t := pkg.Scope().Lookup(typename); t != nil && disallowed[t] == "" {
				obj, _, _ = types.LookupFieldOrMethod(t.Type(), false, pkg, name)
			}

		case stdlib.Method:
			ptr, recvname, name := sym.SplitMethod()
			if t := pkg.Scope().Lookup(recvname); t != nil && disallowed[t] == "" {
				obj, _, _ = types.LookupFieldOrMethod(t.Type(), ptr, pkg, name)
			}
		}
		if obj != nil {
			disallowed[obj] = symVersion
		}
	}

	return disallowed
}
