// Copyright 2024 The Go Authors. All rights reserved.
// Use of this source code is governed by a BSD-style
// license that can be found in the LICENSE file.

package typesinternal

import (
	"go/ast"
	"go/types"
	"strconv"
)

// FileQualifier returns a [types.Qualifier] function that qualifies
// imported symbols appropriately based on the import environment of a given
// file.
// If the same package is imported multiple times, the last appearance is
// recorded.
func FileQualifier(f *ast.File, pkg *types.Package) types.Qualifier {
	// Construct mapping of import paths to their defined names.
	// It is only necessary to look at renaming imports.
	imports := make(map[string]string)
	for _, imp := range f.Imports {
		if imp.Name != nil && imp.Name.Name != "_" {
			path, _ := strconv.Unquote(imp.Path.Value)
			imports[path] = imp.Name.Name
		}
	}

	// Define qualifier to replace full package paths with names of the imports.
	return func(p *types.Package) string {
		if p == nil || p == pkg {
			return ""
		}

		if name, ok := imports[p.Path()]; ok {
			if name == "." {
				return ""
			} else {
				return name
			}
		}

		// If there is no local renaming, fall back to the package name.
		return p.Name()
	}
}
