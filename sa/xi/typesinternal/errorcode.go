// Copyright 2020 The Go Authors. All rights reserved.
// Use of this source code is governed by a BSD-style
// license that can be found in the LICENSE file.

package typesinternal

//go:generate stringer -type=ErrorCode

type ErrorCode int

// This file defines the error codes that can be produced during type-checking.
// Collectively, these codes provide an identifier that may be used to
// implement special handling for certain types of errors.
//
// Error codes should be fine-grained enough that the exact nature of the error
// can be easily determined, but coarse enough that they are not an
// implementation detail of the type checking algorithm. As a rule-of-thumb,
// errors should be considered equivalent if there is a theoretical refactoring
// of the type checker in which they are emitted in exactly one place. For
// example, the type checker emits different error messages for "too many
// arguments" and "too few arguments", but one can imagine an alternative type
// checker where this check instead just emits a single "wrong number of
// arguments", so these errors should have the same code.
//
// Error code names should be as brief as possible while retaining accuracy and
// distinctiveness. In most cases names should start with an adjective
// describing the nature of the error (e.g. "invalid", "unused", "misplaced"),
// and end with a noun identifying the relevant language object. For example,
// "DuplicateDecl" or "InvalidSliceExpr". For brevity, naming follows the
// convention that "bad" implies a problem with syntax, and "invalid" implies a
// problem with types.

const (
	// InvalidSyntaxTree occurs if an invalid syntax tree is provided
	// to the type checker. It should never happen.
	InvalidSyntaxTree ErrorCode = -1
)

const (
	_ ErrorCode = iota

	// Test is reserved for errors that only apply while in self-test mode.
	Test

	/* package names */

	// BlankPkgName occurs when a package name is the blank identifier "_".
	//
	// Per the spec:
	//  "The PackageName must not be the blank identifier."
	BlankPkgName

	// MismatchedPkgName occurs when a file's package name doesn't match the
	// package name already established by other files.
	MismatchedPkgName

	// InvalidPkgUse occurs when a package identifier is used outside of a
	// selector expression.
	//
	// Example:
	//  import "fmt"
	//
	//  var _ = fmt
	InvalidPkgUse

	/* imports */

	// BadImportPath occurs when an import path is not valid.
	BadImportPath

	// BrokenImport occurs when importing a package fails.
	//
	// Example:
	//  import "amissingpackage"
	BrokenImport

	// ImportCRenamed occurs when the special import "C" is renamed. "C" is a
	// pseudo-package, and must not be renamed.
	//
	// Example:
	//  import _ "C"
	ImportCRenamed

	// UnusedImport occurs when an import is unused.
	//
	// Example:
	//  import "fmt"
	//
	//  func main() {}
	UnusedImport

	/* initialization */

	// InvalidInitCycle occurs when an invalid cycle is detected within the
	// initialization graph.
	//
	// Example:
	//  var x int = f()
	//
	//  func f() int { return x }
	InvalidInitCycle

	/* decls */

	// DuplicateDecl occurs when an identifier is declared multiple times.
	//
	// Example:
	//  var x = 1
	//  var x = 2
	DuplicateDecl

	// InvalidDeclCycle occurs when a declaration cycle is not valid.
	//
	// Example:
	//  import "unsafe"
	//
	//  type T struct {
	//  	a [n]int
	//  }
	//
	//  var n = unsafe.Sizeof(T{})
	InvalidDeclCycle

	// InvalidTypeCycle occurs when a cycle in type definitions results in a
	// type that is not well-defined.
	//
	// Example:
	//  import "unsafe"
	//
	//  type T [unsafe.Sizeof(T{})]int
	InvalidTypeCycle

	/* decls > const */

	// InvalidConstInit occurs when a const declaration has a non-constant
	// initializer.
	//
	// Example:
	//  var x int
	//  const _ = x
	InvalidConstInit

	// InvalidConstVal occurs when a const value cannot be converted to its
	// target type.
	//
	// TODO(findleyr): this error code and example are not very clear. Consider
	// removing it.
	//
	// Example:
	//  const _ = 1 << "hello"
	InvalidConstVal

	// InvalidConstType occurs when the underlying type in a const declaration
	// is not a valid constant type.
	//
	// Example:
	//  const c *int = 4
	InvalidConstType

	/* decls > var (+ other variable assignment codes) */

	// UntypedNilUse occurs when the predeclared (untyped) value nil is used to
	// initialize a variable declared without an explicit type.
	//
	// Example:
	//  var x = nil
	UntypedNilUse

	// WrongAssignCount occurs when the number of values on the right-hand side
	// of an assignment or initialization expression does not match the number
	// of variables on the left-hand side.
	//
	// Example:
	//  var x = 1, 2
	WrongAssignCount

	// UnassignableOperand occurs when the left-hand side of an assignment is
	// not assignable.
	//
	// Example:
	//  func f() {
	//  	const c = 1
	//  	c = 2
	//  }
	UnassignableOperand

	// NoNewVar occurs when a short variable declaration (':=') does not declare
	// new variables.
	//
	// Example:
	//  func f() {
	//  	x := 1
	//  	x := 2
	//  }
	NoNewVar

	// MultiValAssignOp occurs when an assignment operation (+=, *=, etc) does
	// not have single-valued left-hand or right-hand side.
	//
	// Per the spec:
	//  "In assignment operations, both the left- and right-hand expression lists
	//  must contain exactly one single-valued expression"
	//
	// Example:
	//  func f() int {
	//  	x, y := 1, 2
	//  	x, y += 1
	//  	return x + y
	//  }
	MultiValAssignOp

	// InvalidIfaceAssign occurs when a value of type T is used as an
	// interface, but T does not implement a method of the expected interface.
	//
	// Example:
	//  type I interface {
	//  	f()
	//  }
	//
	//  type T int
	//
	//  var x I = T(1)
	InvalidIfaceAssign

	// InvalidChanAssign occurs when a chan assignment is invalid.
	//
	// Per the spec, a value x is assignable to a channel type T if:
	//  "x is a bidirectional channel value, T is a channel type, x's type V and
	//  T have identical element types, and at least one of V or T is not a
	//  defined type."
	//
	// Example:
	//  type T1 chan int
	//  type T2 chan int
	//
	//  var x T1
	//  // Invalid assignment because both types are named
	//  var _ T2 = x
	InvalidChanAssign

	// IncompatibleAssign occurs when the type of the right-hand side expression
	// in an assignment cannot be assigned to the type of the variable being
	// assigned.
	//
	// Example:
	//  var x []int
	//  var _ int = x
	IncompatibleAssign

	// UnaddressableFieldAssign occurs when trying to assign to a struct field
	// in a map value.
	//
	// Example:
	//  func f() {
	//  	m := make(map[string]struct{i int})
	//  	m["foo"].i = 42
	//  }
	UnaddressableFieldAssign

	/* decls > type (+ other type expression codes) */

	// NotAType occurs when the identifier used as the underlying type in a type
	// declaration or the right-hand side of a type alias does not denote a type.
	//
	// Example:
	//  var S = 2
	//
	//  type T S
	NotAType

	// InvalidArrayLen occurs when an array length is not a constant value.
	//
	// Example:
	//  var n = 3
	//  var _ = [n]int{}
	InvalidArrayLen

	// BlankIfaceMethod occurs when a method name is '_'.
	//
	// Per the spec:
	//  "The name of each explicitly specified method must be unique and not
	//  blank."
	//
	// Example:
	//  type T interface {
	//  	_(int)
	//  }
	BlankIfaceMethod

	// IncomparableMapKey occurs when a map key type does not support the == and
	// != operators.
	//
	// Per the spec:
	//  "The comparison operators == and != must be fully defined for operands of
	//  the key type; thus the key type must not be a function, map, or slice."
	//
	// Example:
	//  var x map[T]int
	//
	//  type T []int
	IncomparableMapKey

	// InvalidIfaceEmbed occurs when a non-interface type is embedded in an
	// interface.
	//
	// Example:
	//  type T struct {}
	//
	//  func (T) m()
	//
	//  type I interface {
	//  	T
	//  }
	InvalidIfaceEmbed

	// InvalidPtrEmbed occurs when an embedded field is of the pointer form *T,
	// and T itself is itself a pointer, an unsafe.Pointer, or an interface.
	//
	// Per the spec:
	//  "An embedded field must be specified as a type name T or as a pointer to
	//  a non-interface type name *T, and T itself may not be a pointer type."
	//
	// Example:
	//  type T *int
	//
	//  type S struct {
	//  	*T
	//  }
	InvalidPtrEmbed

	/* decls > func and method */

	// BadRecv occurs when a method declaration does not have exactly one
	// receiver parameter.
	//
	// Example:
	//  func () _() {}
	BadRecv

	// InvalidRecv occurs when a receiver type expression is not of the form T
	// or *T, or T is a pointer type.
	//
	// Example:
	//  type T struct {}
	//
	//  func (**T) m() {}
	InvalidRecv

	// DuplicateFieldAndMethod occurs when an identifier appears as both a field
	// and method name.
	//
	// Example:
	//  type T struct {
	//  	m int
	//  }
	//
	//  func (T) m() {}
	DuplicateFieldAndMethod

	// DuplicateMethod occurs when two methods on the same receiver type have
	// the same name.
	//
	// Example:
	//  type T struct {}
	//  func (T) m() {}
	//  func (T) m(i int) int { return i }
	DuplicateMethod

	/* decls > special */

	// InvalidBlank occurs when a blank identifier is used as a value or type.
	//
	// Per the spec:
	//  "The blank identifier may appear as an operand only on the left-hand side
	//  of an assignment."
	//
	// Example:
	//  var x = _
	InvalidBlank

	// InvalidIota occurs when the predeclared identifier iota is used outside
	// of a constant declaration.
	//
	// Example:
	//  var x = iota
	InvalidIota

	// MissingInitBody occurs when an init function is missing its body.
	//
	// Example:
	//  func init()
	MissingInitBody

	// InvalidInitSig occurs when an init function declares parameters or
	// results.
	//
	// Example:
	//  func init() int { return 1 }
	InvalidInitSig

	// InvalidInitDecl occurs when init is declared as anything other than a
	// function.
	//
	// Example:
	//  var init = 1
	InvalidInitDecl

	// InvalidMainDecl occurs when main is declared as anything other than a
	// function, in a main package.
	InvalidMainDecl

	/* exprs */

	// TooManyValues occurs when a function returns too many values for the
	// expression context in which it is used.
	//
	// Example:
	//  func ReturnTwo() (int, int) {
	//  	return 1, 2
	//  }
	//
	//  var x = ReturnTwo()
	TooManyValues

	// NotAnExpr occurs when a type expression is used where a value expression
	// is expected.
	//
	// Example:
	//  type T struct {}
	//
	//  func f() {
	//  	T
	//  }
	NotAnExpr

	/* exprs > const */

	// TruncatedFloat occurs when a float constant is truncated to an integer
	// value.
	//
	// Example:
	//  var _ int = 98.6
	TruncatedFloat

	// NumericOverflow occurs when a numeric constant overflows its target type.
	//
	// Example:
	//  var x int8 = 1000
	NumericOverflow

	/* exprs > operation */

	// UndefinedOp occurs when an operator is not defined for the type(s) used
	// in an operation.
	//
	// Example:
	//  var c = "a" - "b"
	UndefinedOp

	// MismatchedTypes occurs when operand types are incompatible in a binary
	// operation.
	//
	// Example:
	//  var a = "hello"
	//  var b = 1
	//  var c = a - b
	MismatchedTypes

	// DivByZero occurs when a division operation is provable at compile
	// time to be a division by zero.
	//
	// Example:
	//  const divisor = 0
	//  var x int = 1/divisor
	DivByZero

	// NonNumericIncDec occurs when an increment or decrement operator is
	// applied to a non-numeric value.
	//
	// Example:
	//  func f() {
	//  	var c = "c"
	//  	c++
	//  }
	NonNumericIncDec

	/* exprs > ptr */

	// UnaddressableOperand occurs when the & operator is applied to an
	// unaddressable expression.
	//
	// Example:
	//  var x = &1
	UnaddressableOperand

	// InvalidIndirection occurs when a non-pointer value is indirected via the
	// '*' operator.
	//
	// Example:
	//  var x int
	//  var y = *x
	InvalidIndirection

	/* exprs > [] */

	// NonIndexableOperand occurs when an index operation is applied to a value
	// that cannot be indexed.
	//
	// Example:
	//  var x = 1
	//  var y = x[1]
	NonIndexableOperand

	// InvalidIndex occurs when an index argument is not of integer type,
	// negative, or out-of-bounds.
	//
	// Example:
	//  var s = [...]int{1,2,3}
	//  var x = s[5]
	//
	// Example:
	//  var s = []int{1,2,3}
	//  var _ = s[-1]
	//
	// Example:
	//  var s = []int{1,2,3}
	//  var i string
	//  var _ = s[i]
	InvalidIndex

	// SwappedSliceIndices occurs when constant indices in a slice expression
	// are decreasing in value.
	//
	// Example:
	//  var _ = []int{1,2,3}[2:1]
	SwappedSliceIndices

	/* operators > slice */

	// NonSliceableOperand occurs when a slice operation is applied to a value
	// whose type is not sliceable, or is unaddressable.
	//
	// Example:
	//  var x = [...]int{1, 2, 3}[:1]
	//
	// Example:
	//  var x = 1
	//  var y = 1[:1]
	NonSliceableOperand

	// InvalidSliceExpr occurs when a three-index slice expression (a[x:y:z]) is
	// applied to a string.
	//
	// Example:
	//  var s = "hello"
	//  var x = s[1:2:3]
	InvalidSliceExpr

	/* exprs > shift */

	// InvalidShiftCount occurs when the right-hand side of a shift operation is
	// either non-integer, negative, or too large.
	//
	// Example:
	//  var (
	//  	x string
	//  	y int = 1 << x
	//  )
	InvalidShiftCount

	// InvalidShiftOperand occurs when the shifted operand is not an integer.
	//
	// Example:
	//  var s = "hello"
	//  var x = s << 2
	InvalidShiftOperand

	/* exprs > chan */

	// InvalidReceive occurs when there is a channel receive from a value that
	// is either not a channel, or is a send-only channel.
	//
	// Example:
	//  func f() {
	//  	var x = 1
	//  	<-x
	//  }
	InvalidReceive

	// InvalidSend occurs when there is a channel send to a value that is not a
	// channel, or is a receive-only channel.
	//
	// Example:
	//  func f() {
	//  	var x = 1
	//  	x <- "hello!"
	//  }
	InvalidSend

	/* exprs > literal */

	// DuplicateLitKey occurs when an index is duplicated in a slice, array, or
	// map literal.
	//
	// Example:
	//  var _ = []int{0:1, 0:2}
	//
	// Example:
	//  var _ = map[string]int{"a": 1, "a": 2}
	DuplicateLitKey

	// MissingLitKey occurs when a map literal is missing a key expression.
	//
	// Example:
	//  var _ = map[string]int{1}
	MissingLitKey

	// InvalidLitIndex occurs when the key in a key-value element of a slice or
	// array literal is not an integer constant.
	//
	// Example:
	//  var i = 0
	//  var x = []string{i: "world"}
	InvalidLitIndex

	// OversizeArrayLit occurs when an array literal exceeds its length.
	//
	// Example:
	//  var _ = [2]int{1,2,3}
	OversizeArrayLit

	// MixedStructLit occurs when a struct literal contains a mix of positional
	// and named elements.
	//
	// Example:
	//  var _ = struct{i, j int}{i: 1, 2}
	MixedStructLit

	// InvalidStructLit occurs when a positional struct literal has an incorrect
	// number of values.
	//
	// Example:
	//  var _ = struct{i, j int}{1,2,3}
	InvalidStructLit

	// MissingLitField occurs when a struct literal refers to a field that does
	// not exist on the struct type.
	//
	// Example:
	//  var _ = struct{i int}{j: 2}
	MissingLitField

	// DuplicateLitField occurs when a struct literal contains duplicated
	// fields.
	//
	// Example:
	//  var _ = struct{i int}{i: 1, i: 2}
	DuplicateLitField

	// UnexportedLitField occurs when a positional struct literal implicitly
	// assigns an unexported field of an imported type.
	UnexportedLitField

	// InvalidLitField occurs when a field name is not a valid identifier.
	//
	// Example:
	//  var _ = struct{i int}{1: 1}
	InvalidLitField

	// UntypedLit occurs when a composite literal omits a required type
	// identifier.
	//
	// Example:
	//  type outer struct{
	//  	inner struct { i int }
	//  }
	//
	//  var _ = outer{inner: {1}}
	UntypedLit

	// InvalidLit occurs when a composite literal expression does not match its
	// type.
	//
	// Example:
	//  type P *struct{
	//  	x int
	//  }
	//  var _ = P {}
	InvalidLit

	/* exprs > selector */

	// AmbiguousSelector occurs when a selector is ambiguous.
	//
	// Example:
	//  type E1 struct { i int }
	//  type E2 struct { i int }
	//  type T struct { E1; E2 }
	//
	//  var x T
	//  var _ = x.i
	AmbiguousSelector

	// UndeclaredImportedName occurs when a package-qualified identifier is
	// undeclared by the imported package.
	//
	// Example:
	//  import "go/types"
	//
	//  var _ = types.NotAnActualIdentifier
	UndeclaredImportedName

	// UnexportedName occurs when a selector refers to an unexported identifier
	// of an imported package.
	//
	// Example:
	//  import "reflect"
	//
	//  type _ reflect.flag
	UnexportedName

	// UndeclaredName occurs when an identifier is not declared in the current
	// scope.
	//
	// Example:
	//  var x T
	UndeclaredName

	// MissingFieldOrMethod occurs when a selector references a field or method
	// that does not exist.
	//
	// Example:
	//  type T struct {}
	//
	//  var x = T{}.f
	MissingFieldOrMethod

	/* exprs > ... */

	// BadDotDotDotSyntax occurs when a "..." occurs in a context where it is
	// not valid.
	//
	// Example:
	//  var _ = map[int][...]int{0: {}}
	BadDotDotDotSyntax

	// NonVariadicDotDotDot occurs when a "..." is used on the final argument to
	// a non-variadic function.
	//
	// Example:
	//  func printArgs(s []string) {
	//  	for _, a := range s {
	//  		println(a)
	//  	}
	//  }
	//
	//  func f() {
	//  	s := []string{"a", "b", "c"}
	//  	printArgs(s...)
	//  }
	NonVariadicDotDotDot

	// MisplacedDotDotDot occurs when a "..." is used somewhere other than the
	// final argument to a function call.
	//
	// Example:
	//  func printArgs(args ...int) {
	//  	for _, a := range args {
	//  		println(a)
	//  	}
	//  }
	//
	//  func f() {
	//  	a := []int{1,2,3}
	//  	printArgs(0, a...)
	//  }
	MisplacedDotDotDot

	// InvalidDotDotDotOperand occurs when a "..." operator is applied to a
	// single-valued operand.
	//
	// Example:
	//  func printArgs(args ...int) {
	//  	for _, a := range args {
	//  		println(a)
	//  	}
	//  }
	//
	//  func f() {
	//  	a := 1
	//  	printArgs(a...)
	//  }
	//
	// Example:
	//  func args() (int, int) {
	//  	return 1, 2
	//  }
	//
	//  func printArgs(args ...int) {
	//  	for _, a := range args {
	//  		println(a)
	//  	}
	//  }
	//
	//  func g() {
	//  	printArgs(args()...)
	//  }
	InvalidDotDotDotOperand

	// InvalidDotDotDot occurs when a "..." is used in a non-variadic built-in
	// function.
	//
	// Example:
	//  var s = []int{1, 2, 3}
	//  var l = len(s...)
	InvalidDotDotDot

	/* exprs > built-in */

	// UncalledBuiltin occurs when a built-in function is used as a
	// function-valued expression, instead of being called.
	//
	// Per the spec:
	//  "The built-in functions do not have standard Go types, so they can only
	//  appear in call expressions; they cannot be used as function values."
	//
	// Example:
	//  var _ = copy
	UncalledBuiltin

	// InvalidAppend occurs when append is called with a first argument that is
	// not a slice.
	//
	// Example:
	//  var _ = append(1, 2)
	InvalidAppend

	// InvalidCap occurs when an argument to the cap built-in function is not of
	// supported type.
	//
	// See https://golang.org/ref/spec#Length_and_capacity for information on
	// which underlying types are supported as arguments to cap and len.
	//
	// Example:
	//  var s = 2
	//  var x = cap(s)
	InvalidCap

	// InvalidClose occurs when close(...) is called with an argument that is
	// not of channel type, or that is a receive-only channel.
	//
	// Example:
	//  func f() {
	//  	var x int
	//  	close(x)
	//  }
	InvalidClose

	// InvalidCopy occurs when the arguments are not of slice type or do not
	// have compatible type.
	//
	// See https://golang.org/ref/spec#Appending_and_copying_slices for more
	// information on the type requirements for the copy built-in.
	//
	// Example:
	//  func f() {
	//  	var x []int
	//  	y := []int64{1,2,3}
	//  	copy(x, y)
	//  }
	InvalidCopy

	// InvalidComplex occurs when the complex built-in function is called with
	// arguments with incompatible types.
	//
	// Example:
	//  var _ = complex(float32(1), float64(2))
	InvalidComplex

	// InvalidDelete occurs when the delete built-in function is called with a
	// first argument that is not a map.
	//
	// Example:
	//  func f() {
	//  	m := "hello"
	//  	delete(m, "e")
	//  }
	InvalidDelete

	// InvalidImag occurs when the imag built-in function is called with an
	// argument that does not have complex type.
	//
	// Example:
	//  var _ = imag(int(1))
	InvalidImag

	// InvalidLen occurs when an argument to the len built-in function is not of
	// supported type.
	//
	// See https://golang.org/ref/spec#Length_and_capacity for information on
	// which underlying types are supported as arguments to cap and len.
	//
	// Example:
	//  var s = 2
	//  var x = len(s)
	InvalidLen

	// SwappedMakeArgs occurs when make is called with three arguments, and its
	// length argument is larger than its capacity argument.
	//
	// Example:
	//  var x = make([]int, 3, 2)
	SwappedMakeArgs

	// InvalidMake occurs when make is called with an unsupported type argument.
	//
	// See https://golang.org/ref/spec#Making_slices_maps_and_channels for
	// information on the types that may be created using make.
	//
	// Example:
	//  var x = make(int)
	InvalidMake

	// InvalidReal occurs when the real built-in function is called with an
	// argument that does not have complex type.
	//
	// Example:
	//  var _ = real(int(1))
	InvalidReal

	/* exprs > assertion */

	// InvalidAssert occurs when a type assertion is applied to a
	// value that is not of interface type.
	//
	// Example:
	//  var x = 1
	//  var _ = x.(float64)
	InvalidAssert

	// ImpossibleAssert occurs for a type assertion x.(T) when the value x of
	// interface cannot have dynamic type T, due to a missing or mismatching
	// method on T.
	//
	// Example:
	//  type T int
	//
	//  func (t *T) m() int { return int(*t) }
	//
	//  type I interface { m() int }
	//
	//  var x I
	//  var _ = x.(T)
	ImpossibleAssert

	/* exprs > conversion */

	// InvalidConversion occurs when the argument type cannot be converted to the
	// target.
	//
	// See https://golang.org/ref/spec#Conversions for the rules of
	// convertibility.
	//
	// Example:
	//  var x float64
	//  var _ = string(x)
	InvalidConversion

	// InvalidUntypedConversion occurs when an there is no valid implicit
	// conversion from an untyped value satisfying the type constraints of the
	// context in which it is used.
	//
	// Example:
	//  var _ = 1 + ""
	InvalidUntypedConversion

	/* offsetof */

	// BadOffsetofSyntax occurs when unsafe.Offsetof is called with an argument
	// that is not a selector expression.
	//
	// Example:
	//  import "unsafe"
	//
	//  var x int
	//  var _ = unsafe.Offsetof(x)
	BadOffsetofSyntax

	// InvalidOffsetof occurs when unsafe.Offsetof is called with a method
	// selector, rather than a field selector, or when the field is embedded via
	// a pointer.
	//
	// Per the spec:
	//
	//  "If f is an embedded field, it must be reachable without pointer
	//  indirections through fields of the struct. "
	//
	// Example:
	//  import "unsafe"
	//
	//  type T struct { f int }
	//  type S struct { *T }
	//  var s S
	//  var _ = unsafe.Offsetof(s.f)
	//
	// Example:
	//  import "unsafe"
	//
	//  type S struct{}
	//
	//  func (S) m() {}
	//
	//  var s S
	//  var _ = unsafe.Offsetof(s.m)
	InvalidOffsetof

	/* control flow > scope */

	// UnusedExpr occurs when a side-effect free expression is used as a
	// statement. Such a statement has no effect.
	//
	// Example:
	//  func f(i int) {
	//  	i*i
	//  }
	UnusedExpr

	// UnusedVar occurs when a variable is declared but unused.
	//
	// Example:
	//  func f() {
	//  	x := 1
	//  }
	UnusedVar

	// MissingReturn occurs when a function with results is missing a return
	// statement.
	//
	// Example:
	//  func f() int {}
	MissingReturn

	// WrongResultCount occurs when a return statement returns an incorrect
	// number of values.
	//
	// Example:
	//  func ReturnOne() int {
	//  	return 1, 2
	//  }
	WrongResultCount

	// OutOfScopeResult occurs when the name of a value implicitly returned by
	// an empty return statement is shadowed in a nested scope.
	//
	// Example:
	//  func factor(n int) (i int) {
	//  	for i := 2; i < n; i++ {
	//  		if n%i == 0 {
	//  			return
	//  		}
	//  	}
	//  	return 0
	//  }
	OutOfScopeResult

	/* control flow > if */

	// InvalidCond occurs when an if condition is not a boolean expression.
	//
	// Example:
	//  func checkReturn(i int) {
	//  	if i {
	//  		panic("non-zero return")
	//  	}
	//  }
	InvalidCond

	/* control flow > for */

	// InvalidPostDecl occurs when there is a declaration in a for-loop post
	// statement.
	//
	// Example:
	//  func f() {
	//  	for i := 0; i < 10; j := 0 {}
	//  }
	InvalidPostDecl

	// InvalidChanRange occurs when a send-only channel used in a range
	// expression.
	//
	// Example:
	//  func sum(c chan<- int) {
	//  	s := 0
	//  	for i := range c {
	//  		s += i
	//  	}
	//  }
	InvalidChanRange

	// InvalidIterVar occurs when two iteration variables are used while ranging
	// over a channel.
	//
	// Example:
	//  func f(c chan int) {
	//  	for k, v := range c {
	//  		println(k, v)
	//  	}
	//  }
	InvalidIterVar

	// InvalidRangeExpr occurs when the type of a range expression is not array,
	// slice, string, map, or channel.
	//
	// Example:
	//  func f(i int) {
	//  	for j := range i {
	//  		println(j)
	//  	}
	//  }
	InvalidRangeExpr

	/* control flow > switch */

	// MisplacedBreak occurs when a break statement is not within a for, switch,
	// or select statement of the innermost function definition.
	//
	// Example:
	//  func f() {
	//  	break
	//  }
	MisplacedBreak

	// MisplacedContinue occurs when a continue statement is not within a for
	// loop of the innermost function definition.
	//
	// Example:
	//  func sumeven(n int) int {
	//  	proceed := func() {
	//  		continue
	//  	}
	//  	sum := 0
	//  	for i := 1; i <= n; i++ {
	//  		if i % 2 != 0 {
	//  			proceed()
	//  		}
	//  		sum += i
	//  	}
	//  	return sum
	//  }
	MisplacedContinue

	// MisplacedFallthrough occurs when a fallthrough statement is not within an
	// expression switch.
	//
	// Example:
	//  func typename(i interface{}) string {
	//  	switch i.(type) {
	//  	case int64:
	//  		fallthrough
	//  	case int:
	//  		return "int"
	//  	}
	//  	return "unsupported"
	//  }
	MisplacedFallthrough

	// DuplicateCase occurs when a type or expression switch has duplicate
	// cases.
	//
	// Example:
	//  func printInt(i int) {
	//  	switch i {
	//  	case 1:
	//  		println("one")
	//  	case 1:
	//  		println("One")
	//  	}
	//  }
	DuplicateCase

	// DuplicateDefault occurs when a type or expression switch has multiple
	// default clauses.
	//
	// Example:
	//  func printInt(i int) {
	//  	switch i {
	//  	case 1:
	//  		println("one")
	//  	default:
	//  		println("One")
	//  	default:
	//  		println("1")
	//  	}
	//  }
	DuplicateDefault

	// BadTypeKeyword occurs when a .(type) expression is used anywhere other
	// than a type switch.
	//
	// Example:
	//  type I interface {
	//  	m()
	//  }
	//  var t I
	//  var _ = t.(type)
	BadTypeKeyword

	// InvalidTypeSwitch occurs when .(type) is used on an expression that is
	// not of interface type.
	//
	// Example:
	//  func f(i int) {
	//  	switch x := i.(type) {}
	//  }
	InvalidTypeSwitch

	// InvalidExprSwitch occurs when a switch expression is not comparable.
	//
	// Example:
	//  func _() {
	//  	var a struct{ _ func() }
	//  	switch a /* ERROR cannot switch on a */ {
	//  	}
	//  }
	InvalidExprSwitch

	/* control flow > select */

	// InvalidSelectCase occurs when a select case is not a channel send or
	// receive.
	//
	// Example:
	//  func checkChan(c <-chan int) bool {
	//  	select {
	//  	case c:
	//  		return true
	//  	default:
	//  		return false
	//  	}
	//  }
	InvalidSelectCase

	/* control flow > labels and jumps */

	// UndeclaredLabel occurs when an undeclared label is jumped to.
	//
	// Example:
	//  func f() {
	//  	goto L
	//  }
	UndeclaredLabel

	// DuplicateLabel occurs when a label is declared more than once.
	//
	// Example:
	//  func f() int {
	//  L:
	//  L:
	//  	return 1
	//  }
	DuplicateLabel

	// MisplacedLabel occurs when a break or continue label is not on a for,
	// switch, or select statement.
	//
	// Example:
	//  func f() {
	//  L:
	//  	a := []int{1,2,3}
	//  	for _, e := range a {
	//  		if e > 10 {
	//  			break L
	//  		}
	//  		println(a)
	//  	}
	//  }
	MisplacedLabel

	// UnusedLabel occurs when a label is declared but not used.
	//
	// Example:
	//  func f() {
	//  L:
	//  }
	UnusedLabel

	// JumpOverDecl occurs when a label jumps over a variable declaration.
	//
	// Example:
	//  func f() int {
	//  	goto L
	//  	x := 2
	//  L:
	//  	x++
	//  	return x
	//  }
	JumpOverDecl

	// JumpIntoBlock occurs when a forward jump goes to a label inside a nested
	// block.
	//
	// Example:
	//  func f(x int) {
	//  	goto L
	//  	if x > 0 {
	//  	L:
	//  		print("inside block")
	//  	}
	// }
	JumpIntoBlock

	/* control flow > calls */

	// InvalidMethodExpr occurs when a pointer method is called but the argument
	// is not addressable.
	//
	// Example:
	//  type T struct {}
	//
	//  func (*T) m() int { return 1 }
	//
	//  var _ = T.m(T{})
	InvalidMethodExpr

	// WrongArgCount occurs when too few or too many arguments are passed by a
	// function call.
	//
	// Example:
	//  func f(i int) {}
	//  var x = f()
	WrongArgCount

	// InvalidCall occurs when an expression is called that is not of function
	// type.
	//
	// Example:
	//  var x = "x"
	//  var y = x()
	InvalidCall

	/* control flow > suspended */

	// UnusedResults occurs when a restricted expression-only built-in function
	// is suspended via go or defer. Such a suspension discards the results of
	// these side-effect free built-in functions, and therefore is ineffectual.
	//
	// Example:
	//  func f(a []int) int {
	//  	defer len(a)
	//  	return i
	//  }
	UnusedResults

	// InvalidDefer occurs when a deferred expression is not a function call,
	// for example if the expression is a type conversion.
	//
	// Example:
	//  func f(i int) int {
	//  	defer int32(i)
	//  	return i
	//  }
	InvalidDefer

	// InvalidGo occurs when a go expression is not a function call, for example
	// if the expression is a type conversion.
	//
	// Example:
	//  func f(i int) int {
	//  	go int32(i)
	//  	return i
	//  }
	InvalidGo

	// All codes below were added in Go 1.17.

	/* decl */

	// BadDecl occurs when a declaration has invalid syntax.
	BadDecl

	// RepeatedDecl occurs when an identifier occurs more than once on the left
	// hand side of a short variable declaration.
	//
	// Example:
	//  func _() {
	//  	x, y, y := 1, 2, 3
	//  }
	RepeatedDecl

	/* unsafe */

	// InvalidUnsafeAdd occurs when unsafe.Add is called with a
	// length argument that is not of integer type.
	//
	// Example:
	//  import "unsafe"
	//
	//  var p unsafe.Pointer
	//  var _ = unsafe.Add(p, float64(1))
	InvalidUnsafeAdd

	// InvalidUnsafeSlice occurs when unsafe.Slice is called with a
	// pointer argument that is not of pointer type or a length argument
	// that is not of integer type, negative, or out of bounds.
	//
	// Example:
	//  import "unsafe"
	//
	//  var x int
	//  var _ = unsafe.Slice(x, 1)
	//
	// Example:
	//  import "unsafe"
	//
	//  var x int
	//  var _ = unsafe.Slice(&x, float64(1))
	//
	// Example:
	//  import "unsafe"
	//
	//  var x int
	//  var _ = unsafe.Slice(&x, -1)
	//
	// Example:
	//  import "unsafe"
	//
	//  var x int
	//  var _ = unsafe.Slice(&x, uint64(1) << 63)
	InvalidUnsafeSlice

	// All codes below were added in Go 1.18.

	/* features */

	// UnsupportedFeature occurs when a language feature is used that is not
	// supported at this Go version.
	UnsupportedFeature

	/* type params */

	// NotAGenericType occurs when a non-generic type is used where a generic
	// type is expected: in type or function instantiation.
	//
	// Example:
	//  type T int
	//
	//  var _ T[int]
	NotAGenericType

	// WrongTypeArgCount occurs when a type or function is instantiated with an
	// incorrect number of type arguments, including when a generic type or
	// function is used without instantiation.
	//
	// Errors involving failed type inference are assigned other error codes.
	//
	// Example:
	//  type T[p any] int
	//
	//  var _ T[int, string]
	//
	// Example:
	//  func f[T any]() {}
	//
	//  var x = f
	WrongTypeArgCount

	// CannotInferTypeArgs occurs when type or function type argument inference
	// fails to infer all type arguments.
	//
	// Example:
	//  func f[T any]() {}
	//
	//  func _() {
	//  	f()
	//  }
	//
	// Example:
	//   type N[P, Q any] struct{}
	//
	//   var _ N[int]
	CannotInferTypeArgs

	// InvalidTypeArg occurs when a type argument does not satisfy its
	// corresponding type parameter constraints.
	//
	// Example:
	//  type T[P ~int] struct{}
	//
	//  var _ T[string]
	InvalidTypeArg // arguments? InferenceFailed

	// InvalidInstanceCycle occurs when an invalid cycle is detected
	// within the instantiation graph.
	//
	// Example:
	//  func f[T any]() { f[*T]() }
	InvalidInstanceCycle

	// InvalidUnion occurs when an embedded union or approximation element is
	// not valid.
	//
	// Example:
	//  type _ interface {
	//   	~int | interface{ m() }
	//  }
	InvalidUnion

	// MisplacedConstraintIface occurs when a constraint-type interface is used
	// outside of constraint position.
	//
	// Example:
	//   type I interface { ~int }
	//
	//   var _ I
	MisplacedConstraintIface

	// InvalidMethodTypeParams occurs when methods have type parameters.
	//
	// It cannot be encountered with an AST parsed using go/parser.
	InvalidMethodTypeParams

	// MisplacedTypeParam occurs when a type parameter is used in a place where
	// it is not permitted.
	//
	// Example:
	//  type T[P any] P
	//
	// Example:
	//  type T[P any] struct{ *P }
	MisplacedTypeParam

	// InvalidUnsafeSliceData occurs when unsafe.SliceData is called with
	// an argument that is not of slice type. It also occurs if it is used
	// in a package compiled for a language version before go1.20.
	//
	// Example:
	//  import "unsafe"
	//
	//  var x int
	//  var _ = unsafe.SliceData(x)
	InvalidUnsafeSliceData

	// InvalidUnsafeString occurs when unsafe.String is called with
	// a length argument that is not of integer type, negative, or
	// out of bounds. It also occurs if it is used in a package
	// compiled for a language version before go1.20.
	//
	// Example:
	//  import "unsafe"
	//
	//  var b [10]byte
	//  var _ = unsafe.String(&b[0], -1)
	InvalidUnsafeString

	// InvalidUnsafeStringData occurs if it is used in a package
	// compiled for a language version before go1.20.
	_ // not used anymore

)
