// Copyright 2024 The Go Authors. All rights reserved.
// Use of this source code is governed by a BSD-style
// license that can be found in the LICENSE file.

package typesinternal

import (
	"fmt"
	"go/types"

	"golang.org/x/tools/go/types/typeutil"
)

// ForEachElement calls f for type T and each type reachable from its
// type through reflection. It does this by recursively stripping off
// type constructors; in addition, for each named type N, the type *N
// is added to the result as it may have additional methods.
//
// The caller must provide an initially empty set used to de-duplicate
// identical types, potentially across multiple calls to ForEachElement.
// (Its final value holds all the elements seen, matching the arguments
// passed to f.)
//
// TODO(adonovan): share/harmonize with go/callgraph/rta.
func ForEachElement(rtypes *typeutil.Map, msets *typeutil.MethodSetCache, T types.Type, f func(types.Type)) {
	var visit func(T types.Type, skip bool)
	visit = func(T types.Type, skip bool) {
		if !skip {
			if seen, _ := rtypes.Set(T, true).(bool); seen {
				return // de-dup
			}

			f(T) // notify caller of new element type
		}

		// Recursion over signatures of each method.
		tmset := msets.MethodSet(T)
		for i := 0; i < tmset.Len(); i++ {
			sig := tmset.At(i).Type().(*types.Signature)
			// It is tempting to call visit(sig, false)
			// but, as noted in golang.org/cl/65450043,
			// the Signature.Recv field is ignored by
			// types.Identical and typeutil.Map, which
			// is confusing at best.
			//
			// More importantly, the true signature rtype
			// reachable from a method using reflection
			// has no receiver but an extra ordinary parameter.
			// For the Read method of io.Reader we want:
			//   func(Reader, []byte) (int, error)
			// but here sig is:
			//   func([]byte) (int, error)
			// with .Recv = Reader (though it is hard to
			// notice because it doesn't affect Signature.String
			// or types.Identical).
			//
			// TODO(adonovan): construct and visit the correct
			// non-method signature with an extra parameter
			// (though since unnamed func types have no methods
			// there is essentially no actual demand for this).
			//
			// TODO(adonovan): document whether or not it is
			// safe to skip non-exported methods (as RTA does).
			visit(sig.Params(), true)  // skip the Tuple
			visit(sig.Results(), true) // skip the Tuple
		}

		switch T := T.(type) {
		case *types.Alias:
			visit(types.Unalias(T), skip) // emulates the pre-Alias behavior

		case *types.Basic:
			// nop

		case *types.Interface:
			// nop---handled by recursion over method set.

		case *types.Pointer:
			visit(T.Elem(), false)

		case *types.Slice:
			visit(T.Elem(), false)

		case *types.Chan:
			visit(T.Elem(), false)

		case *types.Map:
			visit(T.Key(), false)
			visit(T.Elem(), false)

		case *types.Signature:
			if T.Recv() != nil {
				panic(fmt.Sprintf("Signature %s has Recv %s", T, T.Recv()))
			}
			visit(T.Params(), true)  // skip the Tuple
			visit(T.Results(), true) // skip the Tuple

		case *types.Named:
			// A pointer-to-named type can be derived from a named
			// type via reflection.  It may have methods too.
			visit(types.NewPointer(T), false)

			// Consider 'type T struct{S}' where S has methods.
			// Reflection provides no way to get from T to struct{S},
			// only to S, so the method set of struct{S} is unwanted,
			// so set 'skip' flag during recursion.
			visit(T.Underlying(), true) // skip the unnamed type

		case *types.Array:
			visit(T.Elem(), false)

		case *types.Struct:
			for i, n := 0, T.NumFields(); i < n; i++ {
				// TODO(adonovan): document whether or not
				// it is safe to skip non-exported fields.
				visit(T.Field(i).Type(), false)
			}

		case *types.Tuple:
			for i, n := 0, T.Len(); i < n; i++ {
				visit(T.At(i).Type(), false)
			}

		case *types.TypeParam, *types.Union:
			// forEachReachable must not be called on parameterized types.
			panic(T)

		default:
			panic(T)
		}
	}
	visit(T, false)
}
