// Copyright 2024 The Go Authors. All rights reserved.
// Use of this source code is governed by a BSD-style
// license that can be found in the LICENSE file.

package aliases

import (
	"go/token"
	"go/types"
)

// Package aliases defines backward compatible shims
// for the types.Alias type representation added in 1.22.
// This defines placeholders for x/tools until 1.26.

// NewAlias creates a new TypeName in Package pkg that
// is an alias for the type rhs.
//
// The enabled parameter determines whether the resulting [TypeName]'s
// type is an [types.Alias]. Its value must be the result of a call to
// [Enabled], which computes the effective value of
// GODEBUG=gotypesalias=... by invoking the type checker. The Enabled
// function is expensive and should be called once per task (e.g.
// package import), not once per call to NewAlias.
//
// Precondition: enabled || len(tparams)==0.
// If materialized aliases are disabled, there must not be any type parameters.
func NewAlias(enabled bool, pos token.Pos, pkg *types.Package, name string, rhs types.Type, tparams []*types.TypeParam) *types.TypeName {
	if enabled {
		tname := types.NewTypeName(pos, pkg, name, nil)
		SetTypeParams(types.NewAlias(tname, rhs), tparams)
		return tname
	}
	if len(tparams) > 0 {
		panic("cannot create an alias with type parameters when gotypesalias is not enabled")
	}
	return types.NewTypeName(pos, pkg, name, rhs)
}
