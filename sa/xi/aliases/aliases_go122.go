// Copyright 2024 The Go Authors. All rights reserved.
// Use of this source code is governed by a BSD-style
// license that can be found in the LICENSE file.

package aliases

import (
	"go/ast"
	"go/parser"
	"go/token"
	"go/types"
)

// Rhs returns the type on the right-hand side of the alias declaration.
func Rhs(alias *types.Alias) types.Type {
	if alias, ok := any(alias).(interface{ Rhs() types.Type }); ok {
		return alias.Rhs() // go1.23+
	}

	// go1.22's Alias didn't have the Rhs method,
	// so Unalias is the best we can do.
	return types.Unalias(alias)
}

// TypeParams returns the type parameter list of the alias.
func TypeParams(alias *types.Alias) *types.TypeParamList {
	if alias, ok := any(alias).(interface{ TypeParams() *types.TypeParamList }); ok {
		return alias.TypeParams() // go1.23+
	}
	return nil
}

// SetTypeParams sets the type parameters of the alias type.
func SetTypeParams(alias *types.Alias, tparams []*types.TypeParam) {
	if alias, ok := any(alias).(interface {
		SetTypeParams(tparams []*types.TypeParam)
	}); ok {
		alias.SetTypeParams(tparams) // go1.23+
	} else if len(tparams) > 0 {
		panic("cannot set type parameters of an Alias type in go1.22")
	}
}

// TypeArgs returns the type arguments used to instantiate the Alias type.
func TypeArgs(alias *types.Alias) *types.TypeList {
	if alias, ok := any(alias).(interface{ TypeArgs() *types.TypeList }); ok {
		return alias.TypeArgs() // go1.23+
	}
	return nil // empty (go1.22)
}

// Origin returns the generic Alias type of which alias is an instance.
// If alias is not an instance of a generic alias, Origin returns alias.
func Origin(alias *types.Alias) *types.Alias {
	if alias, ok := any(alias).(interface{ Origin() *types.Alias }); ok {
		return alias.Origin() // go1.23+
	}
	return alias // not an instance of a generic alias (go1.22)
}

// Enabled reports whether [NewAlias] should create [types.Alias] types.
//
// This function is expensive! Call it sparingly.
func Enabled() bool {
	// The only reliable way to compute the answer is to invoke go/types.
	// We don't parse the GODEBUG environment variable, because
	// (a) it's tricky to do so in a manner that is consistent
	//     with the godebug package; in particular, a simple
	//     substring check is not good enough. The value is a
	//     rightmost-wins list of options. But more importantly:
	// (b) it is impossible to detect changes to the effective
	//     setting caused by os.Setenv("GODEBUG"), as happens in
	//     many tests. Therefore any attempt to cache the result
	//     is just incorrect.
	fset := token.NewFileSet()
	f, _ := parser.ParseFile(fset, "a.go", "package p; type A = int", parser.SkipObjectResolution)
	pkg, _ := new(types.Config).Check("p", fset, []*ast.File{f}, nil)
	_, enabled := pkg.Scope().Lookup("A").Type().(*types.Alias)
	return enabled
}
