// Copyright 2021 The Go Authors. All rights reserved.
// Use of this source code is governed by a BSD-style
// license that can be found in the LICENSE file.

// Package typeparams contains common utilities for writing tools that
// interact with generic Go code, as introduced with Go 1.18. It
// supplements the standard library APIs. Notably, the StructuralTerms
// API computes a minimal representation of the structural
// restrictions on a type parameter.
//
// An external version of these APIs is available in the
// golang.org/x/exp/typeparams module.
package typeparams

import (
	"go/ast"
	"go/token"
	"go/types"
)

// UnpackIndexExpr extracts data from AST nodes that represent index
// expressions.
//
// For an ast.IndexExpr, the resulting indices slice will contain exactly one
// index expression. For an ast.IndexListExpr (go1.18+), it may have a variable
// number of index expressions.
//
// For nodes that don't represent index expressions, the first return value of
// UnpackIndexExpr will be nil.
func UnpackIndexExpr(n ast.Node) (x ast.Expr, lbrack token.Pos, indices []ast.Expr, rbrack token.Pos) {
	switch e := n.(type) {
	case *ast.IndexExpr:
		return e.X, e.Lbrack, []ast.Expr{e.Index}, e.Rbrack
	case *ast.IndexListExpr:
		return e.X, e.Lbrack, e.Indices, e.Rbrack
	}
	return nil, token.NoPos, nil, token.NoPos
}

// PackIndexExpr returns an *ast.IndexExpr or *ast.IndexListExpr, depending on
// the cardinality of indices. Calling PackIndexExpr with len(indices) == 0
// will panic.
func PackIndexExpr(x ast.Expr, lbrack token.Pos, indices []ast.Expr, rbrack token.Pos) ast.Expr {
	switch len(indices) {
	case 0:
		panic("empty indices")
	case 1:
		return &ast.IndexExpr{
			X:      x,
			Lbrack: lbrack,
			Index:  indices[0],
			Rbrack: rbrack,
		}
	default:
		return &ast.IndexListExpr{
			X:       x,
			Lbrack:  lbrack,
			Indices: indices,
			Rbrack:  rbrack,
		}
	}
}

// IsTypeParam reports whether t is a type parameter (or an alias of one).
func IsTypeParam(t types.Type) bool {
	_, ok := types.Unalias(t).(*types.TypeParam)
	return ok
}
