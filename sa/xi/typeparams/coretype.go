// Copyright 2022 The Go Authors. All rights reserved.
// Use of this source code is governed by a BSD-style
// license that can be found in the LICENSE file.

package typeparams

import (
	"fmt"
	"go/types"
)

// CoreType returns the core type of T or nil if T does not have a core type.
//
// See https://go.dev/ref/spec#Core_types for the definition of a core type.
func CoreType(T types.Type) types.Type {
	U := T.Underlying()
	if _, ok := U.(*types.Interface); !ok {
		return U // for non-interface types,
	}

	terms, err := NormalTerms(U)
	if len(terms) == 0 || err != nil {
		// len(terms) -> empty type set of interface.
		// err != nil => U is invalid, exceeds complexity bounds, or has an empty type set.
		return nil // no core type.
	}

	U = terms[0].Type().Underlying()
	var identical int // i in [0,identical) => Identical(U, terms[i].Type().Underlying())
	for identical = 1; identical < len(terms); identical++ {
		if !types.Identical(U, terms[identical].Type().Underlying()) {
			break
		}
	}

	if identical == len(terms) {
		// https://go.dev/ref/spec#Core_types
		// "There is a single type U which is the underlying type of all types in the type set of T"
		return U
	}
	ch, ok := U.(*types.Chan)
	if !ok {
		return nil // no core type as identical < len(terms) and U is not a channel.
	}
	// https://go.dev/ref/spec#Core_types
	// "the type chan E if T contains only bidirectional channels, or the type chan<- E or
	// <-chan E depending on the direction of the directional channels present."
	for chans := identical; chans < len(terms); chans++ {
		curr, ok := terms[chans].Type().Underlying().(*types.Chan)
		if !ok {
			return nil
		}
		if !types.Identical(ch.Elem(), curr.Elem()) {
			return nil // channel elements are not identical.
		}
		if ch.Dir() == types.SendRecv {
			// ch is bidirectional. We can safely always use curr's direction.
			ch = curr
		} else if curr.Dir() != types.SendRecv && ch.Dir() != curr.Dir() {
			// ch and curr are not bidirectional and not the same direction.
			return nil
		}
	}
	return ch
}

// NormalTerms returns a slice of terms representing the normalized structural
// type restrictions of a type, if any.
//
// For all types other than *types.TypeParam, *types.Interface, and
// *types.Union, this is just a single term with Tilde() == false and
// Type() == typ. For *types.TypeParam, *types.Interface, and *types.Union, see
// below.
//
// Structural type restrictions of a type parameter are created via
// non-interface types embedded in its constraint interface (directly, or via a
// chain of interface embeddings). For example, in the declaration type
// T[P interface{~int; m()}] int the structural restriction of the type
// parameter P is ~int.
//
// With interface embedding and unions, the specification of structural type
// restrictions may be arbitrarily complex. For example, consider the
// following:
//
//	type A interface{ ~string|~[]byte }
//
//	type B interface{ int|string }
//
//	type C interface { ~string|~int }
//
//	type T[P interface{ A|B; C }] int
//
// In this example, the structural type restriction of P is ~string|int: A|B
// expands to ~string|~[]byte|int|string, which reduces to ~string|~[]byte|int,
// which when intersected with C (~string|~int) yields ~string|int.
//
// NormalTerms computes these expansions and reductions, producing a
// "normalized" form of the embeddings. A structural restriction is normalized
// if it is a single union containing no interface terms, and is minimal in the
// sense that removing any term changes the set of types satisfying the
// constraint. It is left as a proof for the reader that, modulo sorting, there
// is exactly one such normalized form.
//
// Because the minimal representation always takes this form, NormalTerms
// returns a slice of tilde terms corresponding to the terms of the union in
// the normalized structural restriction. An error is returned if the type is
// invalid, exceeds complexity bounds, or has an empty type set. In the latter
// case, NormalTerms returns ErrEmptyTypeSet.
//
// NormalTerms makes no guarantees about the order of terms, except that it
// is deterministic.
func NormalTerms(typ types.Type) ([]*types.Term, error) {
	switch typ := typ.Underlying().(type) {
	case *types.TypeParam:
		return StructuralTerms(typ)
	case *types.Union:
		return UnionTermSet(typ)
	case *types.Interface:
		return InterfaceTermSet(typ)
	default:
		return []*types.Term{types.NewTerm(false, typ)}, nil
	}
}

// Deref returns the type of the variable pointed to by t,
// if t's core type is a pointer; otherwise it returns t.
//
// Do not assume that Deref(T)==T implies T is not a pointer:
// consider "type T *T", for example.
//
// TODO(adonovan): ideally this would live in typesinternal, but that
// creates an import cycle. Move there when we melt this package down.
func Deref(t types.Type) types.Type {
	if ptr, ok := CoreType(t).(*types.Pointer); ok {
		return ptr.Elem()
	}
	return t
}

// MustDeref returns the type of the variable pointed to by t.
// It panics if t's core type is not a pointer.
//
// TODO(adonovan): ideally this would live in typesinternal, but that
// creates an import cycle. Move there when we melt this package down.
func MustDeref(t types.Type) types.Type {
	if ptr, ok := CoreType(t).(*types.Pointer); ok {
		return ptr.Elem()
	}
	panic(fmt.Sprintf("%v is not a pointer", t))
}
