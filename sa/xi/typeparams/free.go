// Copyright 2024 The Go Authors. All rights reserved.
// Use of this source code is governed by a BSD-style
// license that can be found in the LICENSE file.

package typeparams

import (
	"go/types"

	"verifsa/xi/aliases"
)

// Free is a memoization of the set of free type parameters within a
// type. It makes a sequence of calls to [Free.Has] for overlapping
// types more efficient. The zero value is ready for use.
//
// NOTE: Adapted from go/types/infer.go. If it is later exported, factor.
type Free struct {
	seen map[types.Type]bool
}

// Has reports whether the specified type has a free type parameter.
func (w *Free) Has(typ types.Type) (res bool) {
	// detect cycles
	if x, ok := w.seen[typ]; ok {
		return x
	}
	if w.seen == nil {
		w.seen = make(map[types.Type]bool)
	}
	w.seen[typ] = false
	defer func() {
		w.seen[typ] = res
	}()

	switch t := typ.(type) {
	case nil, *types.Basic: // TODO(gri) should nil be handled here?
		break

	case *types.Alias:
		if aliases.TypeParams(t).Len() > aliases.TypeArgs(t).Len() {
			return true // This is an uninstantiated Alias.
		}
		// The expansion of an alias can have free type parameters,
		// whether or not the alias itself has type parameters:
		//
		//   func _[K comparable]() {
		//     type Set      = map[K]bool // free(Set)      = {K}
		//     type MapTo[V] = map[K]V    // free(Map[foo]) = {V}
		//   }
		//
		// So, we must Unalias.
		return w.Has(types.Unalias(t))

	case *types.Array:
		return w.Has(t.Elem())

	case *types.Slice:
		return w.Has(t.Elem())

	case *types.Struct:
		for i, n := 0, t.NumFields(); i < n; i++ {
			if w.Has(t.Field(i).Type()) {
				return true
			}
		}

	case *types.Pointer:
		return w.Has(t.Elem())

	case *types.Tuple:
		n := t.Len()
		for i := 0; i < n; i++ {
			if w.Has(t.At(i).Type()) {
				return true
			}
		}

	case *types.Signature:
		// t.tparams may not be nil if we are looking at a signature
		// of a generic function type (or an interface method) that is
		// part of the type we're testing. We don't care about these type
		// parameters.
		// Similarly, the receiver of a method may declare (rather than
		// use) type parameters, we don't care about those either.
		// Thus, we only need to look at the input and result parameters.
		return w.Has(t.Params()) || w.Has(t.Results())

	case *types.Interface:
		for i, n := 0, t.NumMethods(); i < n; i++ {
			if w.Has(t.Method(i).Type()) {
				return true
			}
		}
		terms, err := InterfaceTermSet(t)
		if err != nil {
			return false // ill typed
		}
		for _, term := range terms {
			if w.Has(term.Type()) {
				return true
			}
		}

	case *types.Map:
		return w.Has(t.Key()) || w.Has(t.Elem())

	case *types.Chan:
		return w.Has(t.Elem())

	case *types.Named:
		args := t.TypeArgs()
		if params := t.TypeParams(); params.Len() > args.Len() {
			return true // this is an uninstantiated named type.
		}
		for i, n := 0, args.Len(); i < n; i++ {
			if w.Has(args.At(i)) {
				return true
			}
		}
		return w.Has(t.Underlying()) // recurse for types local to parameterized functions

	case *types.TypeParam:
		return true

	default:
		panic(t) // unreachable
	}

	return false
}
