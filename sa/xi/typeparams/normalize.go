// Copyright 2021 The Go Authors. All rights reserved.
// Use of this source code is governed by a BSD-style
// license that can be found in the LICENSE file.

package typeparams

import (
	"errors"
	"fmt"
	"go/types"
	"os"
	"strings"
)

//go:generate go run copytermlist.go

const debug = false

var ErrEmptyTypeSet = errors.New("empty type set")

// StructuralTerms returns a slice of terms representing the normalized
// structural type restrictions of a type parameter, if any.
//
// Structural type restrictions of a type parameter are created via
// non-interface types embedded in its constraint interface (directly, or via a
// chain of interface embeddings). For example, in the declaration
//
//	type T[P interface{~int; m()}] int
//
// the structural restriction of the type parameter P is ~int.
//
// With interface embedding and unions, the specification of structural type
// restrictions may be arbitrarily complex. For example, consider the
// following:
//
//	type A interface{ ~string|~[]byte }
//
//	type B interface{ int|string }
//
//	type C interface { ~string|~int }
//
//	type T[P interface{ A|B; C }] int
//
// In this example, the structural type restriction of P is ~string|int: A|B
// expands to ~string|~[]byte|int|string, which reduces to ~string|~[]byte|int,
// which when intersected with C (~string|~int) yields ~string|int.
//
// StructuralTerms computes these expansions and reductions, producing a
// "normalized" form of the embeddings. A structural restriction is normalized
// if it is a single union containing no interface terms, and is minimal in the
// sense that removing any term changes the set of types satisfying the
// constraint. It is left as a proof for the reader that, modulo sorting, there
// is exactly one such normalized form.
//
// Because the minimal representation always takes this form, StructuralTerms
// returns a slice of tilde terms corresponding to the terms of the union in
// the normalized structural restriction. An error is returned if the
// constraint interface is invalid, exceeds complexity bounds, or has an empty
// type set. In the latter case, StructuralTerms returns ErrEmptyTypeSet.
//
// StructuralTerms makes no guarantees about the order of terms, except that it
// is deterministic.
func StructuralTerms(tparam *types.TypeParam) ([]*types.Term, error) {
	constraint := tparam.Constraint()
	if constraint == nil {
		return nil, fmt.Errorf("%s has nil constraint", tparam)
	}
	iface, _ := constraint.Underlying().(*types.Interface)
	if iface == nil {
		return nil, fmt.Errorf("constraint is %T, not *types.Interface", constraint.Underlying())
	}
	return InterfaceTermSet(iface)
}

// InterfaceTermSet computes the normalized terms for a constraint interface,
// returning an error if the term set cannot be computed or is empty. In the
// latter case, the error will be ErrEmptyTypeSet.
//
// See the documentation of StructuralTerms for more information on
// normalization.
func InterfaceTermSet(iface *types.Interface) ([]*types.Term, error) {
	return computeTermSet(iface)
}

// UnionTermSet computes the normalized terms for a union, returning an error
// if the term set cannot be computed or is empty. In the latter case, the
// error will be ErrEmptyTypeSet.
//
// See the documentation of StructuralTerms for more information on
// normalization.
func UnionTermSet(union *types.Union) ([]*types.Term, error) {
	return computeTermSet(union)
}

func computeTermSet(typ types.Type) ([]*types.Term, error) {
	tset, err := computeTermSetInternal(typ, make(map[types.Type]*termSet), 0)
	if err != nil {
		return nil, err
	}
	if tset.terms.isEmpty() {
		return nil, ErrEmptyTypeSet
	}
	if tset.terms.isAll() {
		return nil, nil
	}
	var terms []*types.Term
	for _, term := range tset.terms {
		terms = append(terms, types.NewTerm(term.tilde, term.typ))
	}
	return terms, nil
}

// A termSet holds the normalized set of terms for a given type.
//
// The name termSet is intentionally distinct from 'type set': a type set is
// all types that implement a type (and includes method restrictions), whereas
// a term set just represents the structural restrictions on a type.
type termSet struct {
	complete bool
	terms    termlist
}

func indentf(depth int, format string, args ...interface{}) {
	fmt.Fprintf(os.Stderr, strings.Repeat(".", depth)+format+"\n", args...)
}

func computeTermSetInternal(t types.Type, seen map[types.Type]*termSet, depth int) (res *termSet, err error) {
	if t == nil {
		panic("nil type")
	}

	if debug {
		indentf(depth, "%s", t.String())
		defer func() {
			if err != nil {
				indentf(depth, "=> %s", err)
			} else {
				indentf(depth, "=> %s", res.terms.String())
			}
		}()
	}

	const maxTermCount = 100
	if tset, ok := seen[t]; ok {
		if !tset.complete {
			return nil, fmt.Errorf("cycle detected in the declaration of %s", t)
		}
		return tset, nil
	}

	// Mark the current type as seen to avoid infinite recursion.
	tset := new(termSet)
	defer func() {
		tset.complete = true
	}()
	seen[t] = tset

	switch u := t.Underlying().(type) {
	case *types.Interface:
		// The term set of an interface is the intersection of the term sets of its
		// embedded types.
		tset.terms = allTermlist
		for i := 0; i < u.NumEmbeddeds(); i++ {
			embedded := u.EmbeddedType(i)
			if _, ok := embedded.Underlying().(*types.TypeParam); ok {
				return nil, fmt.Errorf("invalid embedded type %T", embedded)
			}
			tset2, err := computeTermSetInternal(embedded, seen, depth+1)
			if err != nil {
				return nil, err
			}
			tset.terms = tset.terms.intersect(tset2.terms)
		}
	case *types.Union:
		// The term set of a union is the union of term sets of its terms.
		tset.terms = nil
		for i := 0; i < u.Len(); i++ {
			t := u.Term(i)
			var terms termlist
			switch t.Type().Underlying().(type) {
			case *types.Interface:
				tset2, err := computeTermSetInternal(t.Type(), seen, depth+1)
				if err != nil {
					return nil, err
				}
				terms = tset2.terms
			case *types.TypeParam, *types.Union:
				// A stand-alone type parameter or union is not permitted as union
				// term.
				return nil, fmt.Errorf("invalid union term %T", t)
			default:
				if t.Type() == types.Typ[types.Invalid] {
					continue
				}
				terms = termlist{{t.Tilde(), t.Type()}}
			}
			tset.terms = tset.terms.union(terms)
			if len(tset.terms) > maxTermCount {
				return nil, fmt.Errorf("exceeded max term count %d", maxTermCount)
			}
		}
	case *types.TypeParam:
		panic("unreachable")
	default:
		// For all other types, the term set is just a single non-tilde term
		// holding the type itself.
		if u != types.Typ[types.Invalid] {
			tset.terms = termlist{{false, t}}
		}
	}
	return tset, nil
}

// under is a facade for the go/types internal function of the same name. It is
// used by typeterm.go.
func under(t types.Type) types.Type {
	return t.Underlying()
}
