package main

import (
	"fmt"
	"go/constant"
	"go/token"
	"go/types"

	"golang.org/x/tools/go/ssa"
)

func init() {
	register(&Prop{
		ID:         "C09",
		Decided:    "(1) in the counting window's consumer goroutine a delivery (callback/sendResult) is reachable only under buffered-count >= threshold, and the count compared is len(buffer-after-append) of that key; (2) the delivered batch is a fresh slice of length threshold copied from buf[:threshold], and the carried remainder is a fresh copy of buf[threshold:] with the same bound (no aliasing of the emitted batch with the live buffer); (3) the key encoder getKey is injective and NULL-distinct (keyenc); (4) only the Start goroutine receives from triggerChan and only it delivers (Trigger/Stop never flush a partial batch); (5) the idle-key reaper runs only under countStateTTL>0; (6) keyedBuffer/keyedCount/lastActive/stopped are accessed only under cw.mu. Also: a make() whose size is a number converted from query text (utils/cast, strconv) is executed only after a comparison showed that as many items exist, or after a check against a constant bound (fnsafe/alloc-bounded-by-data): CountingWindow(N) allocates nothing proportional to N before N rows arrived. Also: every path of processWindowBatch from GetResults to a return passes aggregator.Reset() (aggstate/reset, shared with C03): a batch that fails to be delivered cannot leave its rows in the accumulators of the next batch. Also: in the window's methods that send on its output channel, every receive from that channel (drop-oldest eviction) is followed on every path by an increment of droppedCount (flow/evicted-result-counted). Also: the loop that feeds the group's aggregates in GroupAggregator.Add has no early exit other than an error return (flow/all-aggregates-fed, shared with C03).",
		NotDecided: "contents of the i-th batch under all interleavings of keys as a count (follows from the above only informally), aggregate values.",
		Run:        runC09,
	})
}

func runC09(a *A) {
	W := func() *types.Named { return a.Named("window", "CountingWindow") }
	startClosure := func() *ssa.Function {
		return a.startGoroutine(a.Method("window", "CountingWindow", "Start"))
	}
	isDelivery := func(in ssa.Instruction, tm func(ssa.Value) *Term) bool {
		c, ok := in.(*ssa.Call)
		if !ok {
			return false
		}
		if cal := c.Call.StaticCallee(); cal != nil {
			return cal.Name() == "sendResult" && cal.Signature.Recv() != nil && isNamedType(cal.Signature.Recv().Type(), windowPkg, "CountingWindow")
		}
		if c.Call.IsInvoke() {
			return false
		}
		return isFieldOf(tm(c.Call.Value), "window.CountingWindow", "callback")
	}
	// sliceLiteral: v is []Row{...} with k elements - a fresh array nothing else refers to
	sliceLiteral := func(v ssa.Value) (int64, bool) {
		sl, ok := v.(*ssa.Slice)
		if !ok || sl.Low != nil || sl.High != nil || sl.Max != nil {
			return 0, false
		}
		al, ok := sl.X.(*ssa.Alloc)
		if !ok || al.Comment != "slicelit" {
			return 0, false
		}
		arr, ok := derefT(al.Type()).Underlying().(*types.Array)
		if !ok {
			return 0, false
		}
		return arr.Len(), true
	}
	// underThresholdEq: block b is reached only when cw.threshold == k held
	underThresholdEq := func(b *ssa.BasicBlock, k int64) bool {
		for _, gd := range guardsOf(b) {
			bo, ok := gd.Cond.(*ssa.BinOp)
			if !ok || !((bo.Op == token.EQL && gd.Sense) || (bo.Op == token.NEQ && !gd.Sense)) {
				continue
			}
			x, y := bo.X, bo.Y
			if _, isK := x.(*ssa.Const); isK {
				x, y = y, x
			}
			c, isK := y.(*ssa.Const)
			if isK && c.Value != nil && c.Value.Kind() == constant.Int && c.Int64() == k && isFieldOf(TermOf(x, nil), "window.CountingWindow", "threshold") {
				return true
			}
		}
		return false
	}
	// a delivery of a k-row literal where threshold == k is known is a complete window by construction (the special
	// case COUNT(1): the row is its own window); shape/batch-cut judges it, the count comparison does not apply
	literalWindow := func(in ssa.Instruction) bool {
		c, ok := in.(*ssa.Call)
		if !ok || len(c.Call.Args) == 0 {
			return false
		}
		k, ok := sliceLiteral(c.Call.Args[len(c.Call.Args)-1])
		return ok && underThresholdEq(in.Block(), k)
	}
	a.Rule("ordtab/count-threshold", 2, func() {
		g := startClosure()
		spec := OrdSpec{Roles: []string{"c", "N"},
			Role: func(t *Term) string {
				if isFieldOf(t, "window.CountingWindow", "threshold") {
					return "N"
				}
				if t.Kind == "index" && isFieldOf(t.Base, "window.CountingWindow", "keyedCount") {
					return "c"
				}
				if t.Kind == "len" && t.Base.Kind == "call" && t.Base.Name == "append" {
					return "c"
				}
				return ""
			}}
		// the per-row step may live in a frame of its own that holds the lock for its duration and hands the cut
		// batch back (`if data := cw.addRow(row); data != nil { deliver(data) }`, a helper unknown to the inventory
		// that defers the unlock): then the batch is *made* only under count >= threshold in that frame, every
		// non-nil value it returns is such a batch, and the goroutine delivers only a non-nil result of it
		host, hostCall, batches := countingHost(a, g, isDelivery)
		if host != nil {
			a.OnlyIf(fname(g)+"#fire-threshold", g.Pos(), "a batch is made (in "+host.Name()+") only when the key's buffered count reached the threshold", spec,
				host.Blocks[0], nil, nil,
				func(in ssa.Instruction, w *Walker) bool {
					v, isV := in.(ssa.Value)
					return isV && batches[v]
				},
				func(r map[string]int, _ map[string]bool) bool { return r["c"] >= r["N"] })
			allInstrs(g, func(in ssa.Instruction) {
				if !isDelivery(in, func(v ssa.Value) *Term { return TermOf(v, nil) }) || literalWindow(in) {
					return
				}
				c := in.(*ssa.Call)
				arg := c.Call.Args[len(c.Call.Args)-1]
				fromHost := false
				for _, l := range phiLeaves(arg) {
					if l == ssa.Value(hostCall) {
						fromHost = true
					}
				}
				okNil := guardedNil(in.Block(), func(x ssa.Value) bool { return x == ssa.Value(hostCall) }, false)
				a.Check(fromHost && okNil, fname(g)+"#delivers-what-the-frame-cut", in.Pos(), "the goroutine delivers the non-nil result of "+host.Name(),
					"a delivery in the consumer goroutine is not the non-nil result of "+host.Name()+": a partial or empty batch could be delivered")
			})
		} else {
			a.OnlyIf(fname(g)+"#fire-threshold", g.Pos(), "a batch is delivered only when the key's buffered count reached the threshold", spec,
				g.Blocks[0], nil, nil,
				func(in ssa.Instruction, w *Walker) bool { return isDelivery(in, w.Term) && !literalWindow(in) },
				func(r map[string]int, _ map[string]bool) bool { return r["c"] >= r["N"] })
		}
		// the count is len(buffer after appending this row)
		n := 0
		scanHosts(a, g, func(in ssa.Instruction) {
			mu, ok := in.(*ssa.MapUpdate)
			if !ok || !isFieldOf(TermOf(mu.Map, nil), "window.CountingWindow", "keyedCount") {
				return
			}
			t := TermOf(mu.Value, nil)
			ok2 := t.Kind == "len" && (t.Base.Kind == "call" && t.Base.Name == "append" && len(t.Base.Args) > 0 && t.Base.Args[0].Kind == "index" && isFieldOf(t.Base.Args[0].Base, "window.CountingWindow", "keyedBuffer") ||
				t.Base.Kind == "index" && isFieldOf(t.Base.Base, "window.CountingWindow", "keyedBuffer"))
			if !ok2 {
				// len(x) where this very x is what is stored as the key's buffer next to it
				if lc, isCall := mu.Value.(*ssa.Call); isCall {
					if cc, isLen := isBuiltinCall(lc, "len"); isLen {
						for _, other := range mu.Block().Instrs {
							if bu, isMU := other.(*ssa.MapUpdate); isMU && bu.Value == cc.Args[0] &&
								isFieldOf(TermOf(bu.Map, nil), "window.CountingWindow", "keyedBuffer") &&
								TermOf(bu.Key, nil).String() == TermOf(mu.Key, nil).String() {
								ok2 = true
							}
						}
					}
				}
			}
			n++
			a.Check(ok2, fname(g)+"#count-is-len", in.Pos(), "keyedCount[key] = "+t.String(), "keyedCount[key] is set to "+t.String()+", not to the length of the key's buffer")
		})
		if n == 0 {
			a.Und(fname(g)+"#count-is-len", g.Pos(), "no update of keyedCount found")
		}
	})
	a.Rule("shape/batch-cut", 3, func() {
		g := startClosure()
		// delivered values
		var delivered []ssa.Value
		allInstrs(g, func(in ssa.Instruction) {
			if isDelivery(in, func(v ssa.Value) *Term { return TermOf(v, nil) }) {
				c := in.(*ssa.Call)
				args := c.Call.Args
				delivered = append(delivered, args[len(args)-1])
			}
		})
		if len(delivered) == 0 {
			a.Und(fname(g)+"#batch", g.Pos(), "no delivery found")
			return
		}
		isThr := func(v ssa.Value) bool {
			return v != nil && isFieldOf(TermOf(v, nil), "window.CountingWindow", "threshold")
		}
		// a batch handed back by a helper ((batch, fired) := cw.appendRow(row)): judged where it is made
		var resolved []ssa.Value
		for _, d := range delivered {
			if ex, ok := d.(*ssa.Extract); ok {
				if c, ok := ex.Tuple.(*ssa.Call); ok && c.Call.StaticCallee() != nil && c.Call.StaticCallee().Pkg == g.Pkg && c.Call.StaticCallee().Blocks != nil {
					any := false
					for _, b := range c.Call.StaticCallee().Blocks {
						if ret, ok := b.Instrs[len(b.Instrs)-1].(*ssa.Return); ok && ex.Index < len(ret.Results) {
							for _, l := range phiLeaves(ret.Results[ex.Index]) {
								if isNilConst(l) {
									continue // the "nothing to deliver" return
								}
								resolved = append(resolved, l)
								any = true
							}
						}
					}
					if any {
						continue
					}
				}
			}
			if c, ok := d.(*ssa.Call); ok && c.Call.StaticCallee() != nil && c.Call.StaticCallee().Pkg == g.Pkg && c.Call.StaticCallee().Blocks != nil && !c.Call.IsInvoke() {
				// a batch handed back as the only result of a helper (nil: nothing to deliver)
				any := false
				for _, l := range returnLeaves(c.Call.StaticCallee(), 0) {
					if isNilConst(l) {
						continue
					}
					resolved = append(resolved, l)
					any = true
				}
				if any {
					continue
				}
			}
			if _, isPhi := d.(*ssa.Phi); isPhi {
				// the batch carried in a variable: every value it can hold, "nothing to deliver" (nil) aside
				for _, l := range phiLeaves(d) {
					if !isNilConst(l) {
						resolved = append(resolved, l)
					}
				}
				continue
			}
			resolved = append(resolved, d)
		}
		delivered = resolved
		for _, d := range delivered {
			if k, isLit := sliceLiteral(d); isLit {
				// a literal batch: fresh by construction; complete only where threshold == its length is known
				okAll := true
				allInstrs(g, func(in ssa.Instruction) {
					if isDelivery(in, func(v ssa.Value) *Term { return TermOf(v, nil) }) {
						c := in.(*ssa.Call)
						if c.Call.Args[len(c.Call.Args)-1] == d && !underThresholdEq(in.Block(), k) {
							okAll = false
						}
					}
				})
				a.Check(okAll, fname(g)+"#batch-fresh", d.Pos(), fmt.Sprintf("the delivered batch is a fresh %d-row literal, delivered only where threshold == %d", k, k),
					fmt.Sprintf("a %d-row literal is delivered as a window where threshold == %d is not known: the window would not have threshold rows", k, k))
				continue
			}
			ms, ok := d.(*ssa.MakeSlice)
			if !ok {
				// hand-over: the batch is the key's filled buffer itself, cut to exactly threshold rows with
				// its capacity limited (buf[:N:N]), and before anything else happens the key's entry is
				// replaced by a fresh slice or deleted - nothing the window keeps shares the batch's array
				if sl, isSl := d.(*ssa.Slice); isSl && isThr(sl.High) && isThr(sl.Max) && sl.Low == nil {
					if hin, isIn := d.(ssa.Instruction); isIn {
						kb := func(v ssa.Value) bool { return isFieldOf(TermOf(v, nil), "window.CountingWindow", "keyedBuffer") }
						handed := func(x ssa.Instruction) bool {
							switch y := x.(type) {
							case *ssa.MapUpdate:
								if kb(y.Map) {
									if _, fresh := y.Value.(*ssa.MakeSlice); fresh {
										return true
									}
								}
							case *ssa.Call:
								if cc, isDel := isBuiltinCall(y, "delete"); isDel && kb(cc.Args[0]) {
									return true
								}
							}
							return false
						}
						leak := pathFromTo(hin, func(x ssa.Instruction) bool {
							if _, isRet := x.(*ssa.Return); isRet {
								return true
							}
							return isDelivery(x, func(v ssa.Value) *Term { return TermOf(v, nil) })
						}, nil, handed)
						a.Check(!leak, fname(g)+"#batch-fresh", d.Pos(), "the delivered batch is the key's own buffer handed over: cut to threshold rows with limited capacity, the key's entry replaced by a fresh slice or deleted before delivery",
							"the delivered batch is a slice of the key's buffer and a path reaches the delivery without the key's entry having been replaced: the batch aliases the live per-key buffer")
						continue
					}
				}
				a.Bad(fname(g)+"#batch-fresh", d.Pos(), "the delivered batch is %s, not a freshly made slice: it may alias the live per-key buffer", TermOf(d, nil))
				continue
			}
			a.Check(isThr(ms.Len), fname(g)+"#batch-fresh", ms.Pos(), "delivered batch = make([]Row, threshold)", "delivered batch has length "+TermOf(ms.Len, nil).String()+", expected threshold")
			// copy into it from buf[:threshold]
			okCopy := false
			for _, r := range *ms.Referrers() {
				c, isCall := r.(*ssa.Call)
				if !isCall {
					continue
				}
				cc, isCopy := isBuiltinCall(c, "copy")
				if !isCopy || cc.Args[0] != ssa.Value(ms) {
					continue
				}
				if sl, ok := cc.Args[1].(*ssa.Slice); ok && sl.Low == nil && isThr(sl.High) {
					bt := TermOf(sl.X, nil)
					if bt.Kind == "call" && bt.Name == "append" && len(bt.Args) > 0 && bt.Args[0].Kind == "index" && isFieldOf(bt.Args[0].Base, "window.CountingWindow", "keyedBuffer") {
						okCopy = true
					}
				}
			}
			if !okCopy {
				// the same prefix copied row by row: for i := 0; i < threshold; i++ { batch[i] = buf[i] }
				if src, bound, isLoop := elementwiseCopy(ms); isLoop {
					okBound := isThr(bound)
					if lc, isCall := bound.(*ssa.Call); isCall {
						if cc, isLen := isBuiltinCall(lc, "len"); isLen && cc.Args[0] == ssa.Value(ms) && isThr(ms.Len) {
							okBound = true
						}
					}
					if sl, isSl := src.(*ssa.Slice); isSl && sl.Low == nil {
						src = sl.X
					}
					bt := TermOf(src, nil)
					if okBound && bt.Kind == "call" && bt.Name == "append" && len(bt.Args) > 0 && bt.Args[0].Kind == "index" && isFieldOf(bt.Args[0].Base, "window.CountingWindow", "keyedBuffer") {
						okCopy = true
					}
				}
			}
			a.Check(okCopy, fname(g)+"#batch-prefix", ms.Pos(), "batch = copy of buf[:threshold] where buf is the key's buffer plus the arriving row",
				"the delivered batch is not filled by copy(batch, buf[:threshold]) from the key's buffer")
		}
		// remainder: every store into keyedBuffer[key] inside the firing branch is a fresh slice; the non-empty one is copy(rem, buf[threshold:])
		nrem := 0
		scanHosts(a, g, func(in ssa.Instruction) {
			mu, ok := in.(*ssa.MapUpdate)
			if !ok || !isFieldOf(TermOf(mu.Map, nil), "window.CountingWindow", "keyedBuffer") {
				return
			}
			if _, isApp := mu.Value.(*ssa.Call); isApp {
				return // buffer + arriving row
			}
			nrem++
			// the remainder carried in a variable (`rest = make(…)` in either arm, then one store): each value it can hold
			for _, val := range phiLeaves(mu.Value) {
				ms, ok := val.(*ssa.MakeSlice)
				if !ok {
					a.Bad(fname(g)+"#remainder-fresh", in.Pos(), "after firing, keyedBuffer[key] is set to %s, not to a fresh slice (would alias the emitted batch)", TermOf(val, nil))
					continue
				}
				if c, ok := ms.Len.(*ssa.Const); ok && c.Int64() == 0 {
					a.Ok(fname(g)+"#remainder-fresh", in.Pos(), "empty fresh remainder")
					continue
				}
				okCopy := false
				for _, r := range *ms.Referrers() {
					if c, isCall := r.(*ssa.Call); isCall {
						if cc, isCopy := isBuiltinCall(c, "copy"); isCopy && cc.Args[0] == ssa.Value(ms) {
							if sl, ok := cc.Args[1].(*ssa.Slice); ok && sl.High == nil && isThr(sl.Low) {
								okCopy = true
							}
						}
					}
				}
				a.Check(okCopy, fname(g)+"#remainder-fresh", in.Pos(), "remainder = fresh copy of buf[threshold:] (same bound as the batch cut)", "the carried remainder is not copy(rem, buf[threshold:])")
			}
		})
		if nrem == 0 {
			a.Und(fname(g)+"#remainder-fresh", g.Pos(), "no remainder store found")
		}
	})
	a.Rule("keyenc/counting", 1, func() { a.keyencRule("window", "CountingWindow", "getKey", keyencOpts{}) })
	a.Rule("aggstate/reset", 2, func() { a.ruleAggregatorReset() })
	a.Rule("flow/all-aggregates-fed", 1, func() { a.ruleAllAggregatesFed() })
	a.Rule("fnsafe/alloc-bounded-by-data", 0, func() { a.ruleAllocBoundedByData() })
	a.Rule("flow/evicted-result-counted", 1, func() { a.ruleEvictedResultCounted(a.Named("window", "CountingWindow")) })
	a.Rule("whomay/consumers", 3, func() {
		w := W()
		trig := a.FieldOf(w, "triggerChan")
		g := startClosure()
		for _, fn := range a.ModFuncs {
			allInstrs(fn, func(in ssa.Instruction) {
				// receives
				var ch ssa.Value
				switch x := in.(type) {
				case *ssa.UnOp:
					if x.Op == token.ARROW {
						ch = x.X
					}
				case *ssa.Select:
					for _, s := range x.States {
						if s.Dir == types.RecvOnly {
							if t := TermOf(s.Chan, nil); t.Kind == "field" && t.Field == trig {
								a.Check(fn == g, "recv(triggerChan)@"+fname(fn), in.Pos(), "the Start goroutine is the only receiver (per-key arrival order)", fname(fn)+" also receives from triggerChan: rows of one key could be processed out of order or by two consumers")
							}
						}
					}
				}
				if ch != nil {
					if t := TermOf(ch, nil); t.Kind == "field" && t.Field == trig {
						a.Check(fn == g, "recv(triggerChan)@"+fname(fn), in.Pos(), "the Start goroutine is the only receiver", fname(fn)+" also receives from triggerChan")
					}
				}
				if isDelivery(in, func(v ssa.Value) *Term { return TermOf(v, nil) }) {
					a.Check(fn == g, "deliver@"+fname(fn), in.Pos(), "delivery from the consumer goroutine, behind the threshold test", fname(fn)+" delivers counting-window rows outside the threshold branch (a partial batch could be flushed)")
				}
			})
		}
	})
	a.Rule("flow/reaper-gated", 1, func() {
		g := startClosure()
		n := 0
		allInstrs(g, func(in ssa.Instruction) {
			if isCallNamed(in, "time", "NewTicker") {
				n++
				ok := knownPositive(in.Block(), func(v ssa.Value) bool {
					return isFieldOf(TermOf(v, nil), "window.CountingWindow", "countStateTTL")
				})
				a.Check(ok, fname(g)+"#reaper-ticker", in.Pos(), "the reaper ticker exists only when countStateTTL > 0", "the idle-key reaper ticker is created without the countStateTTL > 0 guard: keys would be reaped when STATETTL is not set")
			}
		})
		if n == 0 {
			a.Ok(fname(g)+"#reaper-ticker", g.Pos(), "no reaper ticker in the consumer goroutine").Trivial = true
		}
		reap := a.MethodOpt("window", "CountingWindow", "reapIdleKeys")
		if reap != nil {
			for _, fn := range a.ModFuncs {
				for _, c := range callsTo(fn, reap) {
					a.Check(fn == g, fmt.Sprintf("call(reapIdleKeys)@%s", fname(fn)), c.Pos(), "reaping only from the consumer goroutine's ticker case", "reapIdleKeys is called from "+fname(fn))
				}
			}
		}
	})
	a.Rule("locks/guarded-by", 4, func() { a.lockRules("window", "CountingWindow") })
}

// scanHosts applies f to every instruction of g and of the same-package functions g calls (one level):
// the per-row logic of a goroutine body may have been moved into a method.
func scanHosts(a *A, g *ssa.Function, f func(ssa.Instruction)) {
	allInstrs(g, f)
	for _, h := range a.helpersOf(g) {
		allInstrs(h, f)
	}
}

// returnLeaves: the values result k of fn can be (through phis and through the locals go/ssa spills results into
// when the function defers).
func returnLeaves(fn *ssa.Function, k int) []ssa.Value {
	var out []ssa.Value
	seen := map[ssa.Value]bool{}
	for _, b := range fn.Blocks {
		ret, ok := b.Instrs[len(b.Instrs)-1].(*ssa.Return)
		if !ok || b == fn.Recover || k >= len(ret.Results) {
			continue
		}
		r := ret.Results[k]
		if ld, isLd := r.(*ssa.UnOp); isLd && ld.Op == token.MUL {
			if al, isAl := ld.X.(*ssa.Alloc); isAl {
				for _, ref := range *al.Referrers() {
					if st, isSt := ref.(*ssa.Store); isSt && st.Addr == ssa.Value(al) {
						for _, l := range phiLeaves(st.Val) {
							if !seen[l] {
								seen[l] = true
								out = append(out, l)
							}
						}
					}
				}
				continue
			}
		}
		for _, l := range phiLeaves(r) {
			if !seen[l] {
				seen[l] = true
				out = append(out, l)
			}
		}
	}
	return out
}

// countingHost: the frame of the counting window's per-row step when it is not the consumer goroutine itself: a
// helper unknown to the inventory, called from g, whose single slice result g delivers. Returns the helper, the call
// and the set of non-nil values the helper can return.
func countingHost(a *A, g *ssa.Function, isDelivery func(ssa.Instruction, func(ssa.Value) *Term) bool) (*ssa.Function, *ssa.Call, map[ssa.Value]bool) {
	var host *ssa.Function
	var hostCall *ssa.Call
	allInstrs(g, func(in ssa.Instruction) {
		if !isDelivery(in, func(v ssa.Value) *Term { return TermOf(v, nil) }) {
			return
		}
		c := in.(*ssa.Call)
		for _, l := range phiLeaves(c.Call.Args[len(c.Call.Args)-1]) {
			if hc, ok := l.(*ssa.Call); ok {
				if h := hc.Call.StaticCallee(); h != nil && isNewFunc(h) && h.Signature.Results().Len() == 1 {
					host, hostCall = h, hc
				}
			}
		}
	})
	if host == nil {
		return nil, nil, nil
	}
	batches := map[ssa.Value]bool{}
	for _, l := range returnLeaves(host, 0) {
		if !isNilConst(l) {
			batches[l] = true
		}
	}
	return host, hostCall, batches
}

// startGoroutine: the body of the goroutine a window's Start launches - the closure of `go func(){…}()`, or the
// method of `go w.run()` when that method is used nowhere else in the module (a second launch or a plain call would
// make a second consumer; a closure cannot be referred to from elsewhere).
func (a *A) startGoroutine(st *ssa.Function) *ssa.Function {
	var g *ssa.Function
	n := 0
	allInstrs(st, func(in ssa.Instruction) {
		if gi, ok := in.(*ssa.Go); ok {
			if mc, ok := gi.Call.Value.(*ssa.MakeClosure); ok {
				g = mc.Fn.(*ssa.Function)
				n++
			} else if sc := gi.Call.StaticCallee(); sc != nil && sc.Blocks != nil && a.fnInModule(sc) {
				g = sc
				n++
			}
		}
	})
	if g == nil || n != 1 {
		a.anchorFail(fname(st) + " does not start exactly one goroutine (closure or method of the module)")
		return nil
	}
	if g.Parent() == nil {
		refs := 0
		for _, fn := range a.ModFuncs {
			allInstrs(fn, func(in ssa.Instruction) {
				var ops [16]*ssa.Value
				for _, op := range in.Operands(ops[:0]) {
					if *op == ssa.Value(g) {
						refs++
					}
				}
			})
		}
		if refs != 1 {
			a.Bad(fname(g)+"#only-started-by-Start", g.Pos(), fmt.Sprintf("%s, the goroutine body %s starts, is referred to %d times in the module: it could run twice (two consumers of one queue)", fname(g), fname(st), refs))
			return g
		}
	}
	return g
}
