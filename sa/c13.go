package main

import (
	"fmt"
	"go/constant"
	"go/token"
	"go/types"
	"sort"
	"strings"

	"golang.org/x/tools/go/ssa"
)

func init() {
	register(&Prop{
		ID:         "C13",
		Decided:    "(1) routing: every predicate text that reaches condition.NewExprCondition from WHERE (RegisterFilter) and HAVING (applyHavingWithCondition) flows through PreprocessLikeExpression and PreprocessIsNullExpression, and every compile/eval in ExprBridge.EvaluateExpression is dominated by preprocessCached, which applies both rewrites; the name like_match is bound in the condition environment and in both bridge environments, is_null/is_not_null in the condition environment; (2) wildcard priority in each of the three hand-written LIKE matchers: when the pattern byte is '%', what the matcher does in that step does not depend on the text byte (a '%' in the pattern is never consumed as a literal match of a '%' in the text); (3) the three matchers end by skipping trailing '%' and accept iff the pattern is exhausted. Also: the literal handed to contains/startsWith/endsWith by the LIKE rewriter is the pattern with every leading/trailing % removed. Also: in package expr an operand of unknown type is rendered as text (fmt.Sprintf %v) for a string comparison / the LIKE matcher only where it cannot be nil (flow/null-never-rendered-for-compare): NULL LIKE p is never decided on the text \"<nil>\". Also: the predicate objects that evaluate LIKE / IS NULL are shared by all goroutines calling Emit/EmitSync: their Evaluate methods keep no per-evaluation state in the shared object (whomay/evaluators-read-only, shared with C05). Also: no struct type and no package-level variable of the module holds an expr-lang vm.VM (ownmap/no-retained-vm): the run-time state of one evaluation is never kept in an object shared by concurrent evaluations or by all instances of the process.",
		NotDecided: "the rest of LIKE matching semantics (backtracking correctness, '_' handling, byte vs rune granularity), the startsWith/endsWith/contains rewriting of simple patterns, IS NULL on typed nils, agreement of the three matchers beyond the clauses above.",
		Run:        runC13,
	})
}

// backwardCallees: static callees whose results can flow into v (through phis, tuples, arguments
// and the string results of module functions).
func (a *A) backwardCallees(v ssa.Value) map[string]bool {
	out := map[string]bool{}
	seen := map[ssa.Value]bool{}
	var rec func(v ssa.Value, depth int)
	rec = func(v ssa.Value, depth int) {
		if v == nil || seen[v] || depth > 8 {
			return
		}
		seen[v] = true
		switch x := v.(type) {
		case *ssa.Phi:
			for _, e := range x.Edges {
				rec(e, depth)
			}
		case *ssa.Extract:
			rec(x.Tuple, depth)
		case *ssa.UnOp:
			if al, ok := x.X.(*ssa.Alloc); ok {
				for _, r := range *al.Referrers() {
					if st, ok := r.(*ssa.Store); ok && st.Addr == ssa.Value(al) {
						rec(st.Val, depth)
					}
				}
			} else {
				rec(x.X, depth)
			}
		case *ssa.FieldAddr:
			// a config field: not traced further
		case *ssa.Call:
			cal := x.Call.StaticCallee()
			if cal == nil {
				// a call through a function value (a table of rewrite steps, a method value): the callees
				// the call graph resolves it to
				if node := a.CG().Nodes[x.Parent()]; node != nil {
					for _, e := range node.Out {
						if e.Site != ssa.CallInstruction(x) || e.Callee == nil || e.Callee.Func == nil {
							continue
						}
						cf := e.Callee.Func
						out[strings.TrimSuffix(strings.TrimSuffix(cf.Name(), "$bound"), "$thunk")] = true
						if cf.Blocks != nil {
							for _, b := range cf.Blocks {
								if ret, ok := b.Instrs[len(b.Instrs)-1].(*ssa.Return); ok {
									for _, r := range ret.Results {
										rec(r, depth+1)
									}
								}
							}
						}
					}
				}
				for _, arg := range x.Call.Args {
					rec(arg, depth)
				}
			}
			if cal != nil {
				out[cal.Name()] = true
				for _, arg := range x.Call.Args {
					rec(arg, depth)
				}
				if a.fnInModule(cal) && cal.Blocks != nil {
					for _, b := range cal.Blocks {
						if ret, ok := b.Instrs[len(b.Instrs)-1].(*ssa.Return); ok {
							for _, r := range ret.Results {
								rec(r, depth+1)
							}
						}
					}
				}
			}
		case *ssa.MakeInterface:
			rec(x.X, depth)
		case *ssa.TypeAssert:
			rec(x.X, depth)
		}
	}
	rec(v, 0)
	return out
}

func runC13(a *A) {
	a.Rule("flow/like-null-routing", 6, func() {
		ctor := a.Func("condition", "NewExprCondition")
		for _, site := range []struct{ rel, typ, m, kind string }{
			{"stream", "Stream", "RegisterFilter", "WHERE"}, {"stream", "DataProcessor", "applyHavingWithCondition", "HAVING"},
		} {
			fn := a.Method(site.rel, site.typ, site.m)
			calls := callsToDeep(fn, ctor)
			if len(calls) == 0 {
				a.Bad(site.kind+"#routing", fn.Pos(), "%s does not compile its predicate through NewExprCondition", fname(fn))
				continue
			}
			for _, c := range calls {
				bc := a.backwardCallees(c.(*ssa.Call).Call.Args[0])
				for _, need := range []string{"PreprocessLikeExpression", "PreprocessIsNullExpression"} {
					a.Check(bc[need], site.kind+"#"+need, c.Pos(), site.kind+" predicate text passes "+need+" before it is compiled",
						site.kind+" predicate text reaches NewExprCondition without "+need+": expr-lang cannot compile LIKE / IS NULL, or evaluates it with other semantics")
				}
			}
		}
		// bridge: preprocessCached applies both rewrites and dominates every compile / eval
		pc := a.Method("functions", "ExprBridge", "preprocessCached")
		var ret ssa.Value
		for _, b := range pc.Blocks {
			if r, ok := b.Instrs[len(b.Instrs)-1].(*ssa.Return); ok && len(r.Results) == 1 {
				if _, isPhi := r.Results[0].(*ssa.Phi); isPhi || ret == nil {
					ret = r.Results[0]
				}
			}
		}
		bc := a.backwardCallees(ret)
		for _, need := range []string{"PreprocessLikeExpression", "PreprocessIsNullExpression"} {
			a.Check(bc[need], fname(pc)+"#"+need, pc.Pos(), "preprocessCached applies "+need, "preprocessCached no longer applies "+need)
		}
		ev := a.Method("functions", "ExprBridge", "EvaluateExpression")
		isPre := func(in ssa.Instruction) bool { return staticCallee(in) == pc }
		isUse := func(in ssa.Instruction) bool {
			cal := staticCallee(in)
			if cal == nil {
				return false
			}
			if cal.Pkg != nil && cal.Pkg.Pkg.Path() == "github.com/expr-lang/expr" && (cal.Name() == "Eval" || cal.Name() == "Compile") {
				return true
			}
			return cal.Name() == "CompileExpressionWithStreamSQLFunctions" || cal.Name() == "fallbackToCustomExpr" || cal.Name() == "evaluateStringConcatenation"
		}
		n := a.ruleDominatedBy(ev, fname(ev)+"#preprocess-first", isPre, isUse, "compiled / evaluated only after preprocessCached", "an expression can be compiled or evaluated without preprocessCached: LIKE / IS NULL would reach expr-lang raw")
		if n == 0 {
			a.Und(fname(ev)+"#preprocess-first", ev.Pos(), "no compile/eval call found in EvaluateExpression")
		}
		// and they use the preprocessed text
		allInstrs(ev, func(in ssa.Instruction) {
			if !isUse(in) {
				return
			}
			c := callCommon(in)
			for _, arg := range c.Args {
				if isStringType(arg.Type()) {
					ok := false
					for _, l := range phiLeaves(arg) {
						if cc, isCall := l.(*ssa.Call); isCall && cc.Call.StaticCallee() == pc {
							ok = true
						}
					}
					a.Check(ok, fname(ev)+"#uses-preprocessed-text", in.Pos(), "the text compiled is the preprocessed one", "the text passed to "+staticCallee(in).Name()+" is not the result of preprocessCached")
					break
				}
			}
		})
	})
	a.Rule("tables/like-bindings", 3, func() {
		for _, site := range []struct {
			fn    *ssa.Function
			names []string
		}{
			{a.Func("condition", "NewExprCondition"), []string{"like_match", "is_null", "is_not_null"}},
			{a.Method("functions", "ExprBridge", "CompileExpressionWithStreamSQLFunctions"), []string{"like_match"}},
			{a.Method("functions", "ExprBridge", "CreateEnhancedExprEnvironment"), []string{"like_match"}},
		} {
			consts := map[string]bool{}
			for _, f := range withClosures(site.fn) {
				allInstrs(f, func(in ssa.Instruction) {
					for _, op := range in.Operands(nil) {
						if k, ok := (*op).(*ssa.Const); ok && k.Value != nil && k.Value.Kind() == constant.String {
							consts[constant.StringVal(k.Value)] = true
						}
					}
				})
			}
			var missing []string
			for _, n := range site.names {
				if !consts[n] {
					missing = append(missing, n)
				}
			}
			sort.Strings(missing)
			a.Check(len(missing) == 0, fname(site.fn)+"#binds", site.fn.Pos(), "binds "+strings.Join(site.names, ", "), "does not bind "+strings.Join(missing, ", ")+": the rewritten predicate would not compile in this environment")
		}
	})
	a.Rule("shape/trailing-wildcards", 3, func() {
		for _, m := range []*ssa.Function{a.Func("condition", "matchesLikePattern"), a.Func("expr", "matchLikePattern"), a.Method("functions", "ExprBridge", "matchesLikePattern")} {
			a.ruleTrailingWildcards(m)
		}
	})
	a.Rule("shape/like-shortcut-operand", 3, func() { a.ruleLikeShortcutOperand() })
	a.Rule("whomay/evaluators-read-only", 5, func() { a.ruleEvaluatorsReadOnly() })
	a.Rule("ownmap/no-retained-vm", 1, func() { a.ruleNoRetainedVM() })
	a.Rule("flow/null-never-rendered-for-compare", 2, func() { a.ruleNullNeverRenderedForCompare() })
	a.Rule("shape/like-rewrite-mentions-column", 1, func() {
		// whatever a LIKE is rewritten to has to look at the column: a constant (LIKE '%' -> true) also
		// holds for a NULL or missing column, for which LIKE is not true
		fn := a.Method("functions", "ExprBridge", "convertLikeToFunction")
		field := fn.Params[1]
		var bad []string
		n := 0
		for _, b := range fn.Blocks {
			ret, ok := b.Instrs[len(b.Instrs)-1].(*ssa.Return)
			if !ok {
				continue
			}
			// does the rendered text contain the column? a Sprintf with the column among its operands, or
			// a same-package render helper that is given the column and puts it into every text it returns
			var mentions func(v ssa.Value, col ssa.Value, d int) bool
			mentions = func(v ssa.Value, col ssa.Value, d int) bool {
				c, isCall := v.(*ssa.Call)
				if !isCall || d > 2 {
					return false
				}
				for _, e := range appendedElems(&c.Call) {
					if mi, isMI := e.(*ssa.MakeInterface); isMI && mi.X == col {
						return true
					}
				}
				h := c.Call.StaticCallee()
				if h == nil || h.Blocks == nil || h.Pkg != fn.Pkg {
					return false
				}
				for i, arg := range c.Call.Args {
					if arg != col || i >= len(h.Params) {
						continue
					}
					all, any := true, false
					for _, hb := range h.Blocks {
						if hr, ok := hb.Instrs[len(hb.Instrs)-1].(*ssa.Return); ok && len(hr.Results) > 0 {
							for _, hl := range phiLeaves(hr.Results[0]) {
								any = true
								if !mentions(hl, h.Params[i], d+1) {
									all = false
								}
							}
						}
					}
					if any && all {
						return true
					}
				}
				return false
			}
			for _, l := range phiLeaves(ret.Results[0]) {
				n++
				if mentions(l, field, 0) {
					continue
				}
				bad = append(bad, TermOf(l, nil).String())
			}
		}
		a.Check(len(bad) == 0 && n > 0, fname(fn)+"#mentions-column", fn.Pos(), fmt.Sprintf("all %d rewrites test the column", n),
			"LIKE is rewritten to "+strings.Join(bad, ", ")+" without looking at the column: the predicate also holds for a NULL or missing column")
	})
	a.Rule("ordtab/wildcard-priority", 3, func() {
		for _, m := range []*ssa.Function{a.Func("condition", "matchesLikePattern"), a.Func("expr", "matchLikePattern"), a.Method("functions", "ExprBridge", "matchesLikePattern")} {
			a.ruleWildcardPriority(m)
		}
	})
}

// ruleWildcardPriority: within the main loop of a LIKE matcher, with the pattern byte equal to '%',
// the set of control-flow paths of one step is the same whether or not the text byte equals it.
func (a *A) ruleWildcardPriority(fn *ssa.Function) {
	construct := fname(fn) + "#wildcard-priority"
	var strParams []*ssa.Parameter
	for _, p := range fn.Params {
		if isStringType(p.Type()) {
			strParams = append(strParams, p)
		}
	}
	if len(strParams) != 2 {
		a.Und(construct, fn.Pos(), "expected (text, pattern string) parameters")
		return
	}
	text, pattern := strParams[0], strParams[1]
	// the main loop: the first block ending in an If on ti < len(text)
	var header *ssa.BasicBlock
	for _, b := range fn.Blocks {
		if iff, ok := b.Instrs[len(b.Instrs)-1].(*ssa.If); ok {
			if bo, ok := iff.Cond.(*ssa.BinOp); ok && bo.Op == token.LSS {
				if c, ok := bo.Y.(*ssa.Call); ok {
					if cc, ok := isBuiltinCall(c, "len"); ok && cc.Args[0] == ssa.Value(text) && reachesAvoiding2(b, b) {
						header = b
						break
					}
				}
			}
		}
	}
	if header == nil {
		a.Und(construct, fn.Pos(), "main loop `for ti < len(text)` not recognised")
		return
	}
	sig := func(textIsPct bool) (string, string) {
		r := map[string]int{"P": 1, "PCT": 1, "US": 0, "T": 2}
		if textIsPct {
			r["T"] = 1
		}
		env := &Env{a: a, Rank: r, Flags: map[string]bool{},
			Role: func(t *Term) string {
				if t.Kind == "index" && t.Base.Kind == "param" {
					if t.Base.Val == ssa.Value(pattern) {
						return "P"
					}
					if t.Base.Val == ssa.Value(text) {
						return "T"
					}
				}
				if t.Kind == "const" && t.Const != nil && t.Const.Kind() == constant.Int {
					switch t.Const.ExactString() {
					case "37":
						return "PCT"
					case "95":
						return "US"
					}
				}
				return ""
			}}
		w := NewWalker(env, nil)
		w.RetIdx = -1
		w.Visits = 1
		w.Stop = func(b *ssa.BasicBlock) bool { return b == header }
		paths := map[string]bool{}
		var cur []string
		_ = cur
		w.Target = func(in ssa.Instruction, w *Walker) bool {
			if in == in.Block().Instrs[0] {
				w.Tag(w.cur.tag + fmt.Sprintf("%d,", in.Block().Index))
			}
			return false
		}
		over := ""
		for _, o := range w.Run(header.Succs[0], header) {
			if o.Ended == "overflow" {
				over = "path budget exceeded"
			}
			paths[o.Tag+o.Ended] = true
		}
		var l []string
		for p := range paths {
			l = append(l, p)
		}
		sort.Strings(l)
		return strings.Join(l, " | "), over
	}
	s1, o1 := sig(true)
	s2, o2 := sig(false)
	if o1 != "" || o2 != "" {
		a.Und(construct, fn.Pos(), "%s%s", o1, o2)
		return
	}
	if s1 == s2 {
		a.Ok(construct, header.Instrs[0].Pos(), "with the pattern byte '%%' a step takes the same paths whatever the text byte is").Extra = map[string]any{"paths": s1}
	} else {
		a.Bad(construct, header.Instrs[0].Pos(), "with the pattern byte '%%', the step depends on the text byte: when the text byte is also '%%' the wildcard is consumed as a literal match (paths {%s}) instead of acting as a wildcard (paths {%s}); e.g. '%%xb1' LIKE '%%b_' is decided false", s1, s2)
	}
}

// ruleTrailingWildcards: once the text is exhausted, *every* remaining '%' of the pattern is skipped
// (a loop, or a trim with cutset "%"), and the matcher accepts iff the pattern is then exhausted.
func (a *A) ruleTrailingWildcards(fn *ssa.Function) {
	construct := fname(fn) + "#trailing-wildcards"
	var strParams []*ssa.Parameter
	for _, p := range fn.Params {
		if isStringType(p.Type()) {
			strParams = append(strParams, p)
		}
	}
	if len(strParams) != 2 {
		a.Und(construct, fn.Pos(), "expected (text, pattern string) parameters")
		return
	}
	text, pattern := strParams[0], strParams[1]
	var main *loopInfo
	loops := sccLoops(fn)
	for _, li := range loops {
		for b := range li.Blocks {
			if iff, ok := b.Instrs[len(b.Instrs)-1].(*ssa.If); ok {
				if bo, ok := iff.Cond.(*ssa.BinOp); ok && bo.Op == token.LSS {
					if c, ok := bo.Y.(*ssa.Call); ok {
						if cc, ok := isBuiltinCall(c, "len"); ok && cc.Args[0] == ssa.Value(text) && (main == nil || len(li.Blocks) > len(main.Blocks)) {
							main = li
						}
					}
				}
			}
		}
	}
	if main == nil {
		a.Und(construct, fn.Pos(), "main loop over the text not recognised")
		return
	}
	// after the main loop: a loop that skips pattern[i] == '%' and a return of (index == len(pattern)) —
	// in the matcher itself, or in a same-package helper the matcher returns the result of
	tail := func(f *ssa.Function, pat ssa.Value, excluded map[*ssa.BasicBlock]bool) (skip, accept bool) {
		for _, li := range sccLoops(f) {
			inside := false
			for b := range li.Blocks {
				if excluded[b] {
					inside = true
				}
			}
			if inside {
				continue
			}
			for b := range li.Blocks {
				for _, in := range b.Instrs {
					if bo, ok := in.(*ssa.BinOp); ok && bo.Op == token.EQL {
						if k, ok := bo.Y.(*ssa.Const); ok && k.Value != nil && k.Value.Kind() == constant.Int && k.Int64() == '%' {
							if t := TermOf(bo.X, nil); t.Kind == "index" && t.Base.Val == pat {
								skip = true
							}
						}
					}
				}
			}
		}
		// "the rest of the pattern is nothing but '%'" written as a for-all loop: a loop over the pattern
		// (or its rest) that returns false at the first byte that is not '%' and true when it runs out
		var isPat func(v ssa.Value) bool
		isPat = func(v ssa.Value) bool {
			if v == pat {
				return true
			}
			if sl, ok := v.(*ssa.Slice); ok && sl.X == pat {
				return true
			}
			// []byte(rest) / []rune(rest), and the rest carried in a variable (every value it can hold is the
			// pattern or a rest of it; the "" of a path that has already refused aside)
			if cv, ok := v.(*ssa.Convert); ok {
				return isPat(cv.X)
			}
			if _, ok := v.(*ssa.Phi); ok {
				some := false
				for _, l := range phiLeaves(v) {
					if k, isK := l.(*ssa.Const); isK && k.Value != nil && k.Value.Kind() == constant.String && constant.StringVal(k.Value) == "" {
						continue
					}
					if _, isPhi := l.(*ssa.Phi); isPhi || !isPat(l) {
						return false
					}
					some = true
				}
				return some
			}
			return false
		}
		endsIn := func(b *ssa.BasicBlock, want bool) bool {
			for hops := 0; hops < 4 && b != nil; hops++ {
				switch last := b.Instrs[len(b.Instrs)-1].(type) {
				case *ssa.Return:
					if len(last.Results) == 1 {
						if k, ok := constBool(last.Results[0]); ok && k == want {
							return true
						}
					}
					return false
				case *ssa.Jump:
					if len(b.Instrs) > 1 {
						return false
					}
					b = b.Succs[0]
				default:
					return false
				}
			}
			return false
		}
		for _, li := range sccLoops(f) {
			inside := false
			for b := range li.Blocks {
				if excluded[b] {
					inside = true
				}
			}
			if inside {
				continue
			}
			mismatchFalse, exhaustedTrue := false, false
			for b := range li.Blocks {
				iff, ok := b.Instrs[len(b.Instrs)-1].(*ssa.If)
				if !ok {
					continue
				}
				// `for i := range rest` over a string: the loop ends when the iterator runs out
				if ex, isEx := iff.Cond.(*ssa.Extract); isEx && ex.Index == 0 {
					if nx, isNx := ex.Tuple.(*ssa.Next); isNx && nx.IsString {
						if rg, isRg := nx.Iter.(*ssa.Range); isRg && isPat(rg.X) && !li.Blocks[b.Succs[1]] && endsIn(b.Succs[1], true) {
							exhaustedTrue = true
						}
					}
				}
				bo, ok := iff.Cond.(*ssa.BinOp)
				if !ok {
					continue
				}
				if k, isK := bo.Y.(*ssa.Const); isK && k.Value != nil && k.Value.Kind() == constant.Int && k.Int64() == '%' && (bo.Op == token.EQL || bo.Op == token.NEQ) {
					if t := TermOf(bo.X, nil); t.Kind == "index" && t.Base.Val != nil && isPat(t.Base.Val) {
						mis := b.Succs[1]
						if bo.Op == token.NEQ {
							mis = b.Succs[0]
						}
						if !li.Blocks[mis] && endsIn(mis, false) {
							mismatchFalse = true
						}
					}
				}
				if bo.Op == token.LSS {
					if c, isC := bo.Y.(*ssa.Call); isC {
						if cc, isLen := isBuiltinCall(c, "len"); isLen && isPat(cc.Args[0]) && !li.Blocks[b.Succs[1]] && endsIn(b.Succs[1], true) {
							exhaustedTrue = true
						}
					}
				}
			}
			if mismatchFalse && exhaustedTrue {
				skip, accept = true, true
			}
		}
		allInstrs(f, func(in ssa.Instruction) {
			if c, ok := in.(*ssa.Call); ok {
				n := calleeFull(&c.Call)
				if (n == "strings.TrimRight" || n == "strings.TrimLeft" || n == "strings.Trim") && !excluded[c.Block()] {
					if k, ok := c.Call.Args[1].(*ssa.Const); ok && k.Value != nil && constant.StringVal(k.Value) == "%" {
						skip = true
					}
				}
			}
		})
		for _, b := range f.Blocks {
			ret, ok := b.Instrs[len(b.Instrs)-1].(*ssa.Return)
			if !ok || excluded[b] || len(ret.Results) != 1 {
				continue
			}
			for _, l := range phiLeaves(ret.Results[0]) {
				if bo, ok := l.(*ssa.BinOp); ok && bo.Op == token.EQL {
					// `strings.Count(rest, "%") == len(rest)`: every byte of the rest is '%'
					for i, side := range []ssa.Value{bo.X, bo.Y} {
						other := []ssa.Value{bo.Y, bo.X}[i]
						cnt, isCall := side.(*ssa.Call)
						if !isCall || calleeFull(&cnt.Call) != "strings.Count" || len(cnt.Call.Args) != 2 || !isPat(cnt.Call.Args[0]) {
							continue
						}
						if k, isK := cnt.Call.Args[1].(*ssa.Const); !isK || k.Value == nil || k.Value.Kind() != constant.String || constant.StringVal(k.Value) != "%" {
							continue
						}
						if lc, isLen := other.(*ssa.Call); isLen {
							if cc, ok := isBuiltinCall(lc, "len"); ok && cc.Args[0] == cnt.Call.Args[0] {
								skip, accept = true, true
							}
						}
					}
					for i, side := range []ssa.Value{bo.X, bo.Y} {
						other := []ssa.Value{bo.Y, bo.X}[i]
						if c, ok := side.(*ssa.Call); ok {
							if cc, ok := isBuiltinCall(c, "len"); ok && cc.Args[0] == pat {
								accept = true
							}
							// `strings.TrimLeft(pattern[i:], "%") == ""` (or len(...) == 0): the rest of the
							// pattern is nothing but '%' - skips them and accepts in one
							trimmed := c
							if cc, ok := isBuiltinCall(c, "len"); ok {
								if k, isK := other.(*ssa.Const); isK && k.Value != nil && k.Value.Kind() == constant.Int && k.Int64() == 0 {
									if inner, isCall := cc.Args[0].(*ssa.Call); isCall {
										trimmed = inner
									}
								}
							} else if k, isK := other.(*ssa.Const); !(isK && k.Value != nil && k.Value.Kind() == constant.String && constant.StringVal(k.Value) == "") {
								trimmed = nil
							}
							if trimmed != nil {
								n := calleeFull(&trimmed.Call)
								if (n == "strings.TrimLeft" || n == "strings.TrimRight" || n == "strings.Trim") && len(trimmed.Call.Args) == 2 {
									if k, ok := trimmed.Call.Args[1].(*ssa.Const); ok && k.Value != nil && k.Value.Kind() == constant.String && constant.StringVal(k.Value) == "%" {
										if sl, isSl := trimmed.Call.Args[0].(*ssa.Slice); (isSl && sl.X == pat) || trimmed.Call.Args[0] == pat {
											skip, accept = true, true
										}
									}
								}
							}
						}
					}
				}
			}
		}
		return
	}
	skip, accept := tail(fn, pattern, main.Blocks)
	if !(skip && accept) {
		for _, b := range fn.Blocks {
			ret, ok := b.Instrs[len(b.Instrs)-1].(*ssa.Return)
			if !ok || main.Blocks[b] || len(ret.Results) != 1 {
				continue
			}
			for _, l := range phiLeaves(ret.Results[0]) {
				c, ok := l.(*ssa.Call)
				if !ok {
					continue
				}
				h := c.Call.StaticCallee()
				if h == nil || h.Blocks == nil || h.Pkg != fn.Pkg {
					continue
				}
				for i, arg := range c.Call.Args {
					if arg == ssa.Value(pattern) && i < len(h.Params) {
						if s2, a2 := tail(h, h.Params[i], nil); s2 && a2 {
							skip, accept = true, true
						}
					}
				}
			}
		}
	}
	a.Check(skip && accept, construct, fn.Pos(), "after the text is exhausted all remaining '%' are skipped in a loop and the match is accepted iff the pattern is exhausted",
		fmt.Sprintf("after the text is exhausted the matcher does not skip every remaining '%%' (loop found: %v) or does not accept on 'pattern exhausted' (found: %v): e.g. 'abc' LIKE 'a_c%%%%' is decided false", skip, accept))
}

// ruleLikeShortcutOperand: convertLikeToFunction replaces simple LIKE patterns by the builtin string
// operators. The literal handed to contains / startsWith / endsWith must hold no '%' (the operators
// take it literally): it has to be the pattern with the whole run of '%' removed on every side the
// branch allows a '%' on — the result of strings.Trim / TrimLeft / TrimRight with cutset "%", not of
// TrimPrefix / TrimSuffix, which remove one character ('%%a' became endsWith '%a').
func (a *A) ruleLikeShortcutOperand() int {
	fn := a.Method("functions", "ExprBridge", "convertLikeToFunction")
	n := 0
	allInstrs(fn, func(in ssa.Instruction) {
		c, ok := in.(*ssa.Call)
		if !ok {
			return
		}
		f := c.Call.StaticCallee()
		if f == nil || f.Pkg == nil || f.Pkg.Pkg.Path() != "fmt" || f.Name() != "Sprintf" {
			return
		}
		format := constText(c.Call.Args[0])
		op := ""
		for _, o := range []string{" contains ", " startsWith ", " endsWith "} {
			if strings.Contains(format, o) {
				op += strings.TrimSpace(o)
			}
		}
		if op == "" {
			return
		}
		n++
		construct := fname(fn) + "#operand-of-" + op
		// variadic args: the literal operands are every argument after the field
		var bad []string
		okN := 0
		for _, e := range appendedElems(&c.Call) {
			v := e
			if mi, isMI := v.(*ssa.MakeInterface); isMI {
				v = mi.X
			}
			if _, isParam := v.(*ssa.Parameter); isParam {
				continue // the field name
			}
			tc, isCall := v.(*ssa.Call)
			if isCall {
				if tf := tc.Call.StaticCallee(); tf != nil && tf.Pkg != nil && tf.Pkg.Pkg.Path() == "strings" &&
					(tf.Name() == "Trim" || tf.Name() == "TrimLeft" || tf.Name() == "TrimRight") && constText(tc.Call.Args[1]) == "%" {
					okN++
					continue
				}
			}
			bad = append(bad, TermOf(v, nil).String())
		}
		a.Check(len(bad) == 0 && okN > 0, construct, c.Pos(),
			"the literal operand is the pattern with every leading/trailing '%' removed",
			"the literal operand "+strings.Join(bad, ", ")+" of "+op+" is not the pattern with the whole run of '%' removed (strings.Trim/TrimLeft/TrimRight with cutset \"%\"): a remaining '%' would be matched literally")
	})
	return n
}

// ruleNullNeverRenderedForCompare: NULL LIKE p, NULL = x ... are not true. A comparison helper that
// renders an operand of unknown type as text (fmt.Sprintf("%v", x)) and hands the text to a string
// comparison / LIKE matcher must not do so for a nil operand — it would compare the five characters
// "<nil>" (NULL LIKE '%' true, NULL LIKE '_____' true). Every such rendering in package expr is
// unreachable when the rendered operand is nil.
func (a *A) ruleNullNeverRenderedForCompare() int {
	n := 0
	for _, fn := range a.ModFuncs {
		if fn.Pkg != a.Pkg("expr") || fn.Blocks == nil {
			continue
		}
		allInstrs(fn, func(in ssa.Instruction) {
			sp, ok := in.(*ssa.Call)
			if !ok || sp.Call.StaticCallee() == nil || sp.Call.StaticCallee().Pkg == nil || sp.Call.StaticCallee().Pkg.Pkg.Path() != "fmt" || sp.Call.StaticCallee().Name() != "Sprintf" {
				return
			}
			if !strings.Contains(constText(sp.Call.Args[0]), "%v") {
				return
			}
			// the rendered text is handed (directly, or through a variable / the result of a small
			// rendering helper that was inlined) to a function of the module that compares it
			var consumer *ssa.Function
			for v := range flowsForward(sp) {
				if v.Referrers() == nil {
					continue
				}
				for _, r := range *v.Referrers() {
					if c, ok := r.(*ssa.Call); ok && c != sp {
						if callee := c.Call.StaticCallee(); callee != nil && a.fnInModule(callee) {
							for _, arg := range c.Call.Args {
								if arg == v {
									consumer = callee
								}
							}
						}
					}
				}
			}
			if consumer == nil {
				return
			}
			for _, e := range appendedElems(&sp.Call) {
				x := e
				if mi, ok := x.(*ssa.MakeInterface); ok {
					x = mi.X
				}
				var p *ssa.Parameter
				for _, l := range phiLeaves(x) {
					if q, isParam := l.(*ssa.Parameter); isParam {
						p = q
					}
				}
				if p == nil {
					continue
				}
				if _, isIface := p.Type().Underlying().(*types.Interface); !isIface {
					continue
				}
				n++
				reach := reachUnder(fn, sp, func(v ssa.Value) Tri {
					// a nil test of the operand - or of a local that is the operand or nil (`if isTypedNil(left) { left = nil }`)
					if x, nilWhenTrue, ok := nilTest(v); ok {
						all := true
						for _, l := range phiLeaves(x) {
							if l != ssa.Value(p) && !isNilConst(l) {
								all = false
							}
						}
						if all {
							return tri(nilWhenTrue)
						}
					}
					return U
				})
				a.Check(!reach, fmt.Sprintf("%s#%s-rendered-to-%s", fname(fn), p.Name(), consumer.Name()), sp.Pos(),
					"the operand is rendered as text for "+consumer.Name()+" only when it is not nil",
					"the operand "+p.Name()+" is rendered with %v and compared as text by "+consumer.Name()+" also when it is nil: NULL is then the text \"<nil>\", which LIKE '%' and '_____' match")
			}
		})
	}
	return n
}
