package main

import (
	"fmt"
	"go/token"
	"go/types"

	"golang.org/x/tools/go/ssa"
)

func init() {
	register(&Prop{
		ID:         "C04",
		Decided:    "(1) the four key encoders that partition rows (GroupAggregator.Add key, CountingWindow.getKey, extractSessionCompositeKey, GlobalWindow.getKeyAndValues) produce uniquely decodable keys: every raw component framed, NULL/missing distinct from every value, no impure input, and no interface value widened to float64 (cast.ToFloat64/ToFloat64E) and then rendered unless the 64-bit integer types were taken by earlier type-switch cases - float64 has 53 bits (keyenc); (2) function-expression group keys are injected before the row reaches Window.Add; (3) GetResults reports the typed key values recorded for the key it iterates; (4) parser loops that track the parenthesis depth end a list item at a comma only at depth 0 (function keys with several arguments stay one key). Also: the typed key tuple stored per group holds exactly one entry per group field (nil for NULL/missing), so position i is field i. Also: in the clause parsers every non-error way out of a function after a token was written into the item's strings.Builder passes a read of the accumulated text (flow/accumulated-text-consumed): the last item of a clause cannot be dropped by an early return.",
		NotDecided: "the values of function-expression keys; that cast.ToString/%v map distinct values of one scalar type to distinct strings (floats by shortest round-trip); output naming under aliases.",
		Run:        runC04,
	})
}

func runC04(a *A) {
	a.Rule("keyenc/aggregator", 1, func() { a.keyencAggregator() })
	a.Rule("shape/comma-at-depth-zero", 2, func() { a.ruleCommaAtDepthZero() })
	a.Rule("keyenc/counting", 1, func() { a.keyencRule("window", "CountingWindow", "getKey", keyencOpts{}) })
	a.Rule("keyenc/session", 1, func() { a.keyencRule("window", "", "extractSessionCompositeKey", keyencOpts{}) })
	a.Rule("keyenc/global", 1, func() { a.keyencRule("window", "GlobalWindow", "getKeyAndValues", keyencOpts{}) })
}

func init() {
	old := props["C04"].Run
	props["C04"].Run = func(a *A) {
		old(a)
		a.Rule("flow/inject-before-window", 1, func() {
			fn := a.Method("stream", "DataProcessor", "processItem")
			inj := a.Method("stream", "Stream", "injectGroupKeyExprs")
			isAdd := func(in ssa.Instruction) bool {
				c := callCommon(in)
				return c != nil && c.IsInvoke() && c.Method.Name() == "Add" && isNamedType(c.Value.Type(), windowPkg, "Window")
			}
			n := a.ruleDominatedBy(fn, fname(fn)+"#inject-before-add",
				func(in ssa.Instruction) bool { return staticCallee(in) == inj }, isAdd,
				"computed group keys are materialised before the row enters the window",
				"Window.Add can be reached without injectGroupKeyExprs: function-expression group keys would be missing when the window partitions the row")
			if n == 0 {
				a.Und(fname(fn)+"#inject-before-add", fn.Pos(), "no Window.Add call found in processItem")
			}
		})
		a.Rule("shape/key-tuple-positional", 1, func() { a.ruleKeyTuplePositional() })
		a.Rule("flow/accumulated-text-consumed", 6, func() { a.ruleAccumulatedTextConsumed() })
		a.Rule("shape/typed-key-values", 2, func() {
			ga := a.Named("aggregator", "GroupAggregator")
			groups, kv := a.FieldOf(ga, "groups"), a.FieldOf(ga, "groupKeyVals")
			add := a.Method("aggregator", "GroupAggregator", "Add")
			var groupKeys []ssa.Value
			allInstrs(add, func(in ssa.Instruction) {
				if mu, ok := in.(*ssa.MapUpdate); ok {
					if t := TermOf(mu.Map, nil); t.Kind == "field" && t.Field == groups {
						groupKeys = append(groupKeys, mu.Key)
					}
				}
			})
			n := 0
			allInstrs(add, func(in ssa.Instruction) {
				if mu, ok := in.(*ssa.MapUpdate); ok {
					if t := TermOf(mu.Map, nil); t.Kind == "field" && t.Field == kv {
						n++
						same := false
						for _, k := range groupKeys {
							if k == mu.Key {
								same = true
							}
						}
						a.Check(same, fname(add)+"#keyvals-same-key", in.Pos(), "typed key values are recorded under the group's own key", "groupKeyVals is written under a different key than groups: a group would report another tuple's values")
					}
				}
			})
			if n == 0 {
				a.Und(fname(add)+"#keyvals-same-key", add.Pos(), "no write of groupKeyVals in Add")
			}
			gr := a.Method("aggregator", "GroupAggregator", "GetResults")
			m := 0
			// the row of a group may be assembled by a helper method that is handed the iterated key
			scanHosts(a, gr, func(in ssa.Instruction) {
				if lk, ok := in.(*ssa.Lookup); ok {
					if t := TermOf(lk.X, nil); t.Kind == "field" && t.Field == kv {
						m++
						idx := lk.Index
						if prm, isP := idx.(*ssa.Parameter); isP && prm.Parent() != gr {
							for i, q := range prm.Parent().Params {
								if q != prm {
									continue
								}
								allInstrs(gr, func(x ssa.Instruction) {
									if c, ok := x.(*ssa.Call); ok && c.Call.StaticCallee() == prm.Parent() && i < len(c.Call.Args) {
										idx = c.Call.Args[i]
									}
								})
							}
						}
						kt := TermOf(idx, nil)
						ok2 := kt.Kind == "mapkey" && kt.Base.Kind == "field" && kt.Base.Field == groups
						if !ok2 {
							// the groups may be walked in another order (a slice of keys): then the tuple must be read under
							// the very key the group's accumulators are read under
							allInstrs(lk.Parent(), func(x ssa.Instruction) {
								if l2, isL := x.(*ssa.Lookup); isL && l2 != lk {
									if t2 := TermOf(l2.X, nil); t2.Kind == "field" && t2.Field == groups && sameValue(l2.Index, lk.Index) {
										ok2 = true
									}
								}
							})
						}
						a.Check(ok2, fname(gr)+"#keyvals-lookup", in.Pos(), "the reported tuple is groupKeyVals[key] for the key being iterated", "GetResults reads groupKeyVals with "+kt.String()+", not the iterated group key")
					}
				}
			})
			if m == 0 {
				a.Und(fname(gr)+"#keyvals-lookup", gr.Pos(), "GetResults does not read groupKeyVals")
			}
		})
	}
}

// ruleCommaAtDepthZero: a parser loop that tracks the parenthesis depth (a counter incremented on
// TokenLParen and decremented on TokenRParen) and ends a list item at a comma must do so only at
// depth 0: a comma inside the parentheses of a function call belongs to the item
// (GROUP BY coalesce(a, b) was split into 'coalesce(a' and 'b)').
func (a *A) ruleCommaAtDepthZero() int {
	n := 0
	tokT := a.Named("rsql", "TokenType")
	consts := a.tokenConsts()
	isTok := func(v ssa.Value, name string) bool {
		k, ok := v.(*ssa.Const)
		return ok && k.Value != nil && types.Identical(k.Type(), tokT) && k.Int64() == consts[name]
	}
	for _, fn := range a.ModFuncs {
		if fn.Pkg != a.Pkg("rsql") || fn.Blocks == nil {
			continue
		}
		// depth counters: int phis updated by +1 / -1 under LParen / RParen tests
		depth := map[ssa.Value]bool{}
		allInstrs(fn, func(in ssa.Instruction) {
			bo, ok := in.(*ssa.BinOp)
			if !ok || bo.Op != token.ADD && bo.Op != token.SUB || !isIntType(bo.Type()) {
				return
			}
			k, ok := bo.Y.(*ssa.Const)
			if !ok || k.Int64() != 1 {
				return
			}
			lp := guardedByValue(bo.Block(), func(v ssa.Value) bool {
				c, ok := v.(*ssa.BinOp)
				return ok && c.Op == token.EQL && (isTok(c.Y, "TokenLParen") || isTok(c.Y, "TokenRParen"))
			}, true)
			if lp {
				depth[bo.X] = true
				depth[bo] = true
			}
		})
		if len(depth) == 0 {
			continue
		}
		isDepth := func(v ssa.Value) bool {
			if depth[v] {
				return true
			}
			for _, l := range phiLeaves(v) {
				if depth[l] {
					return true
				}
			}
			return false
		}
		// blocks entered because the token is a comma
		for _, b := range fn.Blocks {
			iff, ok := b.Instrs[len(b.Instrs)-1].(*ssa.If)
			if !ok {
				continue
			}
			c, ok := iff.Cond.(*ssa.BinOp)
			if !ok || c.Op != token.EQL || !isTok(c.Y, "TokenComma") {
				continue
			}
			n++
			// on the comma edge: either the depth is tested against 0 before anything is done, or the
			// comma test itself is already guarded by such a test
			okDepth := guardedByValue(b, func(v ssa.Value) bool {
				d, ok := v.(*ssa.BinOp)
				return ok && (d.Op == token.EQL || d.Op == token.LEQ) && isDepth(d.X) && isZeroConst(d.Y)
			}, true)
			if !okDepth {
				succ := b.Succs[0]
				if cond := effectiveBranch(succ); cond != nil && len(succ.Instrs) <= 3 {
					if d, ok := cond.(*ssa.BinOp); ok && (d.Op == token.EQL || d.Op == token.LEQ) && isDepth(d.X) && isZeroConst(d.Y) {
						okDepth = true
					}
				}
			}
			a.Check(okDepth, fname(fn)+"#comma-at-depth-zero", iff.Pos(), "an item ends at a comma only at parenthesis depth 0",
				"the loop tracks the parenthesis depth but ends an item at every comma: a comma inside a function call's arguments splits the item in two unresolvable halves")
		}
	}
	return n
}

// ruleKeyTuplePositional: GetResults restores the group columns from groupKeyVals[key] by position
// (value i belongs to groupFields[i]). The tuple stored for a group must therefore hold exactly one
// entry per group field — nil for a NULL or missing one: on every path through one iteration of the
// loop over groupFields that builds it, exactly one value is appended. A field that is skipped when
// missing shifts the later values to the left and the group reports another tuple.
func (a *A) ruleKeyTuplePositional() int {
	ga := a.Named("aggregator", "GroupAggregator")
	kv := a.FieldOf(ga, "groupKeyVals")
	gf := a.FieldOf(ga, "groupFields")
	add := a.Method("aggregator", "GroupAggregator", "Add")
	n := 0
	allInstrs(add, func(in ssa.Instruction) {
		mu, ok := in.(*ssa.MapUpdate)
		if !ok {
			return
		}
		if t := TermOf(mu.Map, nil); t.Kind != "field" || t.Field != kv {
			return
		}
		n++
		construct := fname(add) + "#key-tuple-positional"
		// where the tuple is built: here, or in a module helper whose result is stored
		type site struct {
			fn  *ssa.Function
			val ssa.Value
		}
		var sites []site
		v := mu.Value
		if c, isCall := v.(*ssa.Call); isCall && c.Call.StaticCallee() != nil && a.fnInModule(c.Call.StaticCallee()) {
			a.calleeReturns(c, 0, func(rv ssa.Value, rf *ssa.Function) { sites = append(sites, site{rf, rv}) }, func(string) {})
		} else if ex, isEx := v.(*ssa.Extract); isEx {
			// one result of a helper that builds the key text and the tuple together
			if c, ok := ex.Tuple.(*ssa.Call); ok && c.Call.StaticCallee() != nil && a.fnInModule(c.Call.StaticCallee()) {
				a.calleeReturns(c, ex.Index, func(rv ssa.Value, rf *ssa.Function) { sites = append(sites, site{rf, rv}) }, func(string) {})
			}
		} else {
			sites = append(sites, site{add, v})
		}
		if len(sites) == 0 {
			a.Und(construct, mu.Pos(), "cannot find where the stored tuple is built")
			return
		}
		for _, s := range sites {
			// the appends that feed the stored slice, and the range loop over groupFields they are in
			chain := map[*ssa.Call]bool{}
			seen := map[ssa.Value]bool{}
			var walk func(x ssa.Value)
			walk = func(x ssa.Value) {
				if x == nil || seen[x] {
					return
				}
				seen[x] = true
				switch y := x.(type) {
				case *ssa.Phi:
					for _, e := range y.Edges {
						walk(e)
					}
				case *ssa.Call:
					if cc, ok := isBuiltinCall(y, "append"); ok {
						chain[y] = true
						walk(cc.Args[0])
					}
				case *ssa.MakeSlice:
					// a copy of the tuple that was built (stack buffer moved to the heap for keeping):
					// make + copy(dst, src) - what is stored holds what src held
					for _, r := range *y.Referrers() {
						if cc, ok := r.(*ssa.Call); ok {
							if bc, isCopy := isBuiltinCall(cc, "copy"); isCopy && bc.Args[0] == ssa.Value(y) {
								walk(bc.Args[1])
							}
						}
					}
				case *ssa.Slice:
					walk(y.X)
				}
			}
			walk(s.val)
			var loop *RLoop
			for _, l := range rangeLoops(s.fn) {
				if l.X == nil {
					continue
				}
				if t := TermOf(l.X, nil); t.Kind == "field" && t.Field == gf {
					for c := range chain {
						if l.Blocks[c.Block()] {
							loop = l
						}
					}
				}
			}
			if loop == nil {
				// the tuple made with its final length and written by position: vals := make([]any, len(groupFields));
				// for i := range groupFields { … vals[i] = v }, one write on every way round the loop
				if ms, isMs := s.val.(*ssa.MakeSlice); isMs {
					okLen := false
					if lc, isCall := ms.Len.(*ssa.Call); isCall {
						if cc, isLen := isBuiltinCall(lc, "len"); isLen {
							if t := TermOf(cc.Args[0], nil); t.Kind == "field" && t.Field == gf {
								okLen = true
							}
						}
					}
					for _, l := range rangeLoops(s.fn) {
						if l.X == nil || !okLen {
							continue
						}
						if t := TermOf(l.X, nil); t.Kind != "field" || t.Field != gf {
							continue
						}
						// the loop's index: the header's counter (range form) or the index phi
						var idx ssa.Value = l.Index
						if idx == nil {
							for _, in := range l.Header.Instrs {
								if bo, ok := in.(*ssa.BinOp); ok && bo.Op == token.ADD {
									idx = bo
								}
							}
						}
						var stores []*ssa.Store
						other := false
						for _, r := range *ms.Referrers() {
							ia, isIA := r.(*ssa.IndexAddr)
							if !isIA {
								continue
							}
							for _, rr := range *ia.Referrers() {
								if st, isSt := rr.(*ssa.Store); isSt && st.Addr == ssa.Value(ia) {
									if ia.Index == idx && l.Blocks[st.Block()] {
										stores = append(stores, st)
									} else {
										other = true
									}
								}
							}
						}
						if len(stores) == 0 || other {
							continue
						}
						every := true
						for _, p := range l.Header.Preds {
							if !l.Blocks[p] {
								continue
							}
							dom := false
							for _, st := range stores {
								if st.Block() == p || st.Block().Dominates(p) {
									dom = true
								}
							}
							if !dom {
								every = false
							}
						}
						if every {
							a.Ok(construct, mu.Pos(), "the stored tuple has one slot per group field and slot i is written in iteration i of the loop over groupFields, on every way round")
							return
						}
					}
				}
				a.Und(construct, mu.Pos(), "the tuple stored in groupKeyVals is not built by appends in a loop over groupFields (in %s)", fname(s.fn))
				return
			}
			// min and max number of chain appends on a path through one iteration
			type mm struct{ lo, hi int }
			memo := map[*ssa.BasicBlock]mm{}
			on := map[*ssa.BasicBlock]bool{}
			var rec func(b *ssa.BasicBlock) mm
			rec = func(b *ssa.BasicBlock) mm {
				if b == loop.Header || !loop.Blocks[b] {
					return mm{0, 0}
				}
				if on[b] {
					return mm{0, 0}
				}
				if r, ok := memo[b]; ok {
					return r
				}
				on[b] = true
				here := 0
				for _, in := range b.Instrs {
					if c, ok := in.(*ssa.Call); ok && chain[c] {
						here++
					}
				}
				r := mm{1 << 30, 0}
				for _, sc := range b.Succs {
					x := rec(sc)
					if x.lo < r.lo {
						r.lo = x.lo
					}
					if x.hi > r.hi {
						r.hi = x.hi
					}
				}
				if len(b.Succs) == 0 {
					r = mm{0, 0}
				}
				on[b] = false
				r = mm{r.lo + here, r.hi + here}
				memo[b] = r
				return r
			}
			r := rec(loop.Body)
			a.Check(r.lo == 1 && r.hi == 1, construct, mu.Pos(),
				"exactly one value (nil for a NULL or missing field) is appended per group field, so position i is field i",
				fmt.Sprintf("%s appends between %d and %d values per group field when it builds the tuple stored in groupKeyVals: a field that is skipped shifts the later values to the left and GetResults reports them under the wrong columns", fname(s.fn), r.lo, r.hi))
		}
	})
	return n
}
