package main

import "golang.org/x/tools/go/ssa"

func init() {
	register(&Prop{
		ID:         "C04",
		Decided:    "(1) the four key encoders that partition rows (GroupAggregator.Add key, CountingWindow.getKey, extractSessionCompositeKey, GlobalWindow.getKeyAndValues) produce uniquely decodable keys: every raw component framed, NULL/missing distinct from every value, no impure input (keyenc); (2) function-expression group keys are injected before the row reaches Window.Add; (3) GetResults reports the typed key values recorded for the key it iterates.",
		NotDecided: "the values of function-expression keys; that cast.ToString/%v map distinct values of one scalar type to distinct strings (floats by shortest round-trip); output naming under aliases.",
		Run:        runC04,
	})
}

func runC04(a *A) {
	a.Rule("keyenc/aggregator", 1, func() { a.keyencAggregator() })
	a.Rule("keyenc/counting", 1, func() { a.keyencRule("window", "CountingWindow", "getKey", keyencOpts{}) })
	a.Rule("keyenc/session", 1, func() { a.keyencRule("window", "", "extractSessionCompositeKey", keyencOpts{}) })
	a.Rule("keyenc/global", 1, func() { a.keyencRule("window", "GlobalWindow", "getKeyAndValues", keyencOpts{}) })
}

func init() {
	old := props["C04"].Run
	props["C04"].Run = func(a *A) {
		old(a)
		a.Rule("flow/inject-before-window", 1, func() {
			fn := a.Method("stream", "DataProcessor", "processItem")
			inj := a.Method("stream", "Stream", "injectGroupKeyExprs")
			isAdd := func(in ssa.Instruction) bool {
				c := callCommon(in)
				return c != nil && c.IsInvoke() && c.Method.Name() == "Add" && isNamedType(c.Value.Type(), windowPkg, "Window")
			}
			n := a.ruleDominatedBy(fn, fname(fn)+"#inject-before-add",
				func(in ssa.Instruction) bool { return staticCallee(in) == inj }, isAdd,
				"computed group keys are materialised before the row enters the window",
				"Window.Add can be reached without injectGroupKeyExprs: function-expression group keys would be missing when the window partitions the row")
			if n == 0 {
				a.Und(fname(fn)+"#inject-before-add", fn.Pos(), "no Window.Add call found in processItem")
			}
		})
		a.Rule("shape/typed-key-values", 2, func() {
			ga := a.Named("aggregator", "GroupAggregator")
			groups, kv := a.FieldOf(ga, "groups"), a.FieldOf(ga, "groupKeyVals")
			add := a.Method("aggregator", "GroupAggregator", "Add")
			var groupKeys []ssa.Value
			allInstrs(add, func(in ssa.Instruction) {
				if mu, ok := in.(*ssa.MapUpdate); ok {
					if t := TermOf(mu.Map, nil); t.Kind == "field" && t.Field == groups {
						groupKeys = append(groupKeys, mu.Key)
					}
				}
			})
			n := 0
			allInstrs(add, func(in ssa.Instruction) {
				if mu, ok := in.(*ssa.MapUpdate); ok {
					if t := TermOf(mu.Map, nil); t.Kind == "field" && t.Field == kv {
						n++
						same := false
						for _, k := range groupKeys {
							if k == mu.Key {
								same = true
							}
						}
						a.Check(same, fname(add)+"#keyvals-same-key", in.Pos(), "typed key values are recorded under the group's own key", "groupKeyVals is written under a different key than groups: a group would report another tuple's values")
					}
				}
			})
			if n == 0 {
				a.Und(fname(add)+"#keyvals-same-key", add.Pos(), "no write of groupKeyVals in Add")
			}
			gr := a.Method("aggregator", "GroupAggregator", "GetResults")
			m := 0
			allInstrs(gr, func(in ssa.Instruction) {
				if lk, ok := in.(*ssa.Lookup); ok {
					if t := TermOf(lk.X, nil); t.Kind == "field" && t.Field == kv {
						m++
						kt := TermOf(lk.Index, nil)
						ok2 := kt.Kind == "mapkey" && kt.Base.Kind == "field" && kt.Base.Field == groups
						a.Check(ok2, fname(gr)+"#keyvals-lookup", in.Pos(), "the reported tuple is groupKeyVals[key] for the key being iterated", "GetResults reads groupKeyVals with "+kt.String()+", not the iterated group key")
					}
				}
			})
			if m == 0 {
				a.Und(fname(gr)+"#keyvals-lookup", gr.Pos(), "GetResults does not read groupKeyVals")
			}
		})
	}
}
