package main

import (
	"fmt"
	"go/constant"
	"go/token"
	"go/types"
	"strings"

	"golang.org/x/tools/go/ssa"
)

func init() {
	register(&Prop{
		ID:         "C02",
		Decided:    "(1) every store to Watermark.currentWatermark is reachable only under new>old, to maxEventTime only under zero-or-greater, lastSentWatermark only on the successful-send arm with the value sent; (2) every candidate watermark is X.Add(-maxOutOfOrderness) with X the event time, maxEventTime or (idle branch) now; (3) in UpdateEventTime no store to maxEventTime/currentWatermark is reachable once eventTime.After(now+maxOutOfOrderness+24h); (3b) every event that passes UpdateEventTime refreshes the idle clock lastEventTime with time.Now(); (4) IsEventTimeLate is exactly 'watermark non-zero and ts<watermark'; (5) the watermark handlers of tumbling/sliding/session windows extract or expire only under watermark>=end; (6) UpdateEventTime is reached only with a usable timestamp; (7) rows are discarded in the event-time Add only when late or without timestamp; (8) a late re-delivery keeps the identity of the fired window: the late-update function is called with the slot stored in the fired-window entry that Contains the event, every row it emits (snapshot copies and late rows) carries that slot, and window_id is computed from the Start/End of the batch slot; (9) an allowance entry is removed only when watermark>=closeTime, closeTime=end.Add(AllowedLateness), and sliding closeExpiredWindows does not write the row buffer; (10) lock discipline of Watermark and of the three windows. Also: no row is stored and the watermark is not fed on a path where Watermark.IsFarFuture(ts) is true (all three time-based Adds); the idle clock is not refreshed for a timestamp beyond the ceiling; a late session row is appended only to a fired session of its own group and fired sessions are kept under keys unique per firing. Also: no comparison in the window's methods has a buffered row's timestamp on one side and a time derived from the lateness allowance (closeTime, AllowedLateness) on the other: which rows belong to an expired window is decided by its interval alone (shape/row-eviction-ignores-lateness). Also: the interval bookkeeping rules of C01/C08 (the current interval only moves by NextSlot(), the arrival-ordered buffer is never read by position) run for this property too: an interval that is jumped over strands its on-time rows.",
		NotDecided: "observability order across the watermark channel (no result before the watermark passed, as a schedule property), idle-timeout wall-clock behaviour, that the contents of a late re-delivery are previous+event, bursts faster than the consumer.",
		Run:        runC02,
	})
}

func runC02(a *A) {
	wmT := func() *types.Named { return a.Named("window", "Watermark") }
	a.Rule("ordtab/watermark-monotone", 2, func() {
		W := wmT()
		cur := a.FieldOf(W, "currentWatermark")
		maxF := a.FieldOf(W, "maxEventTime")
		// every store to the watermark / the maximum event time, in whichever function of the package it
		// sits (update, UpdateEventTime, or a helper they share), raises the value: guarded by a comparison
		// that the new value is later
		for _, fn := range a.ModFuncs {
			if fn.Pkg != a.Pkg("window") || fn.Blocks == nil {
				continue
			}
			for _, st := range storesToField(fn, cur) {
				if isFreshObject(st.Addr.(*ssa.FieldAddr)) {
					continue
				}
				a.storeOnlyIfGreater(fn, st, cur, false)
			}
			for _, st := range storesToField(fn, maxF) {
				if isFreshObject(st.Addr.(*ssa.FieldAddr)) {
					continue
				}
				a.storeOnlyIfGreater(fn, st, maxF, true)
			}
		}
		// and nobody outside package window writes them
		for _, fld := range []*types.Var{cur, maxF} {
			for _, fn := range a.ModFuncs {
				if fn.Blocks == nil || fn.Pkg == a.Pkg("window") {
					continue
				}
				for _, st := range storesToField(fn, fld) {
					a.Bad("Watermark."+fld.Name()+"<-"+fname(fn), st.Pos(), "%s writes Watermark.%s from outside package window", fname(fn), fld.Name())
				}
			}
		}
	})
	a.Rule("flow/last-sent", 1, func() { a.ruleLastSent() })
	// "a row that is not late is never lost": the interval bookkeeping rules of C01/C08 are necessary
	// conditions of this property as well (a skipped interval strands its on-time rows)
	a.Rule("shape/advance-by-one", 8, func() {
		for _, w := range []string{"TumblingWindow", "SlidingWindow"} {
			a.ruleAdvanceByOne(a.Named("window", w), map[string]string{
				"(*window." + w + ").Add":   "aligned slot of the first event",
				"(*window." + w + ").Reset": "clears the window",
			})
		}
	})
	a.Rule("shape/buffer-arrival-order", 8, func() {
		a.ruleBufferArrivalOrder(a.Named("window", "TumblingWindow"))
		a.ruleBufferArrivalOrder(a.Named("window", "SlidingWindow"))
	})
	a.Rule("shape/watermark-formula", 2, func() {
		W := wmT()
		cur := a.FieldOf(W, "currentWatermark")
		// the candidate may be computed where it is stored, handed to a helper as a parameter, or returned
		// by a helper: followed through parameters (all call sites) and results (all returns)
		var judge func(v ssa.Value, fn *ssa.Function, d int)
		seen := map[ssa.Value]bool{}
		judge = func(v ssa.Value, fn *ssa.Function, d int) {
			if seen[v] || d > 6 {
				return
			}
			seen[v] = true
			switch x := v.(type) {
			case *ssa.Phi:
				for _, e := range x.Edges {
					judge(e, fn, d+1)
				}
				return
			case *ssa.Parameter:
				if node := a.CG().Nodes[x.Parent()]; node != nil && len(node.In) > 0 {
					idx := -1
					for i, q := range x.Parent().Params {
						if q == x {
							idx = i
						}
					}
					for _, e := range node.In {
						if args := e.Site.Common().Args; idx >= 0 && idx < len(args) {
							judge(args[idx], e.Caller.Func, d+1)
						}
					}
					return
				}
			case *ssa.Call:
				if sc := x.Call.StaticCallee(); sc != nil && sc.Blocks != nil && sc.Pkg == a.Pkg("window") && !isTimeMethodCall(x) {
					for _, b := range sc.Blocks {
						if ret, ok := b.Instrs[len(b.Instrs)-1].(*ssa.Return); ok && len(ret.Results) > 0 {
							judge(ret.Results[0], sc, d+1)
						}
					}
					return
				}
			}
			t := TermOf(v, nil)
			ok := t.Kind == "call" && t.Name == "(time.Time).Add" && len(t.Args) == 2 &&
				t.Args[1].Kind == "un" && t.Args[1].Name == "-" && isFieldOf(t.Args[1].Args[0], "window.Watermark", "maxOutOfOrderness")
			src := ""
			if ok {
				// the base may be chosen by a branch (`base := maxEventTime; if idle { base = now }`):
				// every alternative must be one of the three
				xs := []*Term{t.Args[0]}
				if t.Args[0].Kind == "phi" && t.Args[0].Val != nil {
					xs = nil
					for _, l := range phiLeaves(t.Args[0].Val) {
						xs = append(xs, TermOf(l, nil))
					}
				}
				var srcs []string
				for _, x := range xs {
					switch {
					case x.Kind == "param":
						srcs = append(srcs, "the event time / the tick's now")
					case isFieldOf(x, "window.Watermark", "maxEventTime"):
						srcs = append(srcs, "maxEventTime")
					case x.Kind == "call" && x.Name == "time.Now":
						srcs = append(srcs, "now (idle-source branch)")
					default:
						ok = false
					}
				}
				src = strings.Join(srcs, " or ")
			}
			a.Check(ok, fname(fn)+"#candidate", v.Pos(),
				"candidate watermark = "+src+" - maxOutOfOrderness",
				"candidate watermark is "+t.String()+", expected X.Add(-maxOutOfOrderness) with X the event time / maxEventTime / now")
		}
		for _, fn := range a.ModFuncs {
			if fn.Pkg != a.Pkg("window") || fn.Blocks == nil {
				continue
			}
			for _, st := range storesToField(fn, cur) {
				if isFreshObject(st.Addr.(*ssa.FieldAddr)) {
					continue
				}
				judge(st.Val, fn, 0)
			}
		}
	})
	a.Rule("ordtab/future-guard", 2, func() { a.ruleFutureGuard() })
	a.Rule("shape/row-eviction-ignores-lateness", 10, func() {
		a.ruleRowEvictionIgnoresLateness(a.Named("window", "TumblingWindow"))
		a.ruleRowEvictionIgnoresLateness(a.Named("window", "SlidingWindow"))
	})
	a.Rule("flow/late-row-own-group", 2, func() { a.ruleLateRowOwnGroup() })
	a.Rule("flow/far-future-dropped", 3, func() {
		for _, w := range []string{"TumblingWindow", "SlidingWindow", "SessionWindow"} {
			a.ruleFarFutureDropped(a.Named("window", w), a.Method("window", w, "Add"))
		}
	})
	a.Rule("flow/activity-refreshes-idle-clock", 1, func() {
		W := wmT()
		fn := a.Method("window", "Watermark", "UpdateEventTime")
		le := a.FieldOf(W, "lastEventTime")
		stores := storesToField(fn, le)
		okVal := len(stores) > 0
		for _, st := range stores {
			t := TermOf(st.Val, nil)
			if !(t.Kind == "call" && t.Name == "time.Now") {
				okVal = false
			}
		}
		// every return not behind the far-future guard is preceded by the refresh
		isStore := func(in ssa.Instruction) bool {
			st, ok := in.(*ssa.Store)
			return ok && fieldAddrIs(st.Addr, le)
		}
		var escape ssa.Instruction
		farFuture := a.MethodOpt("window", "Watermark", "IsFarFuture")
		// with the far-future test answered "no" (the timestamp is not beyond the ceiling), no path reaches a
		// return without the refresh
		notFar := func(v ssa.Value) Tri {
			if c, ok := v.(*ssa.Call); ok {
				if farFuture != nil && c.Call.StaticCallee() == farFuture {
					return F
				}
				if early, late, isCmp := timeOrder(c); isCmp {
					if _, isParam := resolveBound(late).(*ssa.Parameter); isParam {
						if strings.Contains(TermOf(early, nil).String(), "maxFutureSlack") || guardLooksLikeCeiling(early) {
							return F
						}
					}
				}
			}
			return U
		}
		for _, b := range fn.Blocks {
			ret, ok := b.Instrs[len(b.Instrs)-1].(*ssa.Return)
			if !ok {
				continue
			}
			if reachOnSomePathAvoiding(fn, ret, notFar, isStore) {
				escape = ret
			}
		}
		a.Check(okVal && escape == nil, fname(fn)+"#every-event-is-activity", fn.Pos(), "every accepted event refreshes lastEventTime with the processing time (the idle clock measures the time since the last event of any timestamp)",
			"an event can pass UpdateEventTime without refreshing lastEventTime: a source that keeps sending on-time, out-of-order rows looks idle, the watermark jumps to processing time and windows fire before their events arrived")
	})
	a.Rule("ordtab/is-late", 1, func() {
		fn := a.Method("window", "Watermark", "IsEventTimeLate")
		a.OrdTable("(*window.Watermark).IsEventTimeLate", fn.Pos(), "late iff watermark is set and ts < watermark", OrdSpec{
			Roles: []string{"ts", "wm"}, Flags: []string{"zero:wm"},
			Expect: func(r map[string]int, f map[string]bool) (bool, bool) {
				return !f["zero:wm"] && r["ts"] < r["wm"], true
			},
			Role: func(t *Term) string {
				if t.Kind == "param" && isTimeTime(t.Typ) {
					return "ts"
				}
				if isFieldOf(t, "window.Watermark", "currentWatermark") {
					return "wm"
				}
				// read through the watermark's own accessor (GetCurrentWatermark: lock, return the field)
				if f := a.accessorField(t); f != nil && f == a.FieldOf(a.Named("window", "Watermark"), "currentWatermark") {
					return "wm"
				}
				return ""
			},
			Eval: func(env *Env) (Tri, string) { return evalFuncRet(env, fn, nil) },
		})
	})
	a.Rule("ordtab/fire-guard", 3, func() {
		a.ruleFireGuard(a.Named("window", "TumblingWindow"), a.Method("window", "TumblingWindow", "checkAndTriggerWindows"))
		a.ruleFireGuard(a.Named("window", "SlidingWindow"), a.Method("window", "SlidingWindow", "checkAndTriggerWindows"))
		a.ruleSessionExpiry()
		// the session expiry table identifies lastActive+timeout with the session end; that needs lastActive monotone
		add := a.Method("window", "SessionWindow", "Add")
		la := a.FieldOf(a.Named("window", "session"), "lastActive")
		for _, st := range storesToField(add, la) {
			if !isFreshObject(st.Addr.(*ssa.FieldAddr)) {
				a.storeOnlyIfGreater(add, st, la, false)
			}
		}
	})
	a.Rule("flow/late-policy", 9, func() {
		for _, w := range []string{"TumblingWindow", "SlidingWindow", "SessionWindow"} {
			a.ruleLatePolicy(a.Named("window", w), a.Method("window", w, "Add"))
		}
	})
	a.Rule("ordtab/allowance-expiry", 6, func() { a.ruleAllowanceExpiry() })
	a.Rule("shape/late-update-identity", 5, func() { a.ruleLateUpdateIdentity() })
	a.Rule("locks/guarded-by", 10, func() {
		a.lockRules("window", "Watermark")
		a.lockRules("window", "TumblingWindow")
		a.lockRules("window", "SlidingWindow")
		a.lockRules("window", "SessionWindow")
	})
}

// storeOnlyIfGreater: the store st to field f (a time) is reachable only when the stored value is
// after the old value (or, when zeroOK, the old value is zero).
func (a *A) storeOnlyIfGreater(fn *ssa.Function, st *ssa.Store, f *types.Var, zeroOK bool) {
	construct := fmt.Sprintf("%s#store-%s", fname(fn), f.Name())
	leaves := map[string]bool{}
	for _, l := range phiLeaves(st.Val) {
		leaves[TermOf(l, nil).String()] = true
	}
	newT := TermOf(st.Val, nil).String()
	leafVals := map[ssa.Value]bool{st.Val: true}
	for _, l := range phiLeaves(st.Val) {
		leafVals[l] = true
	}
	spec := OrdSpec{Roles: []string{"new", "old"}, Flags: []string{"zero:old"},
		Role: func(t *Term) string {
			if t.Kind == "field" && t.Field == f {
				if t.Epoch > 0 {
					return ""
				}
				return "old"
			}
			if t.String() == newT || leaves[t.String()] || (t.Val != nil && leafVals[t.Val]) {
				// (by value as well: on a path the walker reads a merged operand inside the candidate as
				// the operand that path took, so the text differs while the value is the same)
				return "new"
			}
			return ""
		}}
	a.OnlyIf(construct, st.Pos(), fmt.Sprintf("%s is overwritten only by a later time", f.Name()), spec,
		fn.Blocks[0], nil, nil,
		func(in ssa.Instruction, _ *Walker) bool { return in == ssa.Instruction(st) },
		func(r map[string]int, fl map[string]bool) bool {
			return r["new"] > r["old"] || (zeroOK && fl["zero:old"])
		})
}

// ruleLastSent: lastSentWatermark is stored only in the arm of a select whose send of
// currentWatermark on watermarkChan succeeded, and stores the value sent.
func (a *A) ruleLastSent() {
	W := a.Named("window", "Watermark")
	last := a.FieldOf(W, "lastSentWatermark")
	n := 0
	for _, fn := range a.ModFuncs {
		for _, st := range storesToField(fn, last) {
			if isFreshObject(st.Addr.(*ssa.FieldAddr)) {
				continue
			}
			n++
			construct := fname(fn) + "#store-lastSentWatermark"
			ok := false
			detail := "the store is not confined to a successful-send arm of a select"
			for _, g := range guardsOf(st.Block()) {
				bo, isBin := g.Cond.(*ssa.BinOp)
				if !isBin || bo.Op != token.EQL || !g.Sense {
					continue
				}
				ex, isEx := bo.X.(*ssa.Extract)
				c, isC := bo.Y.(*ssa.Const)
				if !isEx || !isC || ex.Index != 0 {
					continue
				}
				sel, isSel := ex.Tuple.(*ssa.Select)
				if !isSel {
					continue
				}
				k, _ := constant.Int64Val(c.Value)
				if int(k) >= len(sel.States) {
					continue
				}
				state := sel.States[k]
				if state.Dir != types.SendOnly {
					detail = "the guarding select arm is not a send"
					continue
				}
				if !isFieldOf(TermOf(state.Chan, nil), "window.Watermark", "watermarkChan") {
					detail = "the guarding send is not on watermarkChan"
					continue
				}
				if TermOf(state.Send, nil).String() != TermOf(st.Val, nil).String() {
					detail = fmt.Sprintf("the value recorded (%s) is not the value sent (%s)", TermOf(st.Val, nil), TermOf(state.Send, nil))
					continue
				}
				ok = true
			}
			a.Check(ok, construct, st.Pos(), "recorded only after the send of that value on watermarkChan succeeded", detail+": a dropped watermark would never be retried (tail windows never fire) or a wrong value is remembered")
		}
	}
	if n == 0 {
		a.Und("lastSentWatermark", token.NoPos, "no store to lastSentWatermark found")
	}
}

// ruleFutureGuard: ceiling shape and unreachability of the bookkeeping stores beyond it.
func (a *A) ruleFutureGuard() {
	W := a.Named("window", "Watermark")
	fn := a.Method("window", "Watermark", "UpdateEventTime")
	cur := a.FieldOf(W, "currentWatermark")
	maxF := a.FieldOf(W, "maxEventTime")
	// find the After(ceiling) comparison on the event-time parameter
	var ceilT *Term
	var ceilPos token.Pos
	scan := func(f *ssa.Function, fr *frame) {
		allInstrs(f, func(in ssa.Instruction) {
			c, ok := in.(*ssa.Call)
			if !ok {
				return
			}
			// eventTime.After(ceiling), or the same read from the other side: ceiling.Before(eventTime)
			early, late, isCmp := timeOrder(c)
			if !isCmp {
				return
			}
			x := TermOf(late, fr)
			y := TermOf(early, fr)
			if x.Kind == "param" && x.Fn == fn && y.Kind == "call" && y.Name == "(time.Time).Add" && len(y.Args) == 2 && y.Args[0].Kind == "call" && y.Args[0].Name == "time.Now" {
				ceilT = y
				ceilPos = in.Pos()
			}
		})
	}
	scan(fn, nil)
	if ceilT == nil {
		// the comparison may sit in a boolean method of the watermark that is given the event time
		// (IsFarFuture): its terms are read in this function's context
		allInstrs(fn, func(in ssa.Instruction) {
			c, ok := in.(*ssa.Call)
			if !ok || ceilT != nil || !isBool(c.Type()) {
				return
			}
			callee := c.Call.StaticCallee()
			if callee == nil || callee.Blocks == nil || callee.Pkg != fn.Pkg {
				return
			}
			var args []*Term
			for _, av := range c.Call.Args {
				args = append(args, TermOf(av, nil))
			}
			scan(callee, &frame{fn: callee, args: args})
		})
	}
	if ceilT == nil {
		a.Bad(fname(fn)+"#future-ceiling", fn.Pos(), "no comparison eventTime.After(time.Now().Add(...)) found: a far-future timestamp would ratchet the watermark")
		return
	}
	// ceiling = now + maxOutOfOrderness + 24h
	d := ceilT.Args[1]
	okShape := false
	if d.Kind == "bin" && d.Name == "+" {
		var cst *Term
		var fld *Term
		for _, x := range d.Args {
			if x.Kind == "const" {
				cst = x
			} else {
				fld = x
			}
		}
		if cst != nil && fld != nil && isFieldOf(fld, "window.Watermark", "maxOutOfOrderness") {
			if v, ok := constant.Int64Val(cst.Const); ok && v == 24*3600*1e9 {
				okShape = true
			}
		}
	}
	a.Check(okShape, fname(fn)+"#future-ceiling", ceilPos, "ceiling = now + maxOutOfOrderness + 24h",
		"ceiling is now + "+d.String()+", the property says maxOutOfOrderness + 24h")
	ceilS := ceilT.String()
	spec := OrdSpec{Roles: []string{"ev", "C"},
		Role: func(t *Term) string {
			if t.Kind == "param" && isTimeTime(t.Typ) {
				return "ev"
			}
			if t.String() == ceilS {
				return "C"
			}
			return ""
		}}
	lastEv := a.FieldOf(a.Named("window", "Watermark"), "lastEventTime")
	a.OnlyIf(fname(fn)+"#future-guard", fn.Pos(), "no store to maxEventTime/currentWatermark/lastEventTime (the idle clock) for a timestamp beyond the ceiling", spec,
		fn.Blocks[0], nil, nil,
		func(in ssa.Instruction, _ *Walker) bool {
			st, ok := in.(*ssa.Store)
			return ok && (fieldAddrIs(st.Addr, cur) || fieldAddrIs(st.Addr, maxF) || fieldAddrIs(st.Addr, lastEv))
		},
		func(r map[string]int, _ map[string]bool) bool { return r["ev"] <= r["C"] })
}

// ruleSessionExpiry: collectExpiredSessions marks a session expired only under time >= its end
// (end = slot.End, and lastActive+timeout which C10 ties to slot.End).
func (a *A) ruleSessionExpiry() {
	W := a.Named("window", "SessionWindow")
	entry := a.Method("window", "SessionWindow", "collectExpiredSessions")
	smap := a.FieldOf(W, "sessionMap")
	n := 0
	// the marking loop is in collectExpiredSessions or in a helper method it calls (one level)
	cands := []*ssa.Function{entry}
	allInstrs(entry, func(in ssa.Instruction) {
		if callee := staticCallee(in); callee != nil && callee.Blocks != nil && callee.Signature.Recv() != nil && types.Identical(derefT(callee.Signature.Recv().Type()), W) {
			cands = append(cands, callee)
		}
	})
	fn := entry
	for _, cand := range cands {
		fn = cand
		for _, l := range mapRangeLoops(fn) {
			if t := TermOf(l.X, nil); t.Kind != "field" || t.Field != smap {
				continue
			}
			var targets []ssa.Instruction
			for b := range l.Blocks {
				for _, in := range b.Instrs {
					if c, ok := in.(*ssa.Call); ok {
						if _, ok := isBuiltinCall(c, "append"); ok {
							targets = append(targets, in)
						}
						if _, ok := isBuiltinCall(c, "delete"); ok {
							targets = append(targets, in)
						}
						if cal := c.Call.StaticCallee(); cal != nil && a.fnInModule(cal) {
							targets = append(targets, in)
						}
					}
				}
			}
			if len(targets) == 0 {
				continue
			}
			n++
			tset := map[ssa.Instruction]bool{}
			for _, t := range targets {
				tset[t] = true
			}
			spec := OrdSpec{Roles: []string{"W", "E"},
				Role: func(t *Term) string {
					if t.Kind == "param" && isTimeTime(t.Typ) {
						return "W"
					}
					if f, base := slotField(t); f == "End" && isFieldOf(base, "window.session", "slot") {
						return "E"
					}
					if t.Kind == "call" && t.Name == "(time.Time).Add" && len(t.Args) == 2 &&
						isFieldOf(t.Args[0], "window.session", "lastActive") && isFieldOf(t.Args[1], "window.SessionWindow", "timeout") {
						return "E" // lastActive+timeout == slot.End (C10 end=last+timeout)
					}
					return ""
				}}
			a.OnlyIf(fname(fn)+"#expiry-guard", l.Header.Instrs[0].Pos(), "a session is marked expired only when time >= its end", spec,
				l.Body, l.Header, func(b *ssa.BasicBlock) bool { return b == l.Header },
				func(in ssa.Instruction, _ *Walker) bool { return tset[in] },
				func(r map[string]int, _ map[string]bool) bool { return r["W"] >= r["E"] })
		}
	}
	if n == 0 {
		a.Und(fname(entry)+"#expiry-guard", entry.Pos(), "no loop over sessionMap that marks sessions found")
	}
	// sessions are delivered only from the marked set: every delete/send in the function outside that loop iterates the marked keys — decided by C10.
}

// ruleAllowanceExpiry: entries of triggeredWindows/triggeredSessions are deleted only under
// watermark >= closeTime; closeTime is end.Add(AllowedLateness) where the entry is created.
func (a *A) ruleAllowanceExpiry() {
	type inst struct{ typ, fn, mapField, infoType string }
	for _, in := range []inst{
		{"TumblingWindow", "closeExpiredWindows", "triggeredWindows", "triggeredWindowInfo"},
		{"SlidingWindow", "closeExpiredWindows", "triggeredWindows", "triggeredWindowInfo"},
		{"SessionWindow", "closeExpiredSessions", "triggeredSessions", "sessionInfo"},
	} {
		W := a.Named("window", in.typ)
		fn := a.Method("window", in.typ, in.fn)
		mf := a.FieldOf(W, in.mapField)
		found := false
		for _, l := range mapRangeLoops(fn) {
			if t := TermOf(l.X, nil); t.Kind != "field" || t.Field != mf {
				continue
			}
			found = true
			spec := OrdSpec{Roles: []string{"W", "C"},
				Role: func(t *Term) string {
					if t.Kind == "param" && isTimeTime(t.Typ) {
						return "W"
					}
					if isFieldOf(t, "window."+in.infoType, "closeTime") {
						return "C"
					}
					return ""
				}}
			a.OnlyIf(fname(fn)+"#expiry", fn.Pos(), "a fired window stops accepting late rows only when watermark >= end+AllowedLateness", spec,
				l.Body, l.Header, func(b *ssa.BasicBlock) bool { return b == l.Header },
				func(x ssa.Instruction, _ *Walker) bool {
					c, ok := x.(*ssa.Call)
					if !ok {
						return false
					}
					_, isDel := isBuiltinCall(c, "delete")
					return isDel
				},
				func(r map[string]int, _ map[string]bool) bool { return r["W"] >= r["C"] })
		}
		if !found {
			a.Und(fname(fn)+"#expiry", fn.Pos(), "no loop over %s found", in.mapField)
		}
		// closeTime shape at creation sites
		info := a.Named("window", in.infoType)
		ct := a.FieldOf(info, "closeTime")
		nst := 0
		for _, f := range a.ModFuncs {
			if f.Signature.Recv() == nil || !isNamedType(f.Signature.Recv().Type(), windowPkg, in.typ) {
				continue
			}
			for _, st := range storesToField(f, ct) {
				nst++
				t := TermOf(st.Val, nil)
				ok := t.Kind == "call" && t.Name == "(time.Time).Add" && len(t.Args) == 2
				if ok {
					f0, _ := slotField(t.Args[0])
					ok = f0 == "End" && (isFieldOf(t.Args[1], "types.WindowConfig", "AllowedLateness") ||
						a.paramAlways(t.Args[1], func(at *Term) bool { return isFieldOf(at, "types.WindowConfig", "AllowedLateness") }))
				}
				a.Check(ok, fname(f)+"#closeTime", st.Pos(), "closeTime = slot.End + AllowedLateness", "closeTime is "+t.String()+", expected <slot>.End.Add(config.AllowedLateness)")
			}
		}
		if nst == 0 {
			a.Und(in.typ+"#closeTime", token.NoPos, "no store to %s.closeTime in methods of %s", in.infoType, in.typ)
		}
	}
	// sliding: closeExpiredWindows must not touch the row buffer
	sw := a.Named("window", "SlidingWindow")
	fn := a.Method("window", "SlidingWindow", "closeExpiredWindows")
	a.Check(len(storesToField(fn, a.FieldOf(sw, "data"))) == 0, fname(fn)+"#keeps-rows", fn.Pos(),
		"does not write SlidingWindow.data (rows may still be needed by overlapping intervals)",
		"writes SlidingWindow.data: rows needed by overlapping not-yet-fired intervals would be lost")
}

// ruleLateUpdateIdentity (C02.8): late updates are re-delivered under the fired window's own slot.
func (a *A) ruleLateUpdateIdentity() {
	for _, w := range []struct{ typ, handler, update string }{
		{"TumblingWindow", "handleLateData", "extractLateUpdateDataLocked"},
		{"SlidingWindow", "handleLateData", "triggerLateUpdateLocked"},
	} {
		h := a.Method("window", w.typ, w.handler)
		u := a.Method("window", w.typ, w.update)
		// where the handler decides which slot the re-delivery carries: the slot argument of its calls of the
		// update function, or - when the update is written out in the handler - the values it stamps rows with
		type stamp struct {
			at ssa.Instruction
			v  ssa.Value
		}
		var stamps []stamp
		for _, c := range callsTo(h, u) {
			stamps = append(stamps, stamp{c, c.(*ssa.Call).Call.Args[1]})
		}
		if len(stamps) == 0 {
			allInstrs(h, func(in ssa.Instruction) {
				st, ok := in.(*ssa.Store)
				if !ok {
					return
				}
				fa, ok := st.Addr.(*ssa.FieldAddr)
				if ok && isNamedType(fa.X.Type(), typesPkg, "Row") && fieldVarOf(fa).Name() == "Slot" {
					stamps = append(stamps, stamp{st, st.Val})
				}
			})
		}
		if len(stamps) == 0 {
			a.Bad(fname(h)+"#late-update-slot", h.Pos(), "%s neither calls %s nor stamps the re-delivered rows itself", fname(h), w.update)
			continue
		}
		containsHolds := func(gs []Guard, slotTerm string) bool {
			for _, g := range gs {
				if call, ok := g.Cond.(*ssa.Call); ok && g.Sense {
					if cal := call.Call.StaticCallee(); cal != nil && cal.Name() == "Contains" && TermOf(call.Call.Args[0], nil).String() == slotTerm {
						return true
					}
				}
			}
			return false
		}
		// selectedEntries: every element of the local slice sl was appended as a fired-window entry whose slot
		// Contains held at the append (`if info.slot.Contains(ts) { infos = append(infos, info) }`)
		selectedEntries := func(sl ssa.Value) bool {
			n := 0
			seen := map[ssa.Value]bool{}
			var rec func(v ssa.Value) bool
			rec = func(v ssa.Value) bool {
				for _, l := range phiLeaves(v) {
					if seen[l] {
						continue
					}
					seen[l] = true
					switch x := l.(type) {
					case *ssa.Const:
						if x.Value != nil {
							return false
						}
					case *ssa.MakeSlice:
					case *ssa.Call:
						cc, ok := isBuiltinCall(x, "append")
						if !ok {
							return false
						}
						els := appendedElems(cc)
						if len(els) != 1 {
							return false
						}
						et := TermOf(els[0], nil).String()
						if !strings.Contains(et, "triggeredWindows") || !containsHolds(guardsOf(x.Block()), et+".slot") {
							return false
						}
						n++
						if !rec(cc.Args[0]) {
							return false
						}
					default:
						return false
					}
				}
				return true
			}
			return rec(sl) && n > 0
		}
		for _, sp := range stamps {
			c, argV := sp.at, sp.v
			arg := TermOf(argV, nil)
			// the slot may be picked in a search loop and carried in a variable (`target = info.slot; break`), or the
			// matching entries may be collected first and processed afterwards: every non-nil way the value came
			// about must be the slot of an entry whose Contains held
			okArg, okGuard := true, true
			nLeaves := 0
			for _, lf := range phiLeafEdges(argV) {
				if k, isK := lf.v.(*ssa.Const); isK && k.Value == nil {
					continue // "not found": the handler returns before the call or the update finds nothing
				}
				nLeaves++
				// element of a slice of selected entries: (*sl[i]).slot
				if ld, ok := lf.v.(*ssa.UnOp); ok && ld.Op == token.MUL {
					if fa, ok := ld.X.(*ssa.FieldAddr); ok && fieldVarOf(fa).Name() == "slot" {
						if el, ok := fa.X.(*ssa.UnOp); ok && el.Op == token.MUL {
							if ia, ok := el.X.(*ssa.IndexAddr); ok && selectedEntries(ia.X) {
								continue
							}
						}
					}
				}
				// the slot of an entry that was picked in a search and carried in a variable (`info = e; break` …
				// `use(info.slot)`): one leaf per way the entry came about, "not found" (nil) aside
				if ld, ok := lf.v.(*ssa.UnOp); ok && ld.Op == token.MUL {
					if fa, ok := ld.X.(*ssa.FieldAddr); ok && fieldVarOf(fa).Name() == "slot" {
						if ephi, isPhi := fa.X.(*ssa.Phi); isPhi {
							allOK, some := true, false
							for _, el := range phiLeafEdges(ephi) {
								if k, isK := el.v.(*ssa.Const); isK && k.Value == nil {
									continue
								}
								some = true
								et := TermOf(el.v, nil).String()
								if !strings.Contains(et, "triggeredWindows") || el.from == nil {
									allOK = false
									continue
								}
								var into *ssa.BasicBlock
								for _, sc := range el.from.Succs {
									into = sc
								}
								var egs []Guard
								if len(el.from.Succs) == 1 {
									egs = guardsAtEnd(el.from, into)
								} else {
									egs = guardsOf(el.from)
								}
								if !containsHolds(egs, et+".slot") {
									allOK = false
								}
							}
							if allOK && some {
								continue
							}
						}
					}
				}
				lt := TermOf(lf.v, nil)
				if !(lt.Kind == "field" && lt.Field.Name() == "slot" && strings.Contains(lt.String(), "triggeredWindows")) {
					okArg = false
				}
				gs := guardsOf(c.Block())
				if lf.from != nil {
					var into *ssa.BasicBlock
					for _, sc := range lf.from.Succs {
						into = sc
					}
					if len(lf.from.Succs) == 1 {
						gs = append(gs, guardsAtEnd(lf.from, into)...)
					} else {
						gs = append(gs, guardsOf(lf.from)...)
					}
				}
				if !containsHolds(gs, lt.String()) {
					okGuard = false
				}
			}
			if nLeaves == 0 {
				okArg = false
			}
			a.Check(okArg && okGuard, fname(h)+"#late-update-slot", c.Pos(), "the late update is computed for the slot of the fired-window entry that Contains the event",
				"the late update is made for "+arg.String()+" (not the slot of a fired-window entry whose Contains selected the event): the re-delivery would carry another window_id")
		}
		n := 0
		allInstrs(u, func(in ssa.Instruction) {
			st, ok := in.(*ssa.Store)
			if !ok {
				return
			}
			fa, ok := st.Addr.(*ssa.FieldAddr)
			if !ok || !isNamedType(fa.X.Type(), typesPkg, "Row") || fieldVarOf(fa).Name() != "Slot" {
				return
			}
			n++
			t := TermOf(st.Val, nil)
			a.Check(t.Kind == "param" && t.Idx == 1, fname(u)+"#rows-carry-slot", in.Pos(), "re-delivered rows carry the fired window's slot", "a re-delivered row is stamped with "+t.String()+" instead of the fired window's slot")
		})
		if n == 0 {
			a.Bad(fname(u)+"#rows-carry-slot", u.Pos(), "the late update does not stamp its rows with a slot: window_start/window_end/window_id of the re-delivery are lost")
		}
	}
	sw := a.Func("stream", "stampWindowID")
	ok := false
	allInstrs(sw, func(in ssa.Instruction) {
		c, isCall := in.(*ssa.Call)
		if !isCall || !isCallNamed(c, "fmt", "Sprintf") {
			return
		}
		var terms []string
		if sl, isSl := c.Call.Args[1].(*ssa.Slice); isSl {
			if al, isAl := sl.X.(*ssa.Alloc); isAl {
				for _, r := range *al.Referrers() {
					if ia, isIA := r.(*ssa.IndexAddr); isIA {
						for _, rr := range *ia.Referrers() {
							if st, isSt := rr.(*ssa.Store); isSt {
								terms = append(terms, TermOf(st.Val, nil).String())
							}
						}
					}
				}
			}
		}
		j := strings.Join(terms, " ")
		// the slot's bounds read as fields, or through the slot's own accessors (WindowStart/WindowEnd,
		// GetStartTime/GetEndTime), of the slot of a row of the batch
		hasStart := strings.Contains(j, "Slot.Start") || strings.Contains(j, "WindowStart(") || strings.Contains(j, "GetStartTime(")
		hasEnd := strings.Contains(j, "Slot.End") || strings.Contains(j, "WindowEnd(") || strings.Contains(j, "GetEndTime(")
		if hasStart && hasEnd && strings.Contains(j, "p1[]") && strings.Contains(j, "Slot") {
			ok = true
		}
	})
	// the id put together without a format string (strconv + concatenation): the stored value's own term
	allInstrs(sw, func(in ssa.Instruction) {
		mu, isMU := in.(*ssa.MapUpdate)
		if !isMU {
			return
		}
		if k, isK := mu.Key.(*ssa.Const); !isK || k.Value == nil || k.Value.Kind() != constant.String || constant.StringVal(k.Value) != "window_id" {
			return
		}
		v := mu.Value
		if mi, isMI := v.(*ssa.MakeInterface); isMI {
			v = mi.X
		}
		j := TermOf(v, nil).String()
		hasStart := strings.Contains(j, "Slot.Start") || strings.Contains(j, "WindowStart(") || strings.Contains(j, "GetStartTime(")
		hasEnd := strings.Contains(j, "Slot.End") || strings.Contains(j, "WindowEnd(") || strings.Contains(j, "GetEndTime(")
		if hasStart && hasEnd && strings.Contains(j, "p1[]") && strings.Contains(j, "Slot") && !strings.Contains(j, "fmt.Sprintf") {
			ok = true
		}
	})
	a.Check(ok, fname(sw)+"#id-from-slot", sw.Pos(), "window_id is formatted from Start and End of the batch's slot", "window_id is not derived from the batch slot's Start and End: first delivery and late re-delivery could carry different ids")
}

// ruleFarFutureDropped: "a timestamp more than 24h in the future never changes any result": in the
// event-time Add of a window with a watermark, no row is stored (and the watermark is not fed) on a
// path where Watermark.IsFarFuture(ts) returned true. Otherwise such a row, arriving first, pins the
// first interval in the far future and nothing is ever delivered; in a session window it becomes the
// key's open session and swallows every later row.
// guardLooksLikeCeiling: v is <time>.Add(d) - the far-future ceiling now + maxOutOfOrderness + slack
func guardLooksLikeCeiling(v ssa.Value) bool {
	c, ok := v.(*ssa.Call)
	return ok && timeMethod(&c.Call) == "Add"
}

func (a *A) ruleFarFutureDropped(W *types.Named, add *ssa.Function) {
	wmF := a.FieldOf(W, "watermark")
	insert := a.insertionInstrs(W, add)
	upd := a.methodOf(a.Named("window", "Watermark"), "UpdateEventTime")
	var targets []ssa.Instruction
	targets = append(targets, insert...)
	targets = append(targets, callsTo(add, upd)...)
	construct := fname(add) + "#far-future-dropped"
	if len(insert) == 0 {
		a.Und(construct, add.Pos(), "no row insertion recognised")
		return
	}
	evConst := ""
	if c, ok := a.Pkg("types").Pkg.Scope().Lookup("EventTime").(*types.Const); ok {
		evConst = constant.StringVal(c.Val())
	}
	assume := func(v ssa.Value) Tri {
		if a.wmVerdict(v) == "far" {
			return T
		}
		switch x := v.(type) {
		case *ssa.Call:
			if f := x.Call.StaticCallee(); f != nil && f.Name() == "IsFarFuture" {
				return T
			}
		case *ssa.BinOp:
			if x.Op == token.EQL || x.Op == token.NEQ {
				res := T
				if x.Op == token.NEQ {
					res = F
				}
				// watermark == nil is false: the window has a watermark
				if t := TermOf(x.X, nil); t.Kind == "field" && t.Field == wmF && isNilConst(x.Y) {
					return res.not()
				}
				// timeChar == EventTime is true
				if k, ok := x.Y.(*ssa.Const); ok && k.Value != nil && k.Value.Kind() == constant.String && constant.StringVal(k.Value) == evConst && evConst != "" {
					return res
				}
			}
		}
		return U
	}
	var bad ssa.Instruction
	for _, t := range targets {
		if reachUnder(add, t, assume) && reachOnSomePath(add, t, assume) {
			bad = t
			break
		}
	}
	if hb, _ := a.newWatermarkHelperFeedsFarFuture(add); hb != nil && bad == nil {
		bad = hb
	}
	if bad == nil {
		a.Ok(construct, add.Pos(), "with a far-future timestamp none of the %d row insertions / watermark updates of the event-time path is reachable", len(targets))
	} else {
		a.Bad(construct, bad.Pos(), "a row whose timestamp Watermark.IsFarFuture reports as corrupt can still be stored or fed to the watermark here: as the first row it pins the first interval in the far future (nothing is ever delivered), in a session window it becomes the key's open session")
	}
}

// paramAlways: t is a parameter of a module function all of whose (resolved, at least one) call sites
// pass an argument whose term satisfies pred — a helper that receives the value its caller read.
func (a *A) paramAlways(t *Term, pred func(*Term) bool) bool {
	if t == nil || t.Kind != "param" || t.Fn == nil {
		return false
	}
	node := a.CG().Nodes[t.Fn]
	if node == nil || len(node.In) == 0 {
		return false
	}
	for _, e := range node.In {
		cc := e.Site.Common()
		args := cc.Args
		if cc.IsInvoke() {
			args = append([]ssa.Value{cc.Value}, args...)
		}
		if t.Idx >= len(args) || !pred(TermOf(args[t.Idx], nil)) {
			return false
		}
	}
	return true
}

func isTimeMethodCall(c *ssa.Call) bool { return timeMethod(&c.Call) != "" }

// ---------------------------------------------------------------------------------------------------
// Watermark verdicts carried by values. The rules of the event-time path ask two questions about a
// row's timestamp - is it late (behind the watermark), is it far-future (beyond the ceiling, ignored) -
// and know the two methods that answer them. A helper that was written later (not in the inventory,
// and not inlinable because it defers) may answer them too: `farFuture, late := wm.Observe(ts)`. Its
// results are classified by what the helper computes, not by its name: result k is a verdict of a kind
// when every value it can return is (a) the kind's comparison itself - ts.Before(wm.currentWatermark)
// / ts.After(<ceiling>.Add(...)), or a call of the known method -, (b) true where that comparison was
// found true, or (c) false where it was found false (late: also where no watermark exists yet or the
// timestamp was found far-future - such a row is dropped whatever the flag says).

type wmSummary struct{ kinds map[int]string }

func (a *A) wmAtomKind(v ssa.Value, f *ssa.Function) string {
	c, ok := v.(*ssa.Call)
	if !ok {
		return ""
	}
	if cal := c.Call.StaticCallee(); cal != nil && cal.Signature.Recv() != nil && isNamedType(cal.Signature.Recv().Type(), windowPkg, "Watermark") {
		switch cal.Name() {
		case "IsEventTimeLate":
			return "late"
		case "IsFarFuture":
			return "far"
		}
	}
	if f == nil {
		return ""
	}
	early, late, isCmp := timeOrder(c)
	if !isCmp {
		return ""
	}
	if _, isParam := resolveBound(early).(*ssa.Parameter); isParam && strings.Contains(TermOf(late, nil).String(), "currentWatermark") {
		return "late" // ts before the watermark
	}
	if _, isParam := resolveBound(late).(*ssa.Parameter); isParam && guardLooksLikeCeiling(early) && strings.Contains(TermOf(early, nil).String(), "maxOutOfOrderness") {
		return "far" // ts after the ceiling
	}
	return ""
}

func (a *A) wmHelperSummary(f *ssa.Function) map[int]string {
	out := map[int]string{}
	if f == nil || f.Blocks == nil {
		return out
	}
	type leaf struct {
		v  ssa.Value
		gs []Guard
	}
	nres := f.Signature.Results().Len()
	leaves := make([][]leaf, nres)
	var collect func(k int, v ssa.Value, gs []Guard, seen map[ssa.Value]bool)
	collect = func(k int, v ssa.Value, gs []Guard, seen map[ssa.Value]bool) {
		if phi, ok := v.(*ssa.Phi); ok && isBool(phi.Type()) {
			if seen[v] {
				return
			}
			seen[v] = true
			for i, e := range phi.Edges {
				collect(k, e, append(append([]Guard{}, gs...), guardsAtEnd(phi.Block().Preds[i], phi.Block())...), seen)
			}
			return
		}
		if u, ok := v.(*ssa.UnOp); ok && u.Op == token.NOT {
			// a negated verdict is not a verdict
			leaves[k] = append(leaves[k], leaf{v, gs})
			return
		}
		leaves[k] = append(leaves[k], leaf{v, gs})
	}
	for _, b := range f.Blocks {
		ret, ok := b.Instrs[len(b.Instrs)-1].(*ssa.Return)
		if !ok || b == f.Recover {
			continue
		}
		for k, r := range ret.Results {
			if !isBool(r.Type()) {
				continue
			}
			// results spilled to locals because the function defers: every store to the local is a returned value
			if ld, ok := r.(*ssa.UnOp); ok && ld.Op == token.MUL {
				if al, ok := ld.X.(*ssa.Alloc); ok {
					for _, ref := range *al.Referrers() {
						if st, ok := ref.(*ssa.Store); ok && st.Addr == ssa.Value(al) {
							collect(k, st.Val, guardsOf(st.Block()), map[ssa.Value]bool{})
						}
					}
					continue
				}
			}
			collect(k, r, guardsOf(b), map[ssa.Value]bool{})
		}
	}
	holds := func(gs []Guard, kind string, sense bool) bool {
		for _, g := range gs {
			v, s := g.Cond, g.Sense
			for {
				u, ok := v.(*ssa.UnOp)
				if !ok || u.Op != token.NOT {
					break
				}
				v, s = u.X, !s
			}
			if a.wmAtomKind(v, f) == kind && s == sense {
				return true
			}
		}
		return false
	}
	noWatermarkYet := func(gs []Guard) bool {
		for _, g := range gs {
			if c, ok := g.Cond.(*ssa.Call); ok && g.Sense && timeMethod(&c.Call) == "IsZero" && strings.Contains(TermOf(c.Call.Args[0], nil).String(), "currentWatermark") {
				return true
			}
		}
		return false
	}
	for k := 0; k < nres; k++ {
		if len(leaves[k]) == 0 {
			continue
		}
		for _, kind := range []string{"late", "far"} {
			ok, positive := true, false
			seenLeaf := map[ssa.Value]bool{}
			for _, l := range leaves[k] {
				if al, isAlloc := l.v.(*ssa.Alloc); isAlloc {
					_ = al
				}
				if a.wmAtomKind(l.v, f) == kind {
					positive = true
					continue
				}
				if b, isK := constBool(l.v); isK {
					switch {
					case b && holds(l.gs, kind, true):
						positive = true
					case !b && holds(l.gs, kind, false):
					case !b && kind == "late" && (noWatermarkYet(l.gs) || holds(l.gs, "far", true)):
					default:
						ok = false
					}
					continue
				}
				if seenLeaf[l.v] {
					continue
				}
				seenLeaf[l.v] = true
				ok = false
			}
			if ok && positive {
				out[k] = kind
			}
		}
	}
	return out
}

// wmVerdict: v carries the watermark's verdict "late" or "far" on a timestamp (see above), else "".
func (a *A) wmVerdict(v ssa.Value) string {
	switch x := v.(type) {
	case *ssa.Call:
		return a.wmAtomKind(v, nil)
	case *ssa.Extract:
		c, ok := x.Tuple.(*ssa.Call)
		if !ok {
			return ""
		}
		cal := c.Call.StaticCallee()
		if cal == nil || !isNewFunc(cal) || cal.Signature.Recv() == nil || !isNamedType(cal.Signature.Recv().Type(), windowPkg, "Watermark") {
			return ""
		}
		return a.wmHelperSummary(cal)[x.Index]
	case *ssa.Phi:
		// `late := false; if eventTime { _, late = wm.Observe(ts) }`: false, or a verdict of one kind
		kind := ""
		for _, l := range phiLeaves(v) {
			if b, isK := constBool(l); isK && !b {
				continue
			}
			k := a.wmVerdict(l)
			if k == "" || (kind != "" && k != kind) {
				return ""
			}
			kind = k
		}
		return kind
	}
	return ""
}

// ruleNewWatermarkHelpersIgnoreFarFuture: a helper of Watermark unknown to the inventory that window code
// calls and that writes the watermark's bookkeeping must not do so for a far-future timestamp: its writes are
// unreachable once its own far-future comparison was found true.
func (a *A) newWatermarkHelperFeedsFarFuture(add *ssa.Function) (ssa.Instruction, int) {
	wmT := a.Named("window", "Watermark")
	n := 0
	var bad ssa.Instruction
	allInstrs(add, func(in ssa.Instruction) {
		cal := staticCallee(in)
		if cal == nil || !isNewFunc(cal) || cal.Signature.Recv() == nil || !isNamedType(cal.Signature.Recv().Type(), windowPkg, "Watermark") {
			return
		}
		for _, name := range []string{"maxEventTime", "currentWatermark", "lastEventTime"} {
			for _, st := range storesToField(cal, a.FieldOf(wmT, name)) {
				n++
				if reachUnder(cal, st, func(v ssa.Value) Tri {
					if a.wmAtomKind(v, cal) == "far" {
						return T
					}
					return U
				}) {
					bad = st
				}
			}
		}
	})
	return bad, n
}


// accessorField: t is a call of a method of the module that does nothing but hand out one field of its receiver
// (possibly under the receiver's lock): every value it can return is a load of that field. Returns the field.
func (a *A) accessorField(t *Term) *types.Var {
	if t == nil || t.Kind != "call" || len(t.Args) != 1 {
		return nil
	}
	var fn *ssa.Function
	for _, f := range a.ModFuncs {
		if f.Signature.Recv() != nil && f.Signature.Params().Len() == 0 && f.Signature.Results().Len() == 1 && fname(f) == t.Name {
			fn = f
		}
	}
	if fn == nil || fn.Blocks == nil {
		return nil
	}
	var field *types.Var
	for _, l := range returnLeaves(fn, 0) {
		ld, ok := l.(*ssa.UnOp)
		if !ok || ld.Op != token.MUL {
			return nil
		}
		fa, ok := ld.X.(*ssa.FieldAddr)
		if !ok || fa.X != ssa.Value(fn.Params[0]) {
			return nil
		}
		f := fieldVarOf(fa)
		if field != nil && f != field {
			return nil
		}
		field = f
	}
	// nothing else is written there
	writes := false
	allInstrs(fn, func(in ssa.Instruction) {
		switch x := in.(type) {
		case *ssa.Store:
			if _, local := x.Addr.(*ssa.Alloc); !local {
				writes = true
			}
		case *ssa.MapUpdate, *ssa.Send:
			writes = true
		}
	})
	if writes {
		return nil
	}
	return field
}
