package main

import (
	"fmt"
	"go/constant"
	"go/token"
	"go/types"
	"sort"
	"strings"

	"golang.org/x/tools/go/ssa"
)

func init() {
	register(&Prop{
		ID:          "C11",
		Decided:     "(1) termination: every loop of the lexer and of the token-level parser reachable from rsql.Parse is a range loop, or is bounded by a counter compared on an exit edge, or consumes input on every cycle (reaches Lexer.readChar) and is left once every token is EOF / the current byte is 0; every recursive cycle among the parser functions carries a depth counter compared with a constant - the calls a depth test dominates are cut, and the component without them must be acyclic, so a bound on one branch does not cover the recursion of another - (or is the one reviewed helper whose depth is bounded by what it recurses on); (2) no panic(...) call and no single-value type assertion is reachable from rsql.Parse inside the module; (3) clause completeness: every field of SelectStatement and WindowDefinition that a parser function stores to is read by ToStreamConfig or a function it calls; (4) every token type a clause parser tests for can be produced by the lexer; (5) keywords are matched case-insensitively: lookupIdent switches on a case-folded copy of the identifier, and every lookup in a table of upper-case keywords anywhere in package rsql is done on a case-folded word (folded in the function or by every caller) and the whitespace skipper covers space, tab, newline and carriage return. Also: no field of an element appended by a list-parsing loop carries a value over from the previous list item (per-item state is initialised per iteration). Also: iteration caps of clause loops grow with the length of the statement (a constant cap silently drops long clauses because the error is recoverable); clause-text loops compare with every later clause keyword. Also: the default 'no alias -> table name' of a JOIN is applied before the ON clause uses the alias (flow/alias-default-before-use, shared with C16). Also: in the clause parsers every non-error way out of a function after a token was written into the item's strings.Builder passes a read of the accumulated text (flow/accumulated-text-consumed): the last item of a clause cannot be dropped by an early return. Also: the depth bound of a recursive cycle must cut every cycle of the component (removing the guarded functions leaves an acyclic rest), not merely exist somewhere in it. Also: the only state package rsql keeps between calls is a memo keyed by the statement text itself: every run-time write to a package-level variable of rsql is an insertion under a key that is a string parameter of the writing function, unmodified, or the reset of such a container (ownmap/parser-keeps-no-state). Also: every slice of the statement text taken in the parser, and every text a lexer is started over, begins at offset 0 or at an offset built from token positions a lexer reported (Token.Pos), constants and lengths - never at an offset found by searching the raw text, which can lie inside a literal (flow/lexer-starts-at-token).",
		NotDecided:  "that the configuration faithfully reflects clause text (token re-joining with heuristic spacing), keyword-like text inside literals, equality of results across layouts, termination of index-scanning string helpers outside Lexer/Parser (listed in the evidence under parser_loops_not_decided), index safety of slicing in general (the compiler's unproven bounds checks are not enumerated in the quick tier).",
		Assumptions: []string{"at end of input Lexer.NextToken returns TokenEOF with an empty Value forever and Lexer.ch is 0 (read in NextToken/readChar)", "tokens obtained before a loop and compared inside it are also taken as EOF in the steady state"},
		Run:         runC11,
	})
}

func runC11(a *A) {
	a.Rule("term/loops", 30, func() { a.ruleLoopsTerminate() })
	a.Rule("term/recursion", 1, func() { a.ruleRecursionBounded() })
	a.Rule("fnsafe/no-panic", 2, func() {
		tc := a.newTermCtx()
		nFns, nAssert := 0, 0
		var panics, asserts []string
		for _, fn := range a.ModFuncs {
			if !tc.reach[fn] || fn.Blocks == nil {
				continue
			}
			top := fn
			for top.Parent() != nil {
				top = top.Parent()
			}
			if top.Pkg == nil || top.Pkg.Pkg.Path() != modPath+"/rsql" {
				continue
			}
			nFns++
			allInstrs(fn, func(in ssa.Instruction) {
				switch x := in.(type) {
				case *ssa.Panic:
					// go/ssa emits Panic for explicit panic() calls only (runtime checks are implicit)
					if x.Pos().IsValid() {
						panics = append(panics, a.pos(x.Pos()))
					}
				case *ssa.TypeAssert:
					nAssert++
					if !x.CommaOk {
						asserts = append(asserts, a.pos(x.Pos()))
					}
				}
			})
		}
		a.Check(len(panics) == 0, "rsql#no-explicit-panic", token.NoPos, fmt.Sprintf("no panic(...) in the %d functions of package rsql reachable from Parse", nFns), fmt.Sprintf("panic(...) reachable from rsql.Parse at %v: parsing must return an error, not panic", panics))
		a.Check(len(asserts) == 0, "rsql#no-unchecked-assertion", token.NoPos, fmt.Sprintf("all %d type assertions reachable from Parse in package rsql are comma-ok", nAssert), fmt.Sprintf("single-value type assertion reachable from rsql.Parse at %v: a value of another type panics", asserts))
	})
	a.Rule("fieldflow/clauses-reach-config", 15, func() {
		conv := a.Method("rsql", "SelectStatement", "ToStreamConfig")
		readers := a.ReachFrom([]*ssa.Function{conv})
		for _, tn := range []string{"SelectStatement", "WindowDefinition"} {
			T := a.Named("rsql", tn)
			st := T.Underlying().(*types.Struct)
			for i := 0; i < st.NumFields(); i++ {
				f := st.Field(i)
				written, read := false, false
				var wpos token.Pos
				for _, ac := range a.fieldAccesses(f) {
					isParser := ac.Fn.Signature.Recv() != nil && isNamedType(ac.Fn.Signature.Recv().Type(), modPath+"/rsql", "Parser")
					top := ac.Fn
					for top.Parent() != nil {
						top = top.Parent()
					}
					if top.Signature.Recv() != nil && isNamedType(top.Signature.Recv().Type(), modPath+"/rsql", "Parser") {
						isParser = true
					}
					if ac.Write && isParser {
						written = true
						wpos = ac.In.Pos()
					}
					if !ac.Write && readers[ac.Fn] {
						read = true
					}
				}
				construct := tn + "." + f.Name()
				if !written {
					a.Ok(construct, f.Pos(), "not written by the parser").Trivial = true
					continue
				}
				a.Check(read, construct, wpos, "written by a clause parser and read on the way to the stream configuration", "the parser stores "+construct+" but ToStreamConfig (and what it calls) never reads it: the clause is parsed and then silently dropped")
			}
		}
	})
	a.Rule("tables/token-types", 20, func() {
		// token types constructed by the lexer: composite literals Token{Type: c}
		lexerMakes := map[string]bool{}
		tokT := a.Named("rsql", "Token")
		typeF := a.FieldOf(tokT, "Type")
		_ = typeF
		// a token type the lexer can produce: a TokenType constant used as a value (stored, returned,
		// passed on, merged) - not merely compared with - in a method of Lexer, one of its closures, or a
		// function of the package such a method calls (a lookup table of punctuation, a token maker)
		lexFns := map[*ssa.Function]bool{}
		var addFn func(fn *ssa.Function, d int)
		addFn = func(fn *ssa.Function, d int) {
			if fn == nil || fn.Blocks == nil || lexFns[fn] || d > 3 {
				return
			}
			lexFns[fn] = true
			for _, an := range fn.AnonFuncs {
				addFn(an, d)
			}
			allInstrs(fn, func(in ssa.Instruction) {
				if callee := staticCallee(in); callee != nil && callee.Pkg == a.Pkg("rsql") {
					if callee.Signature.Recv() != nil && isNamedType(callee.Signature.Recv().Type(), modPath+"/rsql", "Parser") {
						return
					}
					addFn(callee, d+1)
				}
			})
		}
		for _, fn := range a.ModFuncs {
			if fn.Signature.Recv() != nil && isNamedType(fn.Signature.Recv().Type(), modPath+"/rsql", "Lexer") {
				addFn(fn, 0)
			}
		}
		for fn := range lexFns {
			allInstrs(fn, func(in ssa.Instruction) {
				if bo, ok := in.(*ssa.BinOp); ok {
					switch bo.Op {
					case token.EQL, token.NEQ, token.LSS, token.LEQ, token.GTR, token.GEQ:
						return
					}
				}
				for _, op := range in.Operands(nil) {
					if k, ok := (*op).(*ssa.Const); ok && k.Value != nil {
						if nt, ok := k.Type().(*types.Named); ok && nt.Obj().Name() == "TokenType" && nt.Obj().Pkg() == a.Pkg("rsql").Pkg {
							lexerMakes[k.Value.ExactString()] = true
						}
					}
				}
			})
		}
		names := map[string]string{}
		for n, m := range a.Pkg("rsql").Members {
			if c, ok := m.(*ssa.NamedConst); ok && strings.HasPrefix(n, "Token") {
				if nt, ok := c.Type().(*types.Named); ok && nt.Obj().Name() == "TokenType" {
					names[c.Value.Value.ExactString()] = n
				}
			}
		}
		tested := map[string]token.Pos{}
		for _, fn := range a.ModFuncs {
			top := fn
			for top.Parent() != nil {
				top = top.Parent()
			}
			if top.Signature.Recv() == nil || !isNamedType(top.Signature.Recv().Type(), modPath+"/rsql", "Parser") {
				continue
			}
			allInstrs(fn, func(in ssa.Instruction) {
				bo, ok := in.(*ssa.BinOp)
				if !ok || !(bo.Op == token.EQL || bo.Op == token.NEQ) {
					return
				}
				if k, ok := bo.Y.(*ssa.Const); ok && k.Value != nil {
					if nt, ok := k.Type().(*types.Named); ok && nt.Obj().Name() == "TokenType" {
						tested[k.Value.ExactString()] = in.Pos()
					}
				}
			})
		}
		var ks []string
		for k := range tested {
			ks = append(ks, k)
		}
		sort.Strings(ks)
		if len(lexerMakes) == 0 {
			a.Und("token-types", token.NoPos, "no TokenType constant is used as a value in the lexer")
			return
		}
		for _, k := range ks {
			n := names[k]
			if n == "" {
				n = "TokenType(" + k + ")"
			}
			a.Check(lexerMakes[k], "parser-tests:"+n, tested[k], "a clause parser tests for "+n+" and the lexer can produce it", "a clause parser tests for "+n+" but the lexer never produces a token of that type: the clause can never be recognised")
		}
	})
	a.Rule("shape/keyword-case", 3, func() { a.ruleKeywordCase() })
	// the result of Parse is a function of the statement alone: nothing reachable from it keeps state
	// between calls (a cache of parsed statements keyed by a normalised text hands one statement's
	// clauses to another)
	a.Rule("ownmap/parser-keeps-no-state", 1, func() { a.ruleParserKeepsNoState() })
	a.Rule("flow/no-state-between-list-items", 12, func() { a.ruleNoStateBetweenListItems("rsql") })
	a.Rule("tables/clause-terminators", 12, func() { a.ruleClauseTerminators() })
	a.Rule("term/caps-scale-with-input", 5, func() { a.ruleCapsScaleWithInput() })
	a.Rule("flow/lexer-starts-at-token", 3, func() { a.ruleLexerStartsAtToken() })
	a.Rule("flow/accumulated-text-consumed", 6, func() { a.ruleAccumulatedTextConsumed() })
	a.Rule("flow/alias-default-before-use", 1, func() { a.ruleAliasDefaultBeforeUse() })
	a.Rule("shape/layout-and-case", 2, func() {
		li := a.Method("rsql", "Lexer", "lookupIdent")
		// the switch tag derives from strings.ToUpper/ToLower of the identifier parameter
		ok := false
		allInstrs(li, func(in ssa.Instruction) {
			bo, isB := in.(*ssa.BinOp)
			if !isB || bo.Op != token.EQL {
				return
			}
			if k, isK := bo.Y.(*ssa.Const); isK && k.Value != nil && k.Value.Kind() == constant.String {
				s := TermOf(bo.X, nil).String()
				if strings.HasPrefix(s, "strings.ToUpper(") || strings.HasPrefix(s, "strings.ToLower(") {
					ok = true
				}
			}
			if isCallNamed(in, "strings", "EqualFold") {
				ok = true
			}
		})
		allInstrs(li, func(in ssa.Instruction) {
			if isCallNamed(in, "strings", "EqualFold") {
				ok = true
			}
		})
		a.Check(ok, fname(li)+"#case-insensitive", li.Pos(), "keywords are matched on a case-folded copy of the identifier", "lookupIdent compares the identifier as written: keyword case changes the parse")
		ws := a.Method("rsql", "Lexer", "skipWhitespace")
		have := map[int64]bool{}
		allInstrs(ws, func(in ssa.Instruction) {
			if bo, isB := in.(*ssa.BinOp); isB && bo.Op == token.EQL {
				if k, isK := bo.Y.(*ssa.Const); isK && k.Value != nil && k.Value.Kind() == constant.Int {
					have[k.Int64()] = true
				}
			}
			if c := callCommon(in); c != nil {
				if cal := c.StaticCallee(); cal != nil && cal.Pkg != nil && cal.Pkg.Pkg.Path() == "unicode" && cal.Name() == "IsSpace" {
					for _, b := range []int64{' ', '\t', '\n', '\r'} {
						have[b] = true
					}
				}
			}
		})
		var missing []string
		for _, b := range []int64{' ', '\t', '\n', '\r'} {
			if !have[b] {
				missing = append(missing, fmt.Sprintf("%q", rune(b)))
			}
		}
		a.Check(len(missing) == 0, fname(ws)+"#layout", ws.Pos(), "space, tab, newline and carriage return are skipped between tokens", "the whitespace skipper does not skip "+strings.Join(missing, ", ")+": that layout character changes the parse")
	})
}

// ruleKeywordCase: every lookup of a string in a table of upper-case keywords (a switch over >= 3
// upper-case constants, or a map whose constant keys are upper-case words) is done on a case-folded
// value: folded inside the function, or by every caller.
func (a *A) ruleKeywordCase() {
	upper := func(s string) bool {
		if len(s) < 2 {
			return false
		}
		for _, r := range s {
			if !(r >= 'A' && r <= 'Z' || r == '_') {
				return false
			}
		}
		return true
	}
	folded := func(v ssa.Value) bool {
		s := TermOf(v, nil).String()
		return strings.Contains(s, "strings.ToUpper(") || strings.Contains(s, "strings.ToLower(")
	}
	// keys of a map value: constants stored by MapUpdate into the MakeMap (local or global initialiser)
	mapKeys := func(m ssa.Value) []string {
		var keys []string
		var mk ssa.Value = m
		if u, ok := m.(*ssa.UnOp); ok {
			if g, ok := u.X.(*ssa.Global); ok && g.Pkg != nil {
				if init := g.Pkg.Func("init"); init != nil {
					allInstrs(init, func(in ssa.Instruction) {
						if st, ok := in.(*ssa.Store); ok && st.Addr == ssa.Value(g) {
							mk = st.Val
						}
					})
				}
			}
		}
		if refs := mk.Referrers(); refs != nil {
			for _, r := range *refs {
				if mu, ok := r.(*ssa.MapUpdate); ok && mu.Map == mk {
					if k, ok := mu.Key.(*ssa.Const); ok && k.Value != nil && k.Value.Kind() == constant.String {
						keys = append(keys, constant.StringVal(k.Value))
					}
				}
			}
		}
		return keys
	}
	n := 0
	for _, fn := range a.ModFuncs {
		if fn.Pkg == nil || fn.Pkg.Pkg.Path() != modPath+"/rsql" || fn.Blocks == nil {
			continue
		}
		// values looked up in keyword tables inside fn
		type use struct {
			v   ssa.Value
			pos token.Pos
			n   int
		}
		cmpCount := map[ssa.Value]int{}
		cmpPos := map[ssa.Value]token.Pos{}
		var uses []use
		allInstrs(fn, func(in ssa.Instruction) {
			switch x := in.(type) {
			case *ssa.BinOp:
				if x.Op == token.EQL {
					if k, ok := x.Y.(*ssa.Const); ok && k.Value != nil && k.Value.Kind() == constant.String && upper(constant.StringVal(k.Value)) {
						cmpCount[x.X]++
						cmpPos[x.X] = x.Pos()
					}
				}
			case *ssa.Lookup:
				if _, isMap := x.X.Type().Underlying().(*types.Map); isMap && isStringType(x.Index.Type()) {
					ks := mapKeys(x.X)
					up := 0
					for _, k := range ks {
						if upper(k) {
							up++
						}
					}
					if up >= 3 && up == len(ks) {
						uses = append(uses, use{x.Index, x.Pos(), up})
					}
				}
			}
		})
		for v, c := range cmpCount {
			if c >= 3 {
				uses = append(uses, use{v, cmpPos[v], c})
			}
		}
		for _, u := range uses {
			n++
			construct := fmt.Sprintf("%s#keyword-lookup", fname(fn))
			if folded(u.v) {
				a.Ok(construct, u.pos, "looked up on a case-folded value (%d upper-case keywords)", u.n)
				continue
			}
			// the raw value is a parameter: every caller must fold
			p, isParam := u.v.(*ssa.Parameter)
			if !isParam {
				// EqualFold-style or a token Value compared as written
				a.Bad(construct, u.pos, "%s is compared with %d upper-case keywords as written (no strings.ToUpper/EqualFold): a lower-case keyword is not recognised, so keyword case changes the parse", TermOf(u.v, nil), u.n)
				continue
			}
			idx := -1
			for i, q := range fn.Params {
				if q == p {
					idx = i
				}
			}
			var bad []string
			sites := 0
			for _, caller := range a.ModFuncs {
				for _, c := range callsTo(caller, fn) {
					sites++
					if !folded(callCommon(c).Args[idx]) {
						bad = append(bad, a.pos(c.Pos()))
					}
				}
			}
			if len(bad) == 0 {
				a.Ok(construct, u.pos, "the %d call site(s) pass a case-folded word", sites)
			} else {
				a.Bad(construct, u.pos, "%s matches its argument against %d upper-case keywords as written, and the call site(s) %v pass a word that is not case-folded: keyword case changes what the parser builds", fname(fn), u.n, bad)
			}
		}
	}
	if n == 0 {
		a.Und("keyword-lookup", token.NoPos, "no keyword table lookup found in package rsql")
	}
}

// ruleNoStateBetweenListItems: a parser loop that appends one element per list item (ORDER BY keys,
// SELECT items, GROUP BY fields, JOIN pairs, ...) must build every element from state initialised in
// that iteration. A scalar that reaches a field of the appended element through a phi at the header
// of the appending loop is carried over from the previous item (ORDER BY a DESC, b would sort b
// descending). The accumulated slice itself and loop counters used as ordinals are loop-carried by
// nature and are not element state: only values stored into fields of the appended composite count.
func (a *A) ruleNoStateBetweenListItems(pkgs ...string) int {
	inPkgs := map[*ssa.Package]bool{}
	for _, p := range pkgs {
		inPkgs[a.Pkg(p)] = true
	}
	n := 0
	for _, fn := range a.ModFuncs {
		if fn.Pkg == nil || !inPkgs[fn.Pkg] || fn.Blocks == nil {
			continue
		}
		allInstrs(fn, func(in ssa.Instruction) {
			c, ok := in.(*ssa.Call)
			if !ok {
				return
			}
			cc, ok := isBuiltinCall(c, "append")
			if !ok {
				return
			}
			elems := appendedElems(cc)
			if len(elems) != 1 {
				return
			}
			// innermost natural loop containing the append
			b := c.Block()
			var head *ssa.BasicBlock
			for h := b; h != nil; h = h.Idom() {
				isHead := false
				for _, p := range h.Preds {
					if h.Dominates(p) && (p == b || reachesAvoiding(b, p, h) || b == h) {
						isHead = true
					}
				}
				if isHead {
					head = h
					break
				}
			}
			if head == nil {
				return
			}
			// the accumulator must be loop-carried through that header (one element per iteration)
			acc := false
			for _, l := range phiLeavesUpTo(cc.Args[0], head) {
				if l {
					acc = true
				}
			}
			if !acc {
				return
			}
			// element: composite literal local
			ev := elems[0]
			var al *ssa.Alloc
			if ld, ok := ev.(*ssa.UnOp); ok && ld.Op == token.MUL {
				al, _ = ld.X.(*ssa.Alloc)
			}
			if al == nil {
				return
			}
			n++
			construct := fname(fn) + "#item@" + strings.TrimPrefix(al.Type().String(), "*")
			var leaks []string
			for _, r := range *al.Referrers() {
				fa, ok := r.(*ssa.FieldAddr)
				if !ok {
					continue
				}
				for _, rr := range *fa.Referrers() {
					st, ok := rr.(*ssa.Store)
					if !ok || st.Addr != ssa.Value(fa) {
						continue
					}
					if phi := carriedBy(st.Val, head); phi != nil {
						fld := derefStruct(al.Type()).Field(fa.Field).Name()
						leaks = append(leaks, fld+" <- "+phi.Comment)
					}
				}
			}
			sort.Strings(leaks)
			a.Check(len(leaks) == 0, construct, c.Pos(),
				"every field of the appended element is built from state of its own iteration",
				"field(s) of the appended element carry a value over from the previous list item: "+strings.Join(leaks, "; ")+" (initialised before the loop, not per item)")
		})
	}
	return n
}

// phiLeavesUpTo: does slice value v derive (through append bases and phis) from a phi in block head?
func phiLeavesUpTo(v ssa.Value, head *ssa.BasicBlock) []bool {
	seen := map[ssa.Value]bool{}
	var out []bool
	var walk func(x ssa.Value, d int)
	walk = func(x ssa.Value, d int) {
		if x == nil || seen[x] || d > 10 {
			return
		}
		seen[x] = true
		switch y := x.(type) {
		case *ssa.Phi:
			if y.Block() == head {
				out = append(out, true)
				return
			}
			for _, e := range y.Edges {
				walk(e, d+1)
			}
		case *ssa.Call:
			if cc, ok := isBuiltinCall(y, "append"); ok {
				walk(cc.Args[0], d+1)
			}
		case *ssa.UnOp:
			if al, ok := y.X.(*ssa.Alloc); ok && y.Op == token.MUL {
				// spilled local: allocated outside the loop and stored inside it
				if !head.Dominates(al.Block()) || al.Block() == head {
					out = append(out, true)
				}
			}
			if fa, ok := y.X.(*ssa.FieldAddr); ok && y.Op == token.MUL {
				_ = fa
				out = append(out, true) // accumulates into a field (stmt.Fields = append(stmt.Fields, …))
			}
		}
	}
	walk(v, 0)
	return out
}

// carriedBy: the phi at block head (or spilled variable declared outside the loop) that scalar v
// derives from without passing through a call; nil if none.
func carriedBy(v ssa.Value, head *ssa.BasicBlock) *ssa.Phi {
	seen := map[ssa.Value]bool{}
	var found *ssa.Phi
	var walk func(x ssa.Value, d int)
	walk = func(x ssa.Value, d int) {
		if x == nil || seen[x] || d > 12 || found != nil {
			return
		}
		seen[x] = true
		switch y := x.(type) {
		case *ssa.Phi:
			if y.Block() == head {
				// carried only if an in-loop edge feeds it with something other than itself/a constant reset
				found = y
				return
			}
			for _, e := range y.Edges {
				walk(e, d+1)
			}
		case *ssa.Convert:
			walk(y.X, d+1)
		case *ssa.ChangeType:
			walk(y.X, d+1)
		case *ssa.BinOp:
			walk(y.X, d+1)
			walk(y.Y, d+1)
		case *ssa.UnOp:
			if y.Op != token.MUL {
				walk(y.X, d+1)
			}
		}
	}
	walk(v, 0)
	return found
}

// ruleClauseTerminators: the parser runs the clause parsers in a fixed order (Parser.Parse). The
// parsers of WHERE, GROUP BY and HAVING collect raw predicate text token by token until they meet the
// keyword of a later clause; a later clause keyword that a collecting parser never even compares the
// token type with cannot end its text, so the later clause is swallowed into the predicate (HAVING s > 5
// ORDER BY s DESC compiled "s > 5 ORDER BY s DESC" and failed open). For every collecting parser P and
// every clause parser Q called after P whose clause starts with keyword token K: K is among the token
// types P compares with.
func (a *A) ruleClauseTerminators() int {
	parse := a.Method("rsql", "Parser", "Parse")
	tokT := a.Named("rsql", "TokenType")
	// dispatch order: static calls of (*Parser).parseX in Parse, by position
	type cl struct {
		fn  *ssa.Function
		pos token.Pos
	}
	var order []cl
	allInstrs(parse, func(in ssa.Instruction) {
		if cc := callCommon(in); cc != nil {
			if f := cc.StaticCallee(); f != nil && a.fnInModule(f) && strings.HasPrefix(f.Name(), "parse") && f.Signature.Recv() != nil {
				order = append(order, cl{f, in.Pos()})
			}
		}
	})
	// … and the clause parsers listed as method values (`[...]func(*SelectStatement) error{p.parseWhere, …}`, run by
	// a loop over the list): listed in the order they are written
	allInstrs(parse, func(in ssa.Instruction) {
		mc, ok := in.(*ssa.MakeClosure)
		if !ok {
			return
		}
		w, _ := mc.Fn.(*ssa.Function)
		if w == nil || !strings.HasPrefix(w.Synthetic, "bound method wrapper") {
			return
		}
		obj, _ := w.Object().(*types.Func)
		if obj == nil {
			return
		}
		if f := a.Prog.FuncValue(obj); f != nil && a.fnInModule(f) && strings.HasPrefix(f.Name(), "parse") && f.Signature.Recv() != nil {
			order = append(order, cl{f, in.Pos()})
		}
	})
	sort.Slice(order, func(i, j int) bool { return order[i].pos < order[j].pos })
	// token constants a function compares a token type with
	compared := func(fn *ssa.Function) map[string]bool {
		out := map[string]bool{}
		for _, f := range withClosures(fn) {
			allInstrs(f, func(in ssa.Instruction) {
				bo, ok := in.(*ssa.BinOp)
				if !ok || bo.Op != token.EQL && bo.Op != token.NEQ {
					return
				}
				for _, v := range []ssa.Value{bo.X, bo.Y} {
					if k, ok := v.(*ssa.Const); ok && k.Value != nil && types.Identical(k.Type(), tokT) {
						out[a.tokenName(k)] = true
					}
				}
			})
		}
		return out
	}
	// the keyword a clause starts with, by the parser's name (parseWhere -> TokenWHERE ...), resolved
	// against the declared constants case-insensitively
	keywordOf := func(fn *ssa.Function) string {
		want := strings.ToUpper(strings.TrimPrefix(fn.Name(), "parse"))
		want = strings.TrimSuffix(want, "BY") // parseGroupBy -> GROUP, parseOrderBy -> ORDER
		for name := range a.tokenConsts() {
			if strings.ToUpper(strings.TrimPrefix(name, "Token")) == want {
				return name
			}
		}
		return ""
	}
	collecting := map[string]bool{"parseWhere": true, "parseGroupBy": true, "parseHaving": true}
	n := 0
	for i, p := range order {
		if !collecting[p.fn.Name()] {
			continue
		}
		cmp := compared(p.fn)
		for _, q := range order[i+1:] {
			k := keywordOf(q.fn)
			if k == "" || !collecting[q.fn.Name()] && q.fn.Name() != "parseOrderBy" && q.fn.Name() != "parseLimit" && q.fn.Name() != "parseWith" {
				continue
			}
			n++
			a.Check(cmp[k], fmt.Sprintf("%s#stops-at-%s", fname(p.fn), k), p.fn.Pos(),
				"the text collected by "+p.fn.Name()+" can end at "+k,
				p.fn.Name()+" never compares a token with "+k+": the "+strings.TrimPrefix(k, "Token")+" clause that may follow is swallowed into its predicate text")
		}
	}
	return n
}

// tokenConsts: declared constants of type rsql.TokenType by name -> value.
func (a *A) tokenConsts() map[string]int64 {
	out := map[string]int64{}
	tokT := a.Named("rsql", "TokenType")
	sc := a.Pkg("rsql").Pkg.Scope()
	for _, nm := range sc.Names() {
		if c, ok := sc.Lookup(nm).(*types.Const); ok && types.Identical(c.Type(), tokT) {
			if v, ok := constant.Int64Val(c.Val()); ok {
				out[nm] = v
			}
		}
	}
	return out
}

func (a *A) tokenName(k *ssa.Const) string {
	v := k.Int64()
	for nm, x := range a.tokenConsts() {
		if x == v {
			return nm
		}
	}
	return fmt.Sprint(v)
}

// ruleCapsScaleWithInput: the clause loops guard against non-termination with an iteration counter.
// Exceeding it returns an error that Parser.Parse treats as recoverable — the clause is dropped and the
// statement accepted. A constant cap therefore silently discards any clause with more tokens than the
// cap (a WHERE with 26 OR-ed comparisons). Every comparison "counter > cap" in a Parser method must
// use a cap derived from the length of the input.
func (a *A) ruleCapsScaleWithInput() int {
	n := 0
	P := a.Named("rsql", "Parser")
	inputF := a.FieldOf(P, "input")
	for _, fn := range a.ModFuncs {
		if fn.Signature.Recv() == nil || !isNamedType(fn.Signature.Recv().Type(), P.Obj().Pkg().Path(), "Parser") {
			continue
		}
		loops := sccLoops(fn)
		allInstrs(fn, func(in ssa.Instruction) {
			bo0, ok := in.(*ssa.BinOp)
			if !ok || !isIntType(bo0.X.Type()) {
				return
			}
			// `counter > cap` in either orientation (`cap < counter`): the counter is the greater side
			bo := &ssa.BinOp{Op: bo0.Op, X: bo0.X, Y: bo0.Y}
			switch bo0.Op {
			case token.GTR, token.GEQ:
			case token.LSS:
				bo.Op, bo.X, bo.Y = token.GTR, bo0.Y, bo0.X
			case token.LEQ:
				bo.Op, bo.X, bo.Y = token.GEQ, bo0.Y, bo0.X
			default:
				return
			}
			// X is a loop counter of a loop that contains this comparison
			counter := false
			for _, l := range loops {
				if l.Blocks[bo0.Block()] && l.progressValue(bo.X) {
					counter = true
				}
			}
			if !counter {
				return
			}
			// only caps whose overflow leaves the function with an error
			iff, isIf := bo0.Block().Instrs[len(bo0.Block().Instrs)-1].(*ssa.If)
			if !isIf || iff.Cond != ssa.Value(bo0) {
				return
			}
			retErr := false
			for _, in2 := range bo0.Block().Succs[0].Instrs {
				if r, ok := in2.(*ssa.Return); ok && len(r.Results) > 0 && !isNilConst(r.Results[len(r.Results)-1]) {
					retErr = true
				}
			}
			if !retErr {
				return
			}
			n++
			if why, ok := capReviewed[fname(fn)]; ok {
				a.Ok(fname(fn)+"#cap-scales", bo0.Pos(), "reviewed: %s", why)
				return
			}
			scales := false
			for x := range backwardSlice(bo.Y, 6) {
				if c, ok := x.(*ssa.Call); ok {
					if cc, ok := isBuiltinCall(c, "len"); ok {
						if t := TermOf(cc.Args[0], nil); t.Kind == "field" && t.Field == inputF {
							scales = true
						}
					}
				}
			}
			a.Check(scales, fname(fn)+"#cap-scales", bo0.Pos(), "the iteration cap grows with the length of the statement",
				"the loop gives up after "+TermOf(bo.Y, nil).String()+" iterations with an error that Parse recovers from: a clause with more tokens is silently dropped and the statement accepted without it")
		})
	}
	return n
}

// capReviewed: constant caps that are documented limits rather than loop guards.
var capReviewed = map[string]string{
	"(*rsql.Parser).parseSelect": "MaxSelectFields (300) is the documented limit on the number of SELECT items, counted per item, not per token",
}

// ruleAccumulatedTextConsumed: the clause parsers accumulate the tokens of the item in hand in a
// strings.Builder and hand the text over (append to the statement) when the item ends. Every way out
// of the function after a token was written into the builder must pass a read of the builder
// (String(), directly or in a local closure such as flushItem): an early return that skips it silently
// drops the last item of the clause (`GROUP BY CountingWindow(2), device, kind LIMIT 100` loses kind).
func (a *A) ruleAccumulatedTextConsumed() int {
	n := 0
	isBuilderMethod := func(cc *ssa.CallCommon, names ...string) bool {
		sc := cc.StaticCallee()
		if sc == nil || sc.Signature.Recv() == nil || !isNamedType(sc.Signature.Recv().Type(), "strings", "Builder") {
			return false
		}
		for _, nm := range names {
			if sc.Name() == nm {
				return true
			}
		}
		return false
	}
	for _, fn := range a.ModFuncs {
		if fn.Pkg != a.Pkg("rsql") || fn.Blocks == nil || fn.Parent() != nil {
			continue
		}
		if r := fn.Signature.Recv(); r == nil || !isNamedType(r.Type(), modPath+"/rsql", "Parser") {
			continue
		}
		allInstrs(fn, func(in ssa.Instruction) {
			al, ok := in.(*ssa.Alloc)
			if !ok || !isNamedType(al.Type(), "strings", "Builder") {
				return
			}
			// closures that read the builder (through a captured variable bound to this alloc)
			readers := map[*ssa.Function]bool{}
			for _, anon := range fn.AnonFuncs {
				for i, fv := range anon.FreeVars {
					_ = i
					reads := false
					allInstrs(anon, func(x ssa.Instruction) {
						if cc := callCommon(x); cc != nil && isBuilderMethod(cc, "String") && len(cc.Args) > 0 && cc.Args[0] == ssa.Value(fv) {
							reads = true
						}
					})
					if reads {
						// is this free variable bound to al?
						allInstrs(fn, func(x ssa.Instruction) {
							if mc, ok := x.(*ssa.MakeClosure); ok && mc.Fn == ssa.Value(anon) {
								for j, b := range mc.Bindings {
									if b == ssa.Value(al) && anon.FreeVars[j] == fv {
										readers[anon] = true
									}
								}
							}
						})
					}
				}
			}
			isRead := func(x ssa.Instruction) bool {
				cc := callCommon(x)
				if cc == nil {
					return false
				}
				if isBuilderMethod(cc, "String") && len(cc.Args) > 0 && cc.Args[0] == ssa.Value(al) {
					return true
				}
				for _, l := range phiLeaves(cc.Value) {
					if mc, ok := l.(*ssa.MakeClosure); ok {
						if f, ok := mc.Fn.(*ssa.Function); ok && readers[f] {
							return true
						}
					}
				}
				return false
			}
			hasRead := false
			allInstrs(fn, func(x ssa.Instruction) {
				if isRead(x) {
					hasRead = true
				}
			})
			if !hasRead {
				return // a builder that is returned or consumed elsewhere: not this idiom
			}
			allInstrs(fn, func(x ssa.Instruction) {
				cc := callCommon(x)
				if cc == nil || !isBuilderMethod(cc, "WriteString", "WriteByte", "WriteRune") || len(cc.Args) == 0 || cc.Args[0] != ssa.Value(al) {
					return
				}
				n++
				bad := pathToExitAvoiding(x, func(y ssa.Instruction) bool {
					if isRead(y) {
						return true
					}
					// an error return discards the statement: not a silent loss
					if r, ok := y.(*ssa.Return); ok && returnsNonNilError(r) {
						return true
					}
					return false
				}, false)
				pos := x.Pos()
				if bad != nil {
					pos = bad.Pos()
				}
				a.Check(bad == nil, fmt.Sprintf("%s#%s-consumed", fname(fn), al.Comment), pos,
					"every way out after a token was accumulated passes a read of the accumulated text",
					"the function can return (without an error) after a token was written into "+al.Comment+" and before the accumulated text is read: the last item of the clause is silently dropped")
			})
		})
	}
	return n
}

// ruleParserKeepsNoState: the result of Parse is a function of the statement text alone. Package
// rsql may keep state between calls only in the form of a memo keyed by the statement text itself:
// every run-time write to a package-level variable of rsql is (a) an insertion into a map / sync.Map
// whose key is a string parameter of the writing function, unmodified (two different statements can
// then never share an entry), or (b) the replacement of such a container by an empty one. A key
// computed from the text (layout collapsed, case folded) hands one statement's clauses to another
// whenever the normalisation is not injective - whitespace inside a literal is data.
func (a *A) ruleParserKeepsNoState() {
	pkg := a.Pkg("rsql")
	n := 0
	var hasParam func(v ssa.Value, d int) bool
	hasParam = func(v ssa.Value, d int) bool {
		if mi, ok := v.(*ssa.MakeInterface); ok {
			v = mi.X
		}
		if p, ok := v.(*ssa.Parameter); ok {
			return isStringType(p.Type())
		}
		if bo, ok := v.(*ssa.BinOp); ok && bo.Op == token.ADD && d < 4 {
			return hasParam(bo.X, d+1) || hasParam(bo.Y, d+1)
		}
		return false
	}
	for _, fn := range a.ModFuncs {
		if fn.Blocks == nil || fn.Name() == "init" || strings.HasPrefix(fn.Name(), "init#") {
			continue
		}
		allInstrs(fn, func(in ssa.Instruction) {
			var g *ssa.Global
			ok, what := true, ""
			switch x := in.(type) {
			case *ssa.Store:
				g = rootGlobal(x.Addr)
				if g == nil || g.Pkg != pkg {
					return
				}
				switch v := x.Val.(type) {
				case *ssa.MakeMap:
				case *ssa.Const:
					if v.Value != nil {
						ok, what = false, "assigned "+TermOf(x.Val, nil).String()
					}
				default:
					ok, what = false, "assigned "+TermOf(x.Val, nil).String()
				}
			case *ssa.MapUpdate:
				g = rootGlobal(x.Map)
				if g == nil || g.Pkg != pkg {
					return
				}
				if !hasParam(x.Key, 0) {
					ok, what = false, "a map entry is stored under the key "+TermOf(x.Key, nil).String()+", which is computed from the statement instead of being the statement"
				}
			case ssa.CallInstruction:
				cc := x.Common()
				cal := cc.StaticCallee()
				if cal == nil || cal.Signature.Recv() == nil || len(cc.Args) == 0 {
					return
				}
				g = rootGlobal(cc.Args[0])
				if g == nil || g.Pkg != pkg {
					return
				}
				switch cal.Name() {
				case "Store", "LoadOrStore", "Swap", "CompareAndSwap":
					if len(cc.Args) < 2 || !hasParam(cc.Args[1], 0) {
						ok, what = false, "an entry is stored under a key that is computed from the statement instead of being the statement"
					}
				case "Delete", "LoadAndDelete", "Clear", "Range", "Load", "Lock", "Unlock", "RLock", "RUnlock", "Do", "Get":
					return
				case "Put", "Add", "Set":
					ok, what = false, "mutated through "+cal.Name()
				default:
					return
				}
			default:
				return
			}
			n++
			a.Check(ok, fmt.Sprintf("global:rsql.%s@%s", g.Name(), fname(fn)), in.Pos(), "state kept between parses is a memo keyed by the statement text itself (or its reset)",
				fmt.Sprintf("package-level variable rsql.%s is written at run time by %s: %s - parsing one statement can change what another one parses to", g.Name(), fname(fn), what))
		})
	}
	if n == 0 {
		a.Ok("global:rsql", token.NoPos, "no package-level variable of rsql is written after initialisation").Trivial = true
	}
}

// rootGlobal: the package-level variable an address or a value loaded from it is rooted in
// (g, g.f, g.f[i], *g ...), or nil.
func rootGlobal(v ssa.Value) *ssa.Global {
	for i := 0; i < 12; i++ {
		switch x := v.(type) {
		case *ssa.Global:
			return x
		case *ssa.FieldAddr:
			v = x.X
		case *ssa.IndexAddr:
			v = x.X
		case *ssa.UnOp:
			if x.Op != token.MUL {
				return nil
			}
			v = x.X
		case *ssa.Field:
			v = x.X
		default:
			return nil
		}
	}
	return nil
}


// ruleLexerStartsAtToken: a lexer reads the statement from its first byte, or from an offset that a lexer reported
// as the position of a token (Token.Pos plus a constant or a length). An offset found by searching the raw text
// (`strings.Index`, a hand-written word search) can lie inside a string literal or a quoted identifier: the lexer
// then starts in the middle of a token and reads the rest of the statement wrongly - the layout / literal content
// of a statement changes its parse. The same holds for every slice of Parser.input taken in the parser.
func (a *A) ruleLexerStartsAtToken() int {
	P := a.Named("rsql", "Parser")
	inputF := a.FieldOf(P, "input")
	tokT := a.Named("rsql", "Token")
	posF := a.FieldOf(tokT, "Pos")
	newLexer := a.Func("rsql", "NewLexer")
	isInput := func(v ssa.Value) bool {
		t := TermOf(v, nil)
		return t.Kind == "field" && t.Field == inputF
	}
	// fromTokenPos: v is built from token positions, constants and lengths only (and at least one token position)
	var fromTokenPos func(v ssa.Value, seen map[ssa.Value]bool) (ok bool, hasPos bool)
	fromTokenPos = func(v ssa.Value, seen map[ssa.Value]bool) (bool, bool) {
		if seen[v] {
			return true, false
		}
		seen[v] = true
		switch x := v.(type) {
		case *ssa.Const:
			return true, false
		case *ssa.Field:
			if fieldVarOf(x) == posF {
				return true, true
			}
		case *ssa.UnOp:
			if x.Op == token.MUL {
				if fa, ok := x.X.(*ssa.FieldAddr); ok && fieldVarOf(fa) == posF {
					return true, true
				}
				// a position remembered in a field of the parser (one scan serving two clauses): whatever is stored there
				if fa, ok := x.X.(*ssa.FieldAddr); ok && fieldVarOf(fa) != nil && isIntType(fieldVarOf(fa).Type()) {
					all, any, n := true, false, 0
					for _, g := range a.ModFuncs {
						if g.Pkg != a.Pkg("rsql") {
							continue
						}
						for _, st := range storesToField(g, fieldVarOf(fa)) {
							n++
							o, h := fromTokenPos(st.Val, seen)
							all, any = all && o, any || h
						}
					}
					return all && n > 0, any
				}
				if ld, ok := x.X.(*ssa.Alloc); ok {
					_ = ld
					all, any := true, false
					for _, st := range phiLeaves(x) {
						if st == ssa.Value(x) {
							return false, false
						}
						o, h := fromTokenPos(st, seen)
						all, any = all && o, any || h
					}
					return all, any
				}
			}
		case *ssa.BinOp:
			if x.Op == token.ADD || x.Op == token.SUB {
				o1, h1 := fromTokenPos(x.X, seen)
				o2, h2 := fromTokenPos(x.Y, seen)
				return o1 && o2, h1 || h2
			}
		case *ssa.Phi:
			all, any := true, false
			for _, e := range x.Edges {
				o, h := fromTokenPos(e, seen)
				all, any = all && o, any || h
			}
			return all, any
		case *ssa.Convert:
			return fromTokenPos(x.X, seen)
		case *ssa.Call:
			if _, ok := isBuiltinCall(x, "len"); ok {
				return true, false
			}
		}
		return false, false
	}
	n := 0
	for _, fn := range a.ModFuncs {
		if fn.Pkg != a.Pkg("rsql") {
			continue
		}
		allInstrs(fn, func(in ssa.Instruction) {
			sl, ok := in.(*ssa.Slice)
			if !ok || !isStringType(sl.X.Type()) || !isInput(sl.X) {
				return
			}
			n++
			construct := fmt.Sprintf("%s#input-cut", fname(fn))
			okLow := true
			if sl.Low != nil {
				o, h := fromTokenPos(sl.Low, map[ssa.Value]bool{})
				okLow = o && (h || isZeroConst(sl.Low))
			}
			a.Check(okLow, construct, sl.Pos(), "the statement text is cut at a position a lexer reported for a token",
				"the statement text is cut at "+TermOf(sl.Low, nil).String()+", which is not derived from a token position: an offset found by searching the raw text can lie inside a string literal or a quoted name, and what is read from there is not the statement's token stream")
		})
		for _, c := range callsTo(fn, newLexer) {
			call, ok := c.(*ssa.Call)
			if !ok || c.Parent() != fn {
				continue
			}
			arg := call.Call.Args[0]
			if _, isSl := arg.(*ssa.Slice); isSl {
				continue // judged above
			}
			n++
			_, isParam := arg.(*ssa.Parameter)
			a.Check(isInput(arg) || isParam, fname(fn)+"#lexer-over-whole-text", c.Pos(), "the lexer is given the whole text", "a lexer is started over "+TermOf(arg, nil).String()+", which is neither the whole statement nor a suffix cut at a token position")
		}
	}
	return n
}
