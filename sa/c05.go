package main

import (
	"fmt"
	"go/constant"
	"go/token"
	"go/types"
	"sort"
	"strings"

	"golang.org/x/tools/go/ssa"
)

func init() {
	register(&Prop{
		ID:         "C05",
		Decided:    "(1) the synchronous (processDirectDataSync) and asynchronous (processDirectData) paths are the same pipeline: enrichData -> applyWhereAndAnalytic -> projectDirectRow -> delivery, each stage dominating the next and fed with the previous stage's output, and the only other module calls on the way are the frozen async extras; (2) rows are received from the input buffer only by the single processing goroutine (and the expansion migration), synchronous sinks are invoked inline in slice order (no go / channel hand-off in that loop); (3) a row rejected by WHERE produces nothing: applyWhereAndAnalytic returns keep=false whenever the predicate is false, and projection/delivery are reached only under keep=true; (4) the caller's row is not written (shared with C20, ownmap). Also: the evaluation methods of the shared predicate/expression objects (condition.ExprCondition, expr.Expression) keep no per-evaluation state in the object (no store through the receiver, no receiver-owned address handed to code outside the module). Also: every receive from Stream.dataChan holds dataChanMux (a consumer cannot take a row out of the middle of a buffer migration); no delivered row and no result returned by EmitSync is the caller's own map. Also: in package functions a failing run of a program obtained from the bridge's process-wide compile cache (compiled against another row's value types) is always followed by the evaluation against the row itself (expr.Eval) before an error is returned (flow/cached-program-failure-falls-back). Also: no struct type and no package-level variable of the module holds an expr-lang vm.VM (ownmap/no-retained-vm): the run-time state of one evaluation is never kept in an object shared by concurrent evaluations or by all instances of the process. Also: no field of the per-query compiled information (the elements of Stream.compiledFieldInfo / compiledExprInfo) is both written and read on the per-row path (whomay/compiled-info-not-steered-by-rows): a counter that switches the evaluation strategy makes a row's value depend on earlier rows. Also: every send on Stream.dataChan lies in a function that no goroutine started inside the library reaches through synchronous calls (golife/producer-sends-on-its-own-goroutine): a row is put into the input buffer by the goroutine that called Emit, before Emit returns - a row handed to a goroutine of its own is not ordered with the producer's next row.",
		NotDecided: "projection values (aliases, nested paths, *), that the result contains exactly the selected columns, history independence of expression caches, order under the asynchronous worker pool (documented as unordered).",
		Run:        runC05,
	})
}

func runC05(a *A) {
	a.Rule("golife/producer-sends-on-its-own-goroutine", 1, func() { a.ruleProducerSendsInline() })
	a.Rule("flow/shared-pipeline", 10, func() {
		enrich := a.Method("stream", "Stream", "enrichData")
		where := a.Method("stream", "Stream", "applyWhereAndAnalytic")
		project := a.Method("stream", "Stream", "projectDirectRow")
		sinks := a.Method("stream", "Stream", "callSinksAsync")
		allowedExtra := map[string]string{
			"(*stream.DataProcessor).expandUnnestResults": "unnest expansion of the projected row (async path)",
			"(*stream.Stream).applyOrderBy":               "ORDER BY on the expanded batch (async path)",
			"(*stream.Stream).sendResultNonBlocking":      "result channel delivery (async path)",
		}
		callsAll := func(f *ssa.Function, fs ...*ssa.Function) bool {
			for _, g := range fs {
				if len(callsTo(f, g)) == 0 {
					return false
				}
			}
			return true
		}
		for _, entry := range []*ssa.Function{a.Method("stream", "Stream", "processDirectDataSync"), a.Method("stream", "DataProcessor", "processDirectData")} {
			// the row-wise stages run in the entry itself or in a same-package helper it calls (the two
			// entries may share that helper: then they are the same pipeline by construction); likewise the
			// delivery may sit in a helper. Order, data flow and gating are checked where the stages are.
			fn := entry
			var hostCall, deliverCall *ssa.Call
			if !callsAll(entry, enrich, where, project) {
				for _, h := range a.helpersOf(entry) {
					if callsAll(h, enrich, where, project) {
						fn = h
						for _, c := range callsTo(entry, h) {
							hostCall, _ = c.(*ssa.Call)
						}
					}
				}
			}
			sinkHost := entry
			if len(callsTo(entry, sinks)) == 0 {
				for _, h := range a.helpersOf(entry) {
					if len(callsTo(h, sinks)) > 0 && h != fn {
						sinkHost = h
						for _, c := range callsTo(entry, h) {
							deliverCall, _ = c.(*ssa.Call)
						}
					}
				}
			}
			is := func(f *ssa.Function) func(ssa.Instruction) bool {
				return func(in ssa.Instruction) bool { return staticCallee(in) == f }
			}
			chain := []struct {
				name string
				f    *ssa.Function
			}{{"enrichData", enrich}, {"applyWhereAndAnalytic", where}, {"projectDirectRow", project}}
			for i := 1; i < len(chain); i++ {
				n := a.ruleDominatedBy(fn, fmt.Sprintf("%s#%s-after-%s", fname(entry), chain[i].name, chain[i-1].name), is(chain[i-1].f), is(chain[i].f),
					chain[i].name+" runs only after "+chain[i-1].name, chain[i].name+" can run without "+chain[i-1].name+" having run: the two API paths would not be the same pipeline")
				if n == 0 {
					a.Bad(fmt.Sprintf("%s#%s-after-%s", fname(entry), chain[i].name, chain[i-1].name), fn.Pos(), "%s does not call %s", fname(entry), chain[i].name)
				}
			}
			// delivery after projection: in the entry, the sinks (or the delivery helper) run only after the
			// projection (or the stage helper) has run
			{
				early, late := is(project), is(sinks)
				if hostCall != nil {
					early = func(in ssa.Instruction) bool { return in == ssa.Instruction(hostCall) }
				}
				if deliverCall != nil {
					late = func(in ssa.Instruction) bool { return in == ssa.Instruction(deliverCall) }
				}
				n := a.ruleDominatedBy(entry, fmt.Sprintf("%s#callSinksAsync-after-projectDirectRow", fname(entry)), early, late,
					"callSinksAsync runs only after projectDirectRow", "callSinksAsync can run without projectDirectRow having run: the two API paths would not be the same pipeline")
				if n == 0 || len(callsTo(sinkHost, sinks)) == 0 {
					a.Bad(fmt.Sprintf("%s#callSinksAsync-after-projectDirectRow", fname(entry)), entry.Pos(), "%s does not call callSinksAsync", fname(entry))
				}
			}
			// data flow between stages
			var enrichCall, whereCall, projCall *ssa.Call
			allInstrs(fn, func(in ssa.Instruction) {
				if c, ok := in.(*ssa.Call); ok {
					switch c.Call.StaticCallee() {
					case enrich:
						enrichCall = c
					case where:
						whereCall = c
					case project:
						projCall = c
					}
				}
			})
			if enrichCall != nil && whereCall != nil && projCall != nil {
				fromRes := func(v ssa.Value, call *ssa.Call, idx int) bool {
					for _, l := range phiLeaves(v) {
						if ex, ok := l.(*ssa.Extract); ok && ex.Tuple == ssa.Value(call) && ex.Index == idx {
							return true
						}
					}
					return false
				}
				a.Check(fromRes(whereCall.Call.Args[1], enrichCall, 0), fname(fn)+"#where-input", whereCall.Pos(), "WHERE is evaluated on the enriched row", "applyWhereAndAnalytic is not fed with enrichData's row")
				a.Check(fromRes(projCall.Call.Args[1], enrichCall, 0) && fromRes(projCall.Call.Args[2], whereCall, 0), fname(fn)+"#project-input", projCall.Pos(), "projection uses the enriched row and the analytic results of this row", "projectDirectRow is not fed with the enriched row and this row's analytic results")
			}
			// keep/pass/emit guards: projection and delivery only on the accepting edges
			for _, st := range []struct {
				call *ssa.Call
				idx  int
				next *ssa.Function
				nm   string
			}{{enrichCall, 1, where, "keep"}, {whereCall, 1, project, "pass"}, {projCall, 1, sinks, "emit"}} {
				if st.call == nil {
					continue
				}
				var flag ssa.Value
				for _, r := range *st.call.Referrers() {
					if ex, ok := r.(*ssa.Extract); ok && ex.Index == st.idx {
						flag = ex
					}
				}
				gated := callsTo(fn, st.next)
				gateFn := fn
				if st.next == sinks && (hostCall != nil || deliverCall != nil) {
					// the emit gate sits in the entry: the delivery (call of sinks or of the delivery helper)
					// is guarded by a boolean result of the stage helper, which is true only after the
					// projection said emit (every return of the helper with that result true is dominated by
					// the true edge of projectDirectRow's emit)
					gateFn = entry
					gated = nil
					if deliverCall != nil {
						gated = append(gated, deliverCall)
					} else {
						gated = callsTo(entry, sinks)
					}
					if hostCall != nil {
						flag = nil
						for _, r := range *hostCall.Referrers() {
							ex, ok := r.(*ssa.Extract)
							if !ok || !isBool(ex.Type()) {
								continue
							}
							// result #ex.Index of the helper is true only under emit
							onlyUnderEmit := true
							for _, hb := range fn.Blocks {
								ret, ok := hb.Instrs[len(hb.Instrs)-1].(*ssa.Return)
								if !ok || ex.Index >= len(ret.Results) {
									continue
								}
								for _, l := range phiLeaves(ret.Results[ex.Index]) {
									if k, ok := l.(*ssa.Const); ok && k.Value != nil && !constant.BoolVal(k.Value) {
										continue
									}
									pf := ssa.Value(nil)
									for _, r2 := range *projCall.Referrers() {
										if e2, ok := r2.(*ssa.Extract); ok && e2.Index == 1 {
											pf = e2
										}
									}
									if l == pf {
										continue
									}
									if pf == nil || !guardedByValue(hb, func(v ssa.Value) bool { return v == pf }, true) {
										onlyUnderEmit = false
									}
								}
							}
							if onlyUnderEmit {
								flag = ex
							}
						}
					}
				}
				for _, c := range gated {
					ok := flag != nil && guardedByValue(c.Block(), func(v ssa.Value) bool { return v == flag }, true)
					_ = gateFn
					a.Check(ok, fmt.Sprintf("%s#%s-gates-%s", fname(fn), st.nm, st.next.Name()), c.Pos(),
						st.next.Name()+" is reached only when "+st.nm+" is true", st.next.Name()+" can be reached although "+st.nm+" is false: a rejected row would still produce output")
				}
			}
			// other module calls on the way
			extraScan := []*ssa.Function{entry}
			if fn != entry {
				extraScan = append(extraScan, fn)
			}
			if sinkHost != entry {
				extraScan = append(extraScan, sinkHost)
			}
			for _, scanned := range extraScan {
				allInstrs(scanned, func(in ssa.Instruction) {
					cal := staticCallee(in)
					if cal == nil || !a.fnInModule(cal) {
						return
					}
					switch cal {
					case enrich, where, project, sinks:
						return
					}
					if cal == fn || cal == sinkHost {
						return // the helper that carries the stages / the delivery (checked above)
					}
					if cal.Pkg != nil && (cal.Pkg.Pkg.Path() == modPath+"/logger" || cal.Name() == "Inc") {
						return
					}
					if c := callCommon(in); c.IsInvoke() {
						return
					}
					why, ok := allowedExtra[fname(cal)]
					if entry.Name() == "processDirectDataSync" {
						ok = false
					}
					if ok {
						a.Ok(fname(entry)+"#extra:"+cal.Name(), in.Pos(), "%s", why)
					} else {
						a.Bad(fname(entry)+"#extra:"+cal.Name(), in.Pos(), "%s calls %s, which is not a stage of the shared pipeline: the two API paths could differ", fname(entry), fname(cal))
					}
				})
			}
		}
	})
	a.Rule("ordtab/where-rejects", 1, func() {
		fn := a.Method("stream", "Stream", "applyWhereAndAnalytic")
		// under "filter set and predicate false", keep must be false on every path
		env := &Env{a: a, Rank: map[string]int{}, Flags: map[string]bool{},
			Assume: func(t *Term, v ssa.Value) Tri {
				if predicateVerdict(v) {
					return F
				}
				if bo, ok := v.(*ssa.BinOp); ok && (bo.Op == token.NEQ || bo.Op == token.EQL) {
					if isFieldOf(TermOf(bo.X, nil), "stream.Stream", "filter") {
						return tri(bo.Op == token.NEQ)
					}
				}
				return U
			}}
		w := NewWalker(env, nil)
		w.RetIdx = 1
		bad := ""
		analyticAfterReject := false
		evalAn := a.MethodOpt("stream", "Stream", "evalAnalytic")
		whereUses := func(in ssa.Instruction) bool { return false }
		_ = whereUses
		outs := w.Run(fn.Blocks[0], nil)
		returned := 0
		for _, o := range outs {
			if o.Ended == "loop" {
				// the walk gave up going round a loop whose trip count it does not know; every way out of
				// the loop is walked as a path of its own, so nothing that returns is lost
				continue
			}
			if o.Ended == "return" {
				returned++
			}
			if o.Ended != "return" || o.Ret != F {
				bad = fmt.Sprintf("with the predicate false a path ends with %s keep=%v", o.Ended, o.Ret)
			}
		}
		if returned == 0 && bad == "" {
			bad = "no path through the function returns under the fixed conditions"
		}
		_ = analyticAfterReject
		_ = evalAn
		a.Check(bad == "", fname(fn)+"#reject", fn.Pos(), "keep=false on every path on which the WHERE predicate evaluates to false", "a row whose WHERE predicate is false is kept: "+bad)
	})
	a.Rule("whomay/single-consumer", 2, func() {
		S := a.Named("stream", "Stream")
		dc := a.FieldOf(S, "dataChan")
		// the one consumer is the processing goroutine; every other receive (migration into a larger
		// channel, discarding what is queued at Stop) holds the data-channel lock exclusively, which the
		// consumer's receive (under the read lock, C19 locks/receive-under-lock) cannot overlap
		consumerFn := a.Method("stream", "DataProcessor", "Process")
		consumer := fname(consumerFn)
		L := a.Locks()
		key := lockKey{"stream.Stream", "dataChanMux"}
		n := 0
		for _, fn := range a.ModFuncs {
			allInstrs(fn, func(in ssa.Instruction) {
				var chans []ssa.Value
				switch x := in.(type) {
				case *ssa.UnOp:
					if x.Op == token.ARROW {
						chans = append(chans, x.X)
					}
				case *ssa.Select:
					for _, s := range x.States {
						if s.Dir == types.RecvOnly {
							chans = append(chans, s.Chan)
						}
					}
				}
				for _, ch := range chans {
					t := TermOf(ch, nil)
					if t.Kind == "field" && t.Field == dc {
						n++
						if fname(fn) == consumer || inlinePartOf(fn, consumerFn) || a.calledOnlyFrom(fn, consumerFn) {
							a.Ok("recv(dataChan)@"+fname(fn), in.Pos(), "the single processing goroutine")
						} else if L.Held(in)[key] == 'W' {
							a.Ok("recv(dataChan)@"+fname(fn), in.Pos(), "receives with dataChanMux held exclusively (migration / discard at Stop): cannot overlap the consumer's receive")
						} else {
							a.Bad("recv(dataChan)@"+fname(fn), in.Pos(), "%s receives from Stream.dataChan: a second consumer breaks per-producer order and exactly-once processing", fname(fn))
						}
					}
				}
			})
		}
		if n == 0 {
			a.Und("recv(dataChan)", token.NoPos, "no receive from Stream.dataChan found")
		}
	})
	a.Rule("flow/fresh-channel-per-iteration", 1, func() { a.ruleFreshChannelPerIteration() })
	a.Rule("whomay/compiled-info-not-steered-by-rows", 2, func() { a.ruleCompiledInfoReadOnly() })
	a.Rule("whomay/evaluators-read-only", 5, func() { a.ruleEvaluatorsReadOnly() })
	a.Rule("ownmap/no-retained-vm", 1, func() { a.ruleNoRetainedVM() })
	a.Rule("locks/receive-under-lock", 2, func() { a.ruleReceiveUnderLock() })
	a.Rule("ownmap/caller-map-not-handed-out", 5, func() { a.ruleCallerMapNotHandedOut() })
	a.Rule("flow/cached-program-failure-falls-back", 1, func() { a.ruleCachedProgramFailureFallsBack() })
	a.Rule("flow/sync-sinks-inline", 1, func() {
		S := a.Named("stream", "Stream")
		ss := a.FieldOf(S, "syncSinks")
		n := 0
		for _, fn := range a.ModFuncs {
			for _, l := range rangeLoops(fn) {
				if l.X == nil {
					continue
				}
				t := TermOf(l.X, nil)
				if t.Kind != "field" || t.Field != ss {
					// a snapshot copy of syncSinks is also a loop over the sync sinks
					if !derivesFromFieldCopy(l.X, ss) {
						continue
					}
				}
				n++
				bad := ""
				for b := range l.Blocks {
					for _, in := range b.Instrs {
						switch in.(type) {
						case *ssa.Go:
							bad = "a goroutine is started per sync sink"
						case *ssa.Send:
							bad = "the sync sink is handed to a channel"
						}
					}
				}
				a.Check(bad == "", fname(fn)+"#sync-sinks-inline", l.Header.Instrs[0].Pos(), "synchronous sinks are invoked inline, sequentially in registration order", "synchronous sinks are not invoked inline: "+bad+" (emission order to a synchronous sink would be lost)")
			}
		}
		if n == 0 {
			a.Und("sync-sinks-inline", token.NoPos, "no loop over Stream.syncSinks found")
		}
	})
}

// derivesFromFieldCopy: v is a slice produced by copying/appending from field f (snapshot idiom).
func derivesFromFieldCopy(v ssa.Value, f *types.Var) bool {
	for _, l := range phiLeaves(v) {
		switch x := l.(type) {
		case *ssa.Call:
			if cc, ok := isBuiltinCall(x, "append"); ok {
				for _, arg := range cc.Args {
					if t := TermOf(arg, nil); t.Kind == "field" && t.Field == f {
						return true
					}
				}
			}
		case *ssa.MakeSlice:
			for _, r := range *x.Referrers() {
				if c, ok := r.(*ssa.Call); ok {
					if cc, ok := isBuiltinCall(c, "copy"); ok && len(cc.Args) == 2 {
						if t := TermOf(cc.Args[1], nil); t.Kind == "field" && t.Field == f {
							return true
						}
					}
				}
			}
		}
	}
	return false
}

// ruleFreshChannelPerIteration: the processing loop receives from a reference of Stream.dataChan that
// was read in the same iteration (not carried over from an earlier one): after an expansion swapped
// the channel, the very next receive must use the new one, or rows are taken from the old channel
// while its content is being migrated (order and exactly-once break).
func (a *A) ruleFreshChannelPerIteration() {
	fn := a.Method("stream", "DataProcessor", "Process")
	dc := a.FieldOf(a.Named("stream", "Stream"), "dataChan")
	n := 0
	for _, li := range sccLoops(fn) {
		for b := range li.Blocks {
			for _, in := range b.Instrs {
				sel, ok := in.(*ssa.Select)
				if !ok {
					continue
				}
				for _, st := range sel.States {
					if st.Dir != types.RecvOnly {
						continue
					}
					fresh, isData := false, false
					var stale string
					for _, leaf := range phiLeaves(st.Chan) {
						d, c := isDataChan(leaf, dc)
						if !d && !c {
							continue
						}
						isData = true
						lin, isIn := leaf.(ssa.Instruction)
						if isIn && li.Blocks[lin.Block()] && dominatesInstr(lin, in) {
							fresh = true
						} else {
							stale = a.pos(leaf.Pos())
						}
					}
					if !isData {
						continue
					}
					n++
					a.Check(fresh && stale == "", fname(fn)+"#channel-read-each-iteration", in.Pos(), "the input channel reference is re-read in every iteration before receiving",
						"the processing loop can receive from a channel reference read at "+stale+" in an earlier iteration (or before the loop): after an expansion swaps the channel, rows are still taken from the old one while it is migrated, so emission order and exactly-once processing break")
				}
			}
		}
	}
	// the receive of one iteration may sit in a function literal or a method the loop calls (the locked
	// receive extracted into `nextItem`): it is fresh when that callee reads the channel reference itself
	for _, li := range sccLoops(fn) {
		for b := range li.Blocks {
			for _, in := range b.Instrs {
				call, ok := in.(*ssa.Call)
				if !ok {
					continue
				}
				g := call.Call.StaticCallee()
				if g == nil || g.Blocks == nil || !(inlinePartOf(g, fn) || ssaPkgOf(g) == ssaPkgOf(fn)) {
					continue
				}
				allInstrs(g, func(gin ssa.Instruction) {
					sel, ok := gin.(*ssa.Select)
					if !ok {
						return
					}
					for _, st := range sel.States {
						if st.Dir != types.RecvOnly {
							continue
						}
						fresh, isData := true, false
						var stale string
						for _, leaf := range phiLeaves(st.Chan) {
							d, c := isDataChan(leaf, dc)
							if !d && !c {
								continue
							}
							isData = true
							lin, isIn := leaf.(ssa.Instruction)
							if !(isIn && lin.Parent() == g) {
								fresh = false
								stale = a.pos(leaf.Pos())
							}
						}
						if !isData {
							continue
						}
						n++
						a.Check(fresh, fname(fn)+"#channel-read-each-iteration", gin.Pos(), "the input channel reference is re-read in every iteration (by "+fname(g)+", called from the loop) before receiving",
							"the processing loop can receive from a channel reference read at "+stale+" outside the iteration: after an expansion swaps the channel, rows are still taken from the old one while it is migrated, so emission order and exactly-once processing break")
					}
				})
			}
		}
	}
	if n == 0 {
		a.Und(fname(fn)+"#channel-read-each-iteration", fn.Pos(), "no receive from the input channel found in the processing loop")
	}
}

// ruleEvaluatorsReadOnly: the compiled predicate/expression objects (condition.ExprCondition,
// expr.Expression) are shared: Stream.filter is evaluated by the processing goroutine and by every
// EmitSync caller without a lock, and one object serves every row. Their evaluation methods must
// therefore not keep per-evaluation state in the object: no store through the receiver, and no
// address of receiver-owned storage handed to a pointer-receiver method or function outside the
// module (e.g. a reused vm.VM), other than sync/atomic.
func (a *A) ruleEvaluatorsReadOnly() {
	type tgt struct{ rel, typ string }
	n := 0
	for _, t := range []tgt{{"condition", "ExprCondition"}, {"expr", "Expression"}} {
		N := a.Named(t.rel, t.typ)
		ms := a.Prog.MethodSets.MethodSet(types.NewPointer(N))
		for i := 0; i < ms.Len(); i++ {
			fo, ok := ms.At(i).Obj().(*types.Func)
			if !ok || !strings.HasPrefix(fo.Name(), "Evaluate") && !strings.HasPrefix(fo.Name(), "evaluate") {
				continue
			}
			root := a.Prog.FuncValue(fo)
			if root == nil || root.Blocks == nil {
				continue
			}
			n++
			construct := fname(root) + "#read-only"
			// functions reached with the receiver (or storage loaded from it) as an argument
			type item struct {
				fn    *ssa.Function
				owned map[ssa.Value]bool // parameters that denote receiver-owned storage
			}
			seenFn := map[*ssa.Function]bool{}
			work := []item{{root, map[ssa.Value]bool{root.Params[0]: true}}}
			bad := ""
			var badPos token.Pos
			for len(work) > 0 && bad == "" {
				it := work[0]
				work = work[1:]
				if seenFn[it.fn] {
					continue
				}
				seenFn[it.fn] = true
				var owned func(v ssa.Value, d int) bool
				owned = func(v ssa.Value, d int) bool {
					if d > 10 {
						return false
					}
					if it.owned[v] {
						return true
					}
					switch x := v.(type) {
					case *ssa.FieldAddr:
						return owned(x.X, d+1)
					case *ssa.IndexAddr:
						return owned(x.X, d+1)
					case *ssa.UnOp:
						if x.Op == token.MUL {
							// a pointer/slice/map loaded from receiver-owned storage is still shared storage
							switch x.Type().Underlying().(type) {
							case *types.Pointer, *types.Slice, *types.Map:
								return owned(x.X, d+1)
							}
						}
					}
					return false
				}
				allInstrs(it.fn, func(in ssa.Instruction) {
					if bad != "" {
						return
					}
					switch x := in.(type) {
					case *ssa.Store:
						if owned(x.Addr, 0) {
							bad = fmt.Sprintf("%s stores to %s", fname(it.fn), TermOf(x.Addr, nil).String())
							badPos = x.Pos()
						}
					case *ssa.MapUpdate:
						if owned(x.Map, 0) {
							bad = fmt.Sprintf("%s updates the map %s", fname(it.fn), TermOf(x.Map, nil).String())
							badPos = x.Pos()
						}
					}
					cc := callCommon(in)
					if cc == nil {
						return
					}
					callee := cc.StaticCallee()
					for ai, arg := range cc.Args {
						if !owned(arg, 0) {
							continue
						}
						if callee != nil && a.fnInModule(callee) {
							if callee.Blocks != nil && ai < len(callee.Params) {
								work = append(work, item{callee, map[ssa.Value]bool{callee.Params[ai]: true}})
							}
							continue
						}
						// outside the module: an address of receiver-owned storage (not the pointer value the field holds)
						if _, isAddr := arg.(*ssa.FieldAddr); !isAddr {
							continue
						}
						if callee != nil && callee.Pkg != nil && (callee.Pkg.Pkg.Path() == "sync/atomic" || callee.Pkg.Pkg.Path() == "sync") {
							continue
						}
						name := "a dynamic call"
						if callee != nil {
							name = fname(callee)
						}
						bad = fmt.Sprintf("%s passes the address %s to %s", fname(it.fn), TermOf(arg, nil).String(), name)
						badPos = in.Pos()
					}
				})
			}
			pos := root.Pos()
			if bad != "" {
				pos = badPos
			}
			a.Check(bad == "", construct, pos,
				fmt.Sprintf("no store through the receiver and no receiver-owned address leaves the module in %d functions", len(seenFn)),
				bad+": the object is shared by the processing goroutine and every EmitSync caller and serves every row, so per-evaluation state kept in it makes a row's result depend on other rows and interleavings")
		}
	}
	if n == 0 {
		a.Und("evaluators", token.NoPos, "no Evaluate method found")
	}
}

// ruleNoRetainedVM: an expr-lang vm.VM is the run-time state of one evaluation (stack, scopes,
// instruction pointer); expr.Run makes a fresh one per call. The compiled predicates and the bridge's
// program cache are shared by every goroutine that calls Emit/EmitSync and by every Streamsql instance
// of the process, so a VM kept in any of the module's data structures is per-evaluation state in a
// shared object: concurrent evaluations corrupt each other's stack and silently return wrong values.
// No struct type and no package-level variable of the module holds a vm.VM (by value, pointer, slice,
// map, channel or array).
func (a *A) ruleNoRetainedVM() int {
	isVM := func(t types.Type) bool {
		n, ok := types.Unalias(t).(*types.Named)
		return ok && n.Obj().Name() == "VM" && n.Obj().Pkg() != nil && n.Obj().Pkg().Path() == "github.com/expr-lang/expr/vm"
	}
	var mentions func(t types.Type, d int) bool
	mentions = func(t types.Type, d int) bool {
		if d > 6 {
			return false
		}
		if isVM(t) {
			return true
		}
		switch x := types.Unalias(t).(type) {
		case *types.Pointer:
			return mentions(x.Elem(), d+1)
		case *types.Slice:
			return mentions(x.Elem(), d+1)
		case *types.Array:
			return mentions(x.Elem(), d+1)
		case *types.Chan:
			return mentions(x.Elem(), d+1)
		case *types.Map:
			return mentions(x.Key(), d+1) || mentions(x.Elem(), d+1)
		}
		return false
	}
	n := 0
	var bad []string
	for _, p := range a.Prog.AllPackages() {
		if p.Pkg == nil || !a.inModule(p.Pkg) {
			continue
		}
		sc := p.Pkg.Scope()
		for _, nm := range sc.Names() {
			switch o := sc.Lookup(nm).(type) {
			case *types.TypeName:
				st, ok := o.Type().Underlying().(*types.Struct)
				if !ok {
					continue
				}
				n++
				for i := 0; i < st.NumFields(); i++ {
					if mentions(st.Field(i).Type(), 0) {
						bad = append(bad, fmt.Sprintf("%s.%s.%s", p.Pkg.Name(), nm, st.Field(i).Name()))
					}
				}
			case *types.Var:
				n++
				if mentions(o.Type(), 0) {
					bad = append(bad, fmt.Sprintf("%s.%s (package variable)", p.Pkg.Name(), nm))
				}
			}
		}
	}
	sort.Strings(bad)
	if n < 100 {
		a.Und("module#no-retained-vm", token.NoPos, "only %d struct types and package variables were found in the module: the scan has gone blind", n)
		return n
	}
	a.Check(len(bad) == 0, "module#no-retained-vm", token.NoPos,
		fmt.Sprintf("none of the module's %d struct types and package variables holds an expr-lang vm.VM", n),
		"an expr-lang vm.VM is kept in "+strings.Join(bad, ", ")+": the VM is the state of one evaluation, and these objects are shared by concurrent evaluations (all goroutines calling Emit/EmitSync, every Streamsql instance through the process-wide program cache) — their stacks get mixed and wrong values are returned silently")
	return n
}

// ruleCompiledInfoReadOnly: the per-query compiled information (the values of Stream.compiledFieldInfo
// and Stream.compiledExprInfo) is built before the stream starts and decides how every row is
// projected. "The result for a row depends on that row alone" requires that no row can change it:
// no field of these structs is both written and read by functions on the per-row path (a counter
// that switches an evaluation strategy after some rows makes a row's value depend on its
// predecessors). A field that is only written there (statistics) or only read there is fine.
func (a *A) ruleCompiledInfoReadOnly() int {
	S := a.Named("stream", "Stream")
	var infoTypes []*types.Named
	for _, fname := range []string{"compiledFieldInfo", "compiledExprInfo"} {
		f := a.FieldOf(S, fname)
		if m, ok := f.Type().Underlying().(*types.Map); ok {
			t := m.Elem()
			if p, ok := t.(*types.Pointer); ok {
				t = p.Elem()
			}
			if nt, ok := t.(*types.Named); ok {
				infoTypes = append(infoTypes, nt)
			}
		}
	}
	if len(infoTypes) == 0 {
		a.anchorFail("the element types of Stream.compiledFieldInfo / compiledExprInfo were not found")
	}
	// the per-row path: everything reachable from the two entry points of a row
	rowFns := map[*ssa.Function]bool{}
	var work []*ssa.Function
	for _, r := range []*ssa.Function{a.Method("stream", "DataProcessor", "processItem"), a.Method("stream", "Stream", "processDirectDataSync")} {
		work = append(work, r)
	}
	for len(work) > 0 {
		fn := work[len(work)-1]
		work = work[:len(work)-1]
		if rowFns[fn] || !a.fnInModule(fn) {
			continue
		}
		rowFns[fn] = true
		if node := a.CG().Nodes[fn]; node != nil {
			for _, e := range node.Out {
				if e.Callee != nil && e.Callee.Func != nil {
					work = append(work, e.Callee.Func)
				}
			}
		}
		work = append(work, fn.AnonFuncs...)
	}
	isInfo := func(t types.Type) *types.Named {
		t = derefT(t)
		for _, it := range infoTypes {
			if types.Identical(t, it) {
				return it
			}
		}
		return nil
	}
	n := 0
	for _, it := range infoTypes {
		st := it.Underlying().(*types.Struct)
		written := map[int]token.Pos{}
		read := map[int]token.Pos{}
		var wfn = map[int]string{}
		for fn := range rowFns {
			allInstrs(fn, func(in ssa.Instruction) {
				fa, ok := in.(*ssa.FieldAddr)
				if !ok || isInfo(fa.X.Type()) != it {
					return
				}
				if isFreshObject(fa) {
					return
				}
				for _, r := range *fa.Referrers() {
					switch x := r.(type) {
					case *ssa.Store:
						if x.Addr == ssa.Value(fa) {
							written[fa.Field] = x.Pos()
							wfn[fa.Field] = fname(fn)
						}
					case *ssa.UnOp:
						if x.Op == token.MUL {
							read[fa.Field] = x.Pos()
						}
					case ssa.CallInstruction:
						if cal := x.Common().StaticCallee(); cal != nil && cal.Pkg != nil && cal.Pkg.Pkg.Path() == "sync/atomic" {
							switch {
							case strings.HasPrefix(cal.Name(), "Load"):
								read[fa.Field] = x.Pos()
							default:
								written[fa.Field] = x.Pos()
								wfn[fa.Field] = fname(fn)
								if strings.HasPrefix(cal.Name(), "Add") || strings.HasPrefix(cal.Name(), "Swap") || strings.HasPrefix(cal.Name(), "CompareAndSwap") {
									// the result may be used as a read as well
									if v, isV := x.(ssa.Value); isV && v.Referrers() != nil && len(*v.Referrers()) > 0 {
										read[fa.Field] = x.Pos()
									}
								}
							}
						}
					}
				}
			})
		}
		var bad []string
		pos := token.NoPos
		for i := 0; i < st.NumFields(); i++ {
			if w, ok := written[i]; ok {
				if _, ok := read[i]; ok {
					bad = append(bad, fmt.Sprintf("%s (written by %s)", st.Field(i).Name(), wfn[i]))
					pos = w
				}
			}
		}
		sort.Strings(bad)
		n++
		a.Check(len(bad) == 0, "stream."+it.Obj().Name()+"#not-steered-by-rows", pos,
			"no field of the compiled per-query information is both written and read on the per-row path",
			"field(s) "+strings.Join(bad, ", ")+" of stream."+it.Obj().Name()+" are written and read while rows are processed: what one row leaves there decides how a later row is evaluated, so the value projected for a row depends on the rows before it")
	}
	return n
}


// ruleProducerSendsInline: "rows emitted by one producer are processed in emission order" needs the row to be put
// into the input buffer by the goroutine that called Emit, before Emit returns: a row handed to a goroutine of its
// own (a background retry) races with the producer's next row. Every send on Stream.dataChan lies in a function
// that no goroutine started inside the library reaches through synchronous calls (the public producers Emit /
// EmitSync / ProcessSync are not followed: a user's goroutine calling them is the producer).
func (a *A) ruleProducerSendsInline() {
	S := a.Named("stream", "Stream")
	dc := a.FieldOf(S, "dataChan")
	cg := a.CG()
	public := map[*ssa.Function]bool{}
	for _, n := range []string{"Emit", "EmitSync", "ProcessSync"} {
		if m := a.methodOf(S, n); m != nil {
			public[m] = true
		}
	}
	if ss := a.Named("", "Streamsql"); ss != nil {
		for _, n := range []string{"Emit", "EmitSync"} {
			if m := a.methodOf(ss, n); m != nil {
				public[m] = true
			}
		}
	}
	// functions started by a go statement of the library
	started := map[*ssa.Function]string{}
	for _, fn := range a.ModFuncs {
		if fn.Pkg == nil || strings.Contains(fn.Pkg.Pkg.Path(), "/examples/") {
			continue
		}
		allInstrs(fn, func(in ssa.Instruction) {
			g, ok := in.(*ssa.Go)
			if !ok {
				return
			}
			if cal := g.Call.StaticCallee(); cal != nil {
				started[cal] = a.pos(g.Pos())
			}
			if mc, ok := g.Call.Value.(*ssa.MakeClosure); ok {
				if lit, ok := mc.Fn.(*ssa.Function); ok {
					started[lit] = a.pos(g.Pos())
				}
			}
		})
	}
	reach := map[*ssa.Function]string{}
	var work []*ssa.Function
	for f, at := range started {
		reach[f] = at
		work = append(work, f)
	}
	for len(work) > 0 {
		f := work[len(work)-1]
		work = work[:len(work)-1]
		n := cg.Nodes[f]
		if n == nil {
			continue
		}
		for _, e := range n.Out {
			if _, isGo := e.Site.(*ssa.Go); isGo || e.Callee == nil || e.Callee.Func == nil {
				continue
			}
			c := e.Callee.Func
			if public[c] || !a.fnInModule(c) {
				continue
			}
			if _, seen := reach[c]; !seen {
				reach[c] = reach[f]
				work = append(work, c)
			}
		}
	}
	n := 0
	for _, fn := range a.ModFuncs {
		if fn.Pkg != a.Pkg("stream") {
			continue
		}
		allInstrs(fn, func(in ssa.Instruction) {
			sends := false
			switch x := in.(type) {
			case *ssa.Send:
				sends = chanField(x.Chan) == dc
			case *ssa.Select:
				for _, st := range x.States {
					if st.Dir == types.SendOnly && chanField(st.Chan) == dc {
						sends = true
					}
				}
			}
			if !sends {
				return
			}
			n++
			at, async := reach[fn]
			a.Check(!async, "send@"+fname(fn), in.Pos(), "the row is put into the input buffer by the producer's own goroutine",
				"this send on the input buffer can run on a goroutine the library starts itself (go statement at "+at+"): a row handed to its own goroutine is no longer ordered with the producer's next row")
		})
	}
	if n == 0 {
		a.Und("send@dataChan", token.NoPos, "no send on Stream.dataChan found in package stream")
	}
}
