package main

// normalize.go — helper normalisation (DESIGN 9.9).
//
// The rules were calibrated on the functions that exist in the pinned tree (inventory.txt, one
// "dir:Recv.Name" per line). A change that moves part of a function into a NEW helper is the most
// common behaviour-preserving edit, and the most common source of false alarms of shape-based rules.
// Before the analysis proper, calls of functions that are absent from the inventory are therefore
// inlined at their same-package call sites with the inliner of golang.org/x/tools (internal/refactor/
// inline of v0.29.0, copied under xi/ because internal packages cannot be imported), which is
// designed to be semantics-preserving; helpers that are no longer referenced are deleted. The
// result is handed to the loader as an overlay. Inlining never changes behaviour, so the choice of
// what to inline affects the precision of the rules only, never the soundness of a verdict. On a tree
// without new functions nothing happens (a parse-only pre-check decides that).

import (
	"regexp"
	"bytes"
	"fmt"
	"go/ast"
	"go/format"
	"go/parser"
	"go/token"
	"go/types"
	"os"
	"path/filepath"
	"sort"
	"strings"

	"golang.org/x/tools/go/packages"
	"golang.org/x/tools/go/types/typeutil"

	"verifsa/xi/inline"
)

var flatSerial int

var externUses = map[string]bool{}

type normResult struct {
	Overlay  map[string][]byte // absolute file -> normalised content
	Inlined  []string          // "callee into caller" lines
	Removed  []string          // helpers deleted after inlining
	Skipped  []string          // calls left alone, with the reason
	NewFuncs []string          // functions not in the inventory
}

func declKey(relDir string, fd *ast.FuncDecl) string {
	recv := ""
	if fd.Recv != nil && len(fd.Recv.List) == 1 {
		t := fd.Recv.List[0].Type
		for {
			switch x := t.(type) {
			case *ast.StarExpr:
				t = x.X
				continue
			case *ast.IndexExpr:
				t = x.X
				continue
			case *ast.IndexListExpr:
				t = x.X
				continue
			case *ast.ParenExpr:
				t = x.X
				continue
			}
			break
		}
		if id, ok := t.(*ast.Ident); ok {
			recv = id.Name
		}
	}
	return relDir + ":" + recv + "." + fd.Name.Name
}

// moduleFiles lists the non-test Go files of the module with their content (overlay first).
func moduleFiles(repo string, overlay map[string][]byte) map[string][]byte {
	out := map[string][]byte{}
	filepath.Walk(repo, func(p string, fi os.FileInfo, err error) error {
		if err != nil {
			return nil
		}
		if fi.IsDir() {
			if p != repo && (strings.HasPrefix(fi.Name(), ".") || fi.Name() == "testdata" || fi.Name() == "vendor") {
				return filepath.SkipDir
			}
			return nil
		}
		if !strings.HasSuffix(p, ".go") || strings.HasSuffix(p, "_test.go") {
			return nil
		}
		if b, ok := overlay[p]; ok {
			out[p] = b
		} else if b, err := os.ReadFile(p); err == nil {
			out[p] = b
		}
		return nil
	})
	for p, b := range overlay {
		if strings.HasSuffix(p, ".go") && !strings.HasSuffix(p, "_test.go") {
			out[p] = b
		}
	}
	return out
}

// declaredFuncs: every function declaration of the module by key (parse only).
func declaredFuncs(repo string, overlay map[string][]byte) map[string]bool {
	out := map[string]bool{}
	fset := token.NewFileSet()
	for p, src := range moduleFiles(repo, overlay) {
		f, err := parser.ParseFile(fset, p, src, parser.SkipObjectResolution)
		if err != nil {
			continue
		}
		rel, _ := filepath.Rel(repo, filepath.Dir(p))
		for _, d := range f.Decls {
			if fd, ok := d.(*ast.FuncDecl); ok && fd.Name.Name != "init" && fd.Name.Name != "_" {
				out[declKey(rel, fd)] = true
			}
		}
	}
	return out
}

// declaredFields: the fields of the module's named struct types, as "field:<dir>:<Type>.<name>". They are part of the
// inventory so that a boolean option added later can be told from the ones the rules were calibrated on.
func declaredFields(repo string, overlay map[string][]byte) map[string]bool {
	out := map[string]bool{}
	fset := token.NewFileSet()
	for p, src := range moduleFiles(repo, overlay) {
		f, err := parser.ParseFile(fset, p, src, parser.SkipObjectResolution)
		if err != nil {
			continue
		}
		rel, _ := filepath.Rel(repo, filepath.Dir(p))
		for _, d := range f.Decls {
			gd, ok := d.(*ast.GenDecl)
			if !ok || gd.Tok != token.TYPE {
				continue
			}
			for _, sp := range gd.Specs {
				ts, ok := sp.(*ast.TypeSpec)
				if !ok {
					continue
				}
				st, ok := ts.Type.(*ast.StructType)
				if !ok || st.Fields == nil {
					continue
				}
				for _, fl := range st.Fields.List {
					for _, n := range fl.Names {
						out["field:"+rel+":"+ts.Name.Name+"."+n.Name] = true
					}
				}
			}
		}
	}
	return out
}

// localClosures: the function literals bound to a local variable where it is declared (`name := func(…) {…}`), per
// enclosing function declaration.
func localClosures(fd *ast.FuncDecl) map[*ast.Ident]*ast.FuncLit {
	out := map[*ast.Ident]*ast.FuncLit{}
	if fd.Body == nil {
		return out
	}
	ast.Inspect(fd.Body, func(n ast.Node) bool {
		switch x := n.(type) {
		case *ast.AssignStmt:
			if x.Tok == token.DEFINE && len(x.Lhs) == 1 && len(x.Rhs) == 1 {
				if id, ok := x.Lhs[0].(*ast.Ident); ok && id.Name != "_" {
					if lit, ok := x.Rhs[0].(*ast.FuncLit); ok {
						out[id] = lit
					}
				}
			}
		case *ast.DeclStmt:
			if gd, ok := x.Decl.(*ast.GenDecl); ok && gd.Tok == token.VAR {
				for _, sp := range gd.Specs {
					if vs, ok := sp.(*ast.ValueSpec); ok && len(vs.Names) == 1 && len(vs.Values) == 1 && vs.Names[0].Name != "_" {
						if _, isFT := vs.Type.(*ast.FuncType); vs.Type != nil && !isFT {
							continue
						}
						if lit, ok := vs.Values[0].(*ast.FuncLit); ok {
							out[vs.Names[0]] = lit
						}
					}
				}
			}
		}
		return true
	})
	return out
}

// localSelectorBinds: `name := x.sel` declarations (x an identifier) of a function - among them the method values
// (`contains := slot.Contains`), which only the type checker can tell from field reads.
func localSelectorBinds(fd *ast.FuncDecl) map[*ast.Ident]*ast.SelectorExpr {
	out := map[*ast.Ident]*ast.SelectorExpr{}
	if fd.Body == nil {
		return out
	}
	ast.Inspect(fd.Body, func(n ast.Node) bool {
		if x, ok := n.(*ast.AssignStmt); ok && x.Tok == token.DEFINE && len(x.Lhs) == 1 && len(x.Rhs) == 1 {
			if id, ok := x.Lhs[0].(*ast.Ident); ok && id.Name != "_" {
				if sel, ok := x.Rhs[0].(*ast.SelectorExpr); ok {
					if _, isId := sel.X.(*ast.Ident); isId {
						out[id] = sel
					}
				}
			}
		}
		return true
	})
	return out
}

func closureKey(relDir string, fd *ast.FuncDecl, name string) string {
	return "closure:" + declKey(relDir, fd) + ":" + name
}

// declaredClosures: the named local closures of the module, as "closure:<function key>:<name>" (parse only). A
// closure that is not listed was introduced by the change under analysis: a local helper, folded back into its
// call sites before the rules look (normalizePackage).
func declaredClosures(repo string, overlay map[string][]byte) map[string]bool {
	out := map[string]bool{}
	fset := token.NewFileSet()
	for p, src := range moduleFiles(repo, overlay) {
		f, err := parser.ParseFile(fset, p, src, parser.SkipObjectResolution)
		if err != nil {
			continue
		}
		rel, _ := filepath.Rel(repo, filepath.Dir(p))
		for _, d := range f.Decls {
			if fd, ok := d.(*ast.FuncDecl); ok {
				for id := range localClosures(fd) {
					out[closureKey(rel, fd, id.Name)] = true
				}
				for id := range localSelectorBinds(fd) {
					out[closureKey(rel, fd, id.Name)] = true
				}
			}
		}
	}
	return out
}

func loadInventory(path string) (map[string]bool, error) {
	b, err := os.ReadFile(path)
	if err != nil {
		return nil, err
	}
	inv := map[string]bool{}
	for _, l := range strings.Split(string(b), "\n") {
		l = strings.TrimSpace(l)
		if l != "" && !strings.HasPrefix(l, "#") {
			inv[l] = true
		}
	}
	return inv, nil
}

func writeInventory(repo, path string) error {
	var keys []string
	for k := range declaredFuncs(repo, nil) {
		keys = append(keys, k)
	}
	for k := range declaredFields(repo, nil) {
		keys = append(keys, k)
	}
	keys = append(keys, "field:inventory-has-fields")
	for k := range declaredClosures(repo, nil) {
		keys = append(keys, k)
	}
	keys = append(keys, "closure:inventory-has-closures")
	sort.Strings(keys)
	head := "# functions of /repo known to the rule tables (sa -write-inventory). Calls of functions that are NOT listed\n# here are inlined before the analysis (normalize.go). Regenerate after a fix: commit in /repo.\n"
	return os.WriteFile(path, []byte(head+strings.Join(keys, "\n")+"\n"), 0o644)
}

type mapImporter map[string]*types.Package

func (m mapImporter) Import(path string) (*types.Package, error) {
	if p, ok := m[path]; ok {
		return p, nil
	}
	return nil, fmt.Errorf("package %s not loaded", path)
}

// normalize inlines the calls of non-inventory functions. pkgs are the loaded module packages
// (typed syntax); the returned overlay extends the given one.
// constantLeft: comparisons written with the constant on the left (`nil == x`, `0 < n`, `"LEFT" == kind`) are turned
// round (`x == nil`, `n > 0`, `kind == "LEFT"`): the rules read comparisons in the orientation the tree is written in,
// constant on the right. Both operands of such a comparison are evaluated without effects on each other (one is a
// constant), so the result is the same program. Returns the rewritten files (absolute name -> content) and the count.
func constantLeft(pkgs []*packages.Package, overlay map[string][]byte) (map[string][]byte, int) {
	mirror := map[token.Token]string{token.EQL: "==", token.NEQ: "!=", token.LSS: ">", token.LEQ: ">=", token.GTR: "<", token.GEQ: "<="}
	out := map[string][]byte{}
	total := 0
	for _, p := range pkgs {
		if !(p.PkgPath == modPath || strings.HasPrefix(p.PkgPath, modPath+"/")) || p.TypesInfo == nil {
			continue
		}
		for _, f := range p.Syntax {
			name := p.Fset.Position(f.Pos()).Filename
			if strings.HasSuffix(name, "_test.go") {
				continue
			}
			type ed struct {
				lo, hi int
				text   string
			}
			var eds []ed
			var src []byte
			ast.Inspect(f, func(n ast.Node) bool {
				be, ok := n.(*ast.BinaryExpr)
				if !ok {
					return true
				}
				op, isCmp := mirror[be.Op]
				if !isCmp {
					return true
				}
				isConst := func(e ast.Expr) bool {
					tv, ok := p.TypesInfo.Types[e]
					return ok && (tv.Value != nil || tv.IsNil())
				}
				// a length is a bound like a constant: `len(text) > ti` reads `ti < len(text)`
				isLen := func(e ast.Expr) bool {
					c, ok := e.(*ast.CallExpr)
					if !ok {
						return false
					}
					id, ok := c.Fun.(*ast.Ident)
					if !ok || (id.Name != "len" && id.Name != "cap") {
						return false
					}
					_, isBuiltin := p.TypesInfo.Uses[id].(*types.Builtin)
					return isBuiltin
				}
				if !(isConst(be.X) && !isConst(be.Y)) && !(isLen(be.X) && !isLen(be.Y) && !isConst(be.Y)) {
					return true
				}
				if src == nil {
					if b, ok := overlay[name]; ok {
						src = b
					} else if b, err := os.ReadFile(name); err == nil {
						src = b
					} else {
						return false
					}
				}
				o := func(pos token.Pos) int { return p.Fset.Position(pos).Offset }
				lo, hi := o(be.Pos()), o(be.End())
				if hi > len(src) {
					return false
				}
				x, y := string(src[o(be.X.Pos()):o(be.X.End())]), string(src[o(be.Y.Pos()):o(be.Y.End())])
				eds = append(eds, ed{lo, hi, y + " " + op + " " + x})
				return false // nested comparisons inside are left as they are
			})
			if len(eds) == 0 {
				continue
			}
			sort.Slice(eds, func(i, j int) bool { return eds[i].lo < eds[j].lo })
			var b []byte
			at := 0
			for _, e := range eds {
				if e.lo < at {
					continue
				}
				b = append(b, src[at:e.lo]...)
				b = append(b, e.text...)
				at = e.hi
				total++
			}
			b = append(b, src[at:]...)
			out[name] = b
		}
	}
	return out, total
}

func normalize(repo string, pkgs []*packages.Package, overlay map[string][]byte, inventory map[string]bool) *normResult {
	res := &normResult{Overlay: map[string][]byte{}}
	for k, v := range overlay {
		res.Overlay[k] = v
	}
	imp := mapImporter{}
	packages.Visit(pkgs, nil, func(p *packages.Package) {
		if p.Types != nil {
			imp[p.PkgPath] = p.Types
		}
	})
	// exported functions of the module that another package of the module refers to
	externUses = map[string]bool{}
	for _, p := range pkgs {
		if p.TypesInfo == nil {
			continue
		}
		for _, obj := range p.TypesInfo.Uses {
			if f, ok := obj.(*types.Func); ok && f.Pkg() != nil && f.Pkg() != p.Types && strings.HasPrefix(f.Pkg().Path(), modPath) {
				externUses[f.FullName()] = true
			}
		}
	}
	for _, p := range pkgs {
		if !(p.PkgPath == modPath || strings.HasPrefix(p.PkgPath, modPath+"/")) || len(p.CompiledGoFiles) == 0 {
			continue
		}
		relDir, _ := filepath.Rel(repo, filepath.Dir(p.CompiledGoFiles[0]))
		// anything new here?
		hasNew := false
		for _, f := range p.Syntax {
			for _, d := range f.Decls {
				if fd, ok := d.(*ast.FuncDecl); ok && fd.Name.Name != "init" && fd.Name.Name != "_" && !inventory[declKey(relDir, fd)] {
					hasNew = true
				}
				if fd, ok := d.(*ast.FuncDecl); ok && inventory["closure:inventory-has-closures"] {
					for id := range localClosures(fd) {
						if !inventory[closureKey(relDir, fd, id.Name)] {
							hasNew = true
						}
					}
					for id := range localSelectorBinds(fd) {
						if !inventory[closureKey(relDir, fd, id.Name)] {
							hasNew = true
						}
					}
				}
			}
		}
		if !hasNew {
			continue
		}
		normalizePackage(repo, relDir, p, imp, inventory, res)
	}
	sort.Strings(res.Inlined)
	sort.Strings(res.Removed)
	sort.Strings(res.Skipped)
	sort.Strings(res.NewFuncs)
	return res
}

type npkg struct {
	fset  *token.FileSet
	files []*ast.File
	names []string
	src   map[string][]byte
	info  *types.Info
	tpkg  *types.Package
}

func checkPackage(path, name string, names []string, src map[string][]byte, imp types.Importer) (*npkg, error) {
	np := &npkg{fset: token.NewFileSet(), names: names, src: src}
	for _, n := range names {
		f, err := parser.ParseFile(np.fset, n, src[n], parser.ParseComments)
		if err != nil {
			return nil, err
		}
		np.files = append(np.files, f)
	}
	np.info = &types.Info{
		Types:      map[ast.Expr]types.TypeAndValue{},
		Defs:       map[*ast.Ident]types.Object{},
		Uses:       map[*ast.Ident]types.Object{},
		Implicits:  map[ast.Node]types.Object{},
		Selections: map[*ast.SelectorExpr]*types.Selection{},
		Scopes:     map[ast.Node]*types.Scope{},
		Instances:  map[*ast.Ident]types.Instance{},
	}
	var firstErr error
	conf := types.Config{Importer: imp, Error: func(err error) {
		if firstErr == nil {
			firstErr = err
		}
	}}
	tp, _ := conf.Check(path, np.fset, np.files, np.info)
	if firstErr != nil {
		return nil, firstErr
	}
	np.tpkg = tp
	return np, nil
}

func normalizePackage(repo, relDir string, p *packages.Package, imp types.Importer, inventory map[string]bool, res *normResult) {
	names := append([]string{}, p.CompiledGoFiles...)
	sort.Strings(names)
	src := map[string][]byte{}
	for _, n := range names {
		if b, ok := res.Overlay[n]; ok {
			src[n] = b
		} else if b, err := os.ReadFile(n); err == nil {
			src[n] = b
		}
	}
	failed := map[string]bool{} // "callee@caller" pairs the inliner refused
	reported := map[string]bool{}
	formatted := map[string][]byte{}
	for iter := 0; iter < 400; iter++ {
		// every step starts from gofmt-formatted sources: the inliner hands back formatted files, and its edit is
		// compared with what it was given (guardSelfShadow)
		for _, n := range names {
			if b, ok := formatted[n]; ok && bytes.Equal(b, src[n]) {
				continue
			}
			if fb, ferr := format.Source(src[n]); ferr == nil {
				src[n] = fb
			}
			formatted[n] = src[n]
		}
		np, err := checkPackage(p.PkgPath, p.Name, names, src, imp)
		if err != nil {
			res.Skipped = append(res.Skipped, fmt.Sprintf("%s: normalised package does not type-check (%v): left as it was", relDir, err))
			// give up on this package: restore the original sources
			for _, n := range names {
				delete(res.Overlay, n)
			}
			return
		}
		// a local closure the change introduced (`add := func(seg string) { key += seg }` … `add(x)`) is folded
		// back into its call sites: each call becomes a call of the literal itself, which is then flattened like
		// the literals the inliner leaves. Done last, once every helper is inlined and every forwarder removed, so
		// that a closure of the pinned tree is recognised under the function it finally lives in.
		tryFold := func() bool {
			if !inventory["closure:inventory-has-closures"] {
				return false
			}
			nsrc, desc, did := foldLocalClosure(np, relDir, inventory, src, names, failed)
			if !did {
				nsrc, desc, did = foldMethodValue(np, relDir, inventory, src, names, failed)
			}
			if !did {
				return false
			}
			if _, err := checkPackage(p.PkgPath, p.Name, names, nsrc.src, imp); err == nil {
				content, left := flattenNewLiterals(p, names, imp, src, nsrc.file, nsrc.src[names[nsrc.file]])
				if !left {
					if fb, ferr := format.Source(content); ferr == nil {
						content = fb
					}
					src[names[nsrc.file]] = content
					res.Inlined = append(res.Inlined, desc)
					return true
				}
			}
			failed[nsrc.key] = true
			res.Skipped = append(res.Skipped, desc+": not possible here (call under && / ||, defer in the closure, a captured name shadowed at a call, …): closure kept")
			return true
		}
		// new function declarations
		decls := map[*types.Func]*ast.FuncDecl{}
		declFile := map[*types.Func]int{}
		for i, f := range np.files {
			for _, d := range f.Decls {
				fd, ok := d.(*ast.FuncDecl)
				if !ok || fd.Body == nil || fd.Name.Name == "init" || fd.Name.Name == "_" || inventory[declKey(relDir, fd)] {
					continue
				}
				if fn, ok := np.info.Defs[fd.Name].(*types.Func); ok {
					decls[fn] = fd
					declFile[fn] = i
					if !reported[fn.FullName()] {
						reported[fn.FullName()] = true
						res.NewFuncs = append(res.NewFuncs, fn.FullName())
					}
				}
			}
		}
		if len(decls) == 0 {
			if tryFold() {
				continue
			}
			break
		}
		// a function whose whole body forwards its parameters to a new function that nobody else uses is
		// that function under another name (`func (w *W) Add(d any) { w.addImpl(d) }`): the body moves back
		if fwds := findForwarders(np, decls); len(fwds) > 0 {
			applyForwarders(np, fwds, src, names)
			for _, fwd := range fwds {
				res.Inlined = append(res.Inlined, fmt.Sprintf("%s is the body of its only caller %s (forwarder removed)", fwd.callee.FullName(), declKey(relDir, fwd.outer)))
			}
			continue
		}
		// calls among new functions (for recursion and innermost-first order)
		callsNew := map[*types.Func]map[*types.Func]bool{}
		for fn, fd := range decls {
			callsNew[fn] = map[*types.Func]bool{}
			ast.Inspect(fd.Body, func(n ast.Node) bool {
				if c, ok := n.(*ast.CallExpr); ok {
					if cal, ok := typeutil.Callee(np.info, c).(*types.Func); ok && decls[cal] != nil {
						callsNew[fn][cal] = true
					}
				}
				return true
			})
		}
		recursive := func(fn *types.Func) bool {
			seen := map[*types.Func]bool{}
			var dfs func(x *types.Func) bool
			dfs = func(x *types.Func) bool {
				for y := range callsNew[x] {
					if y == fn {
						return true
					}
					if !seen[y] {
						seen[y] = true
						if dfs(y) {
							return true
						}
					}
				}
				return false
			}
			return dfs(fn)
		}
		inlinable := func(fn *types.Func) bool {
			fd := decls[fn]
			if fd == nil || fd.Type.TypeParams != nil || recursive(fn) {
				return false
			}
			if sig, ok := fn.Type().(*types.Signature); ok && sig.Recv() != nil {
				t := sig.Recv().Type()
				if pt, ok := t.(*types.Pointer); ok {
					t = pt.Elem()
				}
				if nt, ok := t.(*types.Named); ok && nt.TypeParams().Len() > 0 {
					return false
				}
			}
			return true
		}
		// pick one call: prefer callees that call no other new function (innermost first)
		type site struct {
			file   int
			call   *ast.CallExpr
			callee *types.Func
			encl   string
		}
		var best *site
		for i, f := range np.files {
			for _, d := range f.Decls {
				fd, ok := d.(*ast.FuncDecl)
				if !ok || fd.Body == nil {
					continue
				}
				encl := declKey(relDir, fd)
				// the operand of go / defer stays a call: a new goroutine or a deferred frame is not
				// something an inlined body reproduces
				spawned := map[*ast.CallExpr]bool{}
				ast.Inspect(fd.Body, func(n ast.Node) bool {
					switch x := n.(type) {
					case *ast.GoStmt:
						spawned[x.Call] = true
					case *ast.DeferStmt:
						spawned[x.Call] = true
					}
					return true
				})
				ast.Inspect(fd.Body, func(n ast.Node) bool {
					c, ok := n.(*ast.CallExpr)
					if !ok || spawned[c] {
						return true
					}
					cal, ok := typeutil.Callee(np.info, c).(*types.Func)
					if !ok || !inlinable(cal) || failed[cal.FullName()+"@"+encl] {
						return true
					}
					s := &site{i, c, cal, encl}
					if best == nil || len(callsNew[cal]) < len(callsNew[best.callee]) {
						best = s
					}
					return true
				})
			}
		}
		if best == nil && tryFold() {
			continue
		}
		if best == nil {
			// nothing left to inline: delete new functions nobody refers to any more, then stop
			used := map[types.Object]bool{}
			for id, obj := range np.info.Uses {
				_ = id
				used[obj] = true
			}
			type cut struct{ lo, hi int }
			cuts := map[int][]cut{}
			for fn, fd := range decls {
				if used[fn] || ast.IsExported(fn.Name()) {
					continue
				}
				// methods may satisfy interfaces: only delete when the name is not a method of any interface
				// in scope is hard to know; methods are deleted only if unexported (cannot satisfy a foreign
				// interface) and unused in this package.
				lo := fd.Pos()
				if fd.Doc != nil {
					lo = fd.Doc.Pos()
				}
				cuts[declFile[fn]] = append(cuts[declFile[fn]], cut{np.fset.Position(lo).Offset, np.fset.Position(fd.End()).Offset})
				res.Removed = append(res.Removed, fn.FullName())
			}
			if len(cuts) > 0 {
				saved := map[int][]byte{}
				for i := range cuts {
					saved[i] = src[names[i]]
				}
				for i, cs := range cuts {
					sort.Slice(cs, func(a, b int) bool { return cs[a].lo < cs[b].lo })
					var out bytes.Buffer
					at := 0
					b := src[names[i]]
					for _, c := range cs {
						out.Write(b[at:c.lo])
						// keep the line structure of the rest of the file
						out.WriteString(strings.Repeat("\n", bytes.Count(b[c.lo:c.hi], []byte("\n"))))
						at = c.hi
					}
					out.Write(b[at:])
					src[names[i]] = out.Bytes()
				}
				// a deleted helper may have been the last user of an import: drop such imports, then verify
				for tries := 0; tries < 6; tries++ {
					_, err := checkPackage(p.PkgPath, p.Name, names, src, imp)
					te, isTE := err.(types.Error)
					if err == nil || !isTE || !strings.HasSuffix(te.Msg, "imported and not used") {
						break
					}
					pos := te.Fset.Position(te.Pos)
					b := src[pos.Filename]
					if b == nil || pos.Offset >= len(b) {
						break
					}
					// blank the import spec's line (keeps the line structure)
					lo := bytes.LastIndexByte(b[:pos.Offset], '\n') + 1
					hi := pos.Offset + bytes.IndexByte(b[pos.Offset:], '\n')
					if hi < pos.Offset {
						break
					}
					nb := append([]byte{}, b[:lo]...)
					nb = append(nb, b[hi:]...)
					src[pos.Filename] = nb
				}
				if _, err := checkPackage(p.PkgPath, p.Name, names, src, imp); err != nil {
					res.Skipped = append(res.Skipped, fmt.Sprintf("%s: deleting unused helpers broke the build (%v): helpers kept", relDir, err))
					// undo deletions by re-running without them is costly; fall back to the sources before deletion
					for i := range cuts {
						src[names[i]] = saved[i]
					}
				}
			}
			break
		}
		// a call in the condition of a for statement (`for s.moveOne(a, b) { n++ }`) cannot be replaced by
		// statements where it stands: the test moves to the top of the body first, which is the same loop
		// (`for init; ; post { if !(cond) { break }; body }`; continue still reaches post and then the test)
		if nsrc, ok := condToBody(np, best.file, best.call, src[names[best.file]]); ok {
			trial := map[string][]byte{}
			for n, b := range src {
				trial[n] = b
			}
			trial[names[best.file]] = nsrc
			if _, err := checkPackage(p.PkgPath, p.Name, names, trial, imp); err == nil {
				if fb, ferr := format.Source(nsrc); ferr == nil {
					nsrc = fb // (the inliner hands back formatted files; edits are compared with what it was given)
				}
				src[names[best.file]] = nsrc
				res.Inlined = append(res.Inlined, fmt.Sprintf("loop test with a call of %s in %s moved to the top of the loop body", best.callee.FullName(), best.encl))
				continue
			}
		}
		calleeDecl := decls[best.callee]
		callee, err := inline.AnalyzeCallee(func(string, ...any) {}, np.fset, np.tpkg, np.info, calleeDecl, src[names[declFile[best.callee]]])
		var out *inline.Result
		if err == nil {
			out, err = inline.Inline(&inline.Caller{Fset: np.fset, Types: np.tpkg, Info: np.info, File: np.files[best.file],
				Call: best.call, Content: src[names[best.file]]}, callee, &inline.Options{})
		}
		if err != nil {
			failed[best.callee.FullName()+"@"+best.encl] = true
			res.Skipped = append(res.Skipped, fmt.Sprintf("%s in %s: %v", best.callee.FullName(), best.encl, err))
			continue
		}
		how := ""
		content := out.Content
		// The inliner binds a parameter with `var s *T = s` in front of the inlined statements when the argument
		// has the parameter's name; placed in the caller's block, that declaration also captures the caller's
		// later uses of s (`park(s); s = &T{}` would assign the copy). The inlined statements of a call that stood
		// as a statement are therefore put in a block of their own; in any other position such a binding makes
		// the step be refused.
		if fixed, ok := guardSelfShadow(np, best.file, best.call, src[names[best.file]], content); !ok {
			failed[best.callee.FullName()+"@"+best.encl] = true
			res.Skipped = append(res.Skipped, fmt.Sprintf("%s in %s: the inliner's parameter binding would shadow a variable of the caller: call kept", best.callee.FullName(), best.encl))
			continue
		} else {
			content = fixed
		}
		if out.Literalized {
			how = " (as a function literal)"
			// flatten the literal(s) the inliner introduced; literals that were there before stay
			keep := map[string]bool{}
			before := map[string]bool{}
			if f0, err := parser.ParseFile(token.NewFileSet(), "x.go", src[names[best.file]], 0); err == nil {
				for i, c := range findIIFEsAll(f0) {
					before[fmt.Sprint(i)] = true
					_ = c
				}
				for _, c := range findIIFEs(f0) {
					lo, hi := c.call.Pos()-f0.FileStart, c.call.End()-f0.FileStart
					keep[string(src[names[best.file]][lo:hi])] = true
				}
			}
			for k := 0; k < 8; k++ {
				flatSerial++
				nc, lit, did := flattenOne(content, keep, flatSerial)
				if !did {
					break
				}
				trial := map[string][]byte{}
				for n, b := range src {
					trial[n] = b
				}
				trial[names[best.file]] = nc
				if _, err := checkPackage(p.PkgPath, p.Name, names, trial, imp); err != nil {
					keep[lit] = true
					continue
				}
				content = nc
				how = " (literal flattened)"
			}
			// a literal that could not be flattened would turn the locals it captures into cells and hide
			// its body just as the helper did: such a call is left as it was
			left := false
			if f1, err := parser.ParseFile(token.NewFileSet(), "x.go", content, 0); err == nil {
				// (counted, not compared by text: the text of a literal that was there before changes
				// when something is inlined inside it; the operands of go and defer are not counted)
				left = len(findIIFEsAll(f1)) > len(before)
			}
			if left {
				// a predicate helper under && / || (`end != nil && reached(now, *end)`): a callee that is one returned
				// expression over its parameters is substituted as an expression when the arguments are plain
				// reads (no calls) of exactly the parameters' types
				if sub, ok := substituteExprCall(np, best.file, best.call, calleeDecl, src[names[declFile[best.callee]]], src[names[best.file]]); ok {
					trial := map[string][]byte{}
					for n, b := range src {
						trial[n] = b
					}
					trial[names[best.file]] = sub
					if _, err := checkPackage(p.PkgPath, p.Name, names, trial, imp); err == nil {
						res.Inlined = append(res.Inlined, fmt.Sprintf("%s into %s (returned expression substituted)", best.callee.FullName(), best.encl))
						if fb, ferr := format.Source(sub); ferr == nil {
							sub = fb
						}
						src[names[best.file]] = sub
						continue
					}
				}
			}
			if left {
				failed[best.callee.FullName()+"@"+best.encl] = true
				res.Skipped = append(res.Skipped, fmt.Sprintf("%s in %s: inlining needs a function literal here (call under && / ||, defer in the callee, ...): call kept", best.callee.FullName(), best.encl))
				continue
			}
		}
		res.Inlined = append(res.Inlined, fmt.Sprintf("%s into %s%s", best.callee.FullName(), best.encl, how))
		src[names[best.file]] = content
	}
	for _, n := range names {
		orig, _ := os.ReadFile(n)
		if ob, ok := res.Overlay[n]; ok {
			orig = ob
		}
		if !bytes.Equal(orig, src[n]) {
			if fb, err := format.Source(src[n]); err == nil {
				src[n] = fb
			}
			res.Overlay[n] = src[n]
		}
	}
}

// lineMap maps the lines of a normalised file back to the original: for every new line, the
// original line it equals inside an unchanged region, or 0.
func lineMap(orig, norm []byte) []int {
	a := strings.Split(string(orig), "\n")
	b := strings.Split(string(norm), "\n")
	m := make([]int, len(b)+1)
	// common prefix / suffix
	pre := 0
	for pre < len(a) && pre < len(b) && a[pre] == b[pre] {
		m[pre+1] = pre + 1
		pre++
	}
	suf := 0
	for suf < len(a)-pre && suf < len(b)-pre && a[len(a)-1-suf] == b[len(b)-1-suf] {
		m[len(b)-suf] = len(a) - suf
		suf++
	}
	// LCS on the middle (trimmed lines, so re-indented code still matches)
	am, bm := a[pre:len(a)-suf], b[pre:len(b)-suf]
	if len(am)*len(bm) > 25_000_000 || len(am) == 0 || len(bm) == 0 {
		return m
	}
	ta := make([]string, len(am))
	tb := make([]string, len(bm))
	for i := range am {
		ta[i] = strings.TrimSpace(am[i])
	}
	for i := range bm {
		tb[i] = strings.TrimSpace(bm[i])
	}
	w := len(tb) + 1
	dp := make([]int32, (len(ta)+1)*w)
	for i := len(ta) - 1; i >= 0; i-- {
		for j := len(tb) - 1; j >= 0; j-- {
			if ta[i] == tb[j] && ta[i] != "" {
				dp[i*w+j] = dp[(i+1)*w+j+1] + 1
			} else if dp[(i+1)*w+j] >= dp[i*w+j+1] {
				dp[i*w+j] = dp[(i+1)*w+j]
			} else {
				dp[i*w+j] = dp[i*w+j+1]
			}
		}
	}
	i, j := 0, 0
	for i < len(ta) && j < len(tb) {
		if ta[i] == tb[j] && ta[i] != "" {
			m[pre+j+1] = pre + i + 1
			i++
			j++
		} else if dp[(i+1)*w+j] >= dp[i*w+j+1] {
			i++
		} else {
			j++
		}
	}
	return m
}

// ---------------------------------------------------------------- flattening of inlined literals
//
// Where the callee has several returns the inliner falls back to `x, err := func() (T, error) { BODY }()`.
// A function literal hides its body from intraprocedural rules just as the helper did, so literals
// that the inliner introduced are flattened into the enclosing function:
//
//	var r0 T; var r1 error
//	L: for { BODY with `return a, b` -> `r0, r1 = a, b; break L` }
//	x, err := r0, r1
//
// which is the same computation (the loop body runs once; the literal had no parameters, no defer,
// no recover and no named results; the call was the first thing its statement evaluated).

type iife struct {
	call *ast.CallExpr
	lit  *ast.FuncLit
}

// findIIFEsAll: every call of a function literal, whatever its parameters.
func findIIFEsAll(f *ast.File) []iife {
	var out []iife
	spawned := map[*ast.CallExpr]bool{}
	ast.Inspect(f, func(n ast.Node) bool {
		switch x := n.(type) {
		case *ast.GoStmt:
			spawned[x.Call] = true
		case *ast.DeferStmt:
			spawned[x.Call] = true
		}
		return true
	})
	ast.Inspect(f, func(n ast.Node) bool {
		if c, ok := n.(*ast.CallExpr); ok && !spawned[c] {
			if l, ok := c.Fun.(*ast.FuncLit); ok {
				out = append(out, iife{c, l})
			}
		}
		return true
	})
	return out
}

func findIIFEs(f *ast.File) []iife {
	var out []iife
	ast.Inspect(f, func(n ast.Node) bool {
		if c, ok := n.(*ast.CallExpr); ok && c.Ellipsis == token.NoPos {
			if l, ok := c.Fun.(*ast.FuncLit); ok {
				np := 0
				plain := true
				if l.Type.Params != nil {
					for _, fld := range l.Type.Params.List {
						if _, variadic := fld.Type.(*ast.Ellipsis); variadic || len(fld.Names) == 0 {
							plain = false
						}
						np += len(fld.Names)
					}
				}
				if plain && np == len(c.Args) {
					out = append(out, iife{c, l})
				}
			}
		}
		return true
	})
	return out
}

// flattenOne rewrites one flattenable literal call of src that is not in keep (texts of literal calls
// that must stay as they are); it returns the new source, the text of the literal it handled, and
// whether anything was done.
func flattenOne(src []byte, keep map[string]bool, serial int) ([]byte, string, bool) {
	fset := token.NewFileSet()
	f, err := parser.ParseFile(fset, "x.go", src, parser.ParseComments)
	if err != nil {
		return src, "", false
	}
	off := func(p token.Pos) int { return fset.Position(p).Offset }
	text := func(n ast.Node) string { return string(src[off(n.Pos()):off(n.End())]) }
	// statement lists, to find the statement that directly contains a call
	var lists [][]ast.Stmt
	ast.Inspect(f, func(n ast.Node) bool {
		switch x := n.(type) {
		case *ast.BlockStmt:
			lists = append(lists, x.List)
		case *ast.CaseClause:
			lists = append(lists, x.Body)
		case *ast.CommClause:
			lists = append(lists, x.Body)
		}
		return true
	})
	for _, c := range findIIFEs(f) {
		ctext := text(c.call)
		if keep[ctext] {
			continue
		}
		lit := c.lit
		// no defer / recover / goto / labels in the literal's own body, no named results
		bad := false
		var rets []*ast.ReturnStmt
		ownLabels := map[string]bool{}
		var usedLabels []string
		ast.Inspect(lit.Body, func(n ast.Node) bool {
			switch x := n.(type) {
			case *ast.FuncLit:
				return false
			case *ast.DeferStmt:
				bad = true
			case *ast.LabeledStmt:
				ownLabels[x.Label.Name] = true
			case *ast.BranchStmt:
				if x.Tok == token.GOTO {
					bad = true
				} else if x.Label != nil {
					usedLabels = append(usedLabels, x.Label.Name)
				}
			case *ast.CallExpr:
				if id, ok := x.Fun.(*ast.Ident); ok && id.Name == "recover" {
					bad = true
				}
			case *ast.ReturnStmt:
				rets = append(rets, x)
			}
			return true
		})
		for _, l := range usedLabels {
			if !ownLabels[l] {
				bad = true
			}
		}
		var rtypes []string
		var rnames []string // named results: declared inside the flattened block, exactly as the literal scoped them
		if lit.Type.Results != nil {
			for _, fld := range lit.Type.Results.List {
				if len(fld.Names) == 0 {
					rtypes = append(rtypes, text(fld.Type))
					continue
				}
				for _, nm := range fld.Names {
					rtypes = append(rtypes, text(fld.Type))
					rnames = append(rnames, nm.Name)
				}
			}
		}
		if len(rnames) != 0 && len(rnames) != len(rtypes) {
			bad = true
		}
		if bad {
			keep[ctext] = true
			continue
		}
		// the enclosing statement and the admissible positions of the call in it
		var stmt ast.Stmt
		for _, l := range lists {
			for _, s := range l {
				if s.Pos() <= c.call.Pos() && c.call.End() <= s.End() {
					if stmt == nil || (s.Pos() >= stmt.Pos() && s.End() <= stmt.End()) {
						stmt = s
					}
				}
			}
		}
		if stmt == nil {
			keep[ctext] = true
			continue
		}
		// the parts of the statement that are evaluated when control reaches it, once and unconditionally
		var evaluated []ast.Node
		discard := false
		var wrapInit ast.Stmt // init statement of an if/switch that has to move in front of the flattened call
		var wrapFrom token.Pos
		switch s := stmt.(type) {
		case *ast.ExprStmt:
			evaluated = []ast.Node{s.X}
			discard = s.X == ast.Expr(c.call)
		case *ast.AssignStmt:
			for _, l := range s.Lhs {
				evaluated = append(evaluated, l)
			}
			for _, r := range s.Rhs {
				evaluated = append(evaluated, r)
			}
		case *ast.DeclStmt:
			evaluated = []ast.Node{s.Decl}
		case *ast.ReturnStmt:
			for _, r := range s.Results {
				evaluated = append(evaluated, r)
			}
		case *ast.IncDecStmt:
			evaluated = []ast.Node{s.X}
		case *ast.SendStmt:
			evaluated = []ast.Node{s.Chan, s.Value}
		case *ast.IfStmt:
			if s.Init != nil && s.Init.Pos() <= c.call.Pos() && c.call.End() <= s.Init.End() {
				evaluated = append(evaluated, s.Init)
			} else {
				// `if init; C {` becomes `{ init; <flattened C>; if r {` : the init statement runs first
				// in both forms, so only the condition is looked at
				evaluated = append(evaluated, s.Cond)
				if s.Init != nil {
					wrapInit = s.Init
					wrapFrom = s.Cond.Pos()
				}
			}
		case *ast.SwitchStmt:
			if s.Init != nil && s.Init.Pos() <= c.call.Pos() && c.call.End() <= s.Init.End() {
				evaluated = append(evaluated, s.Init)
			} else if s.Tag != nil {
				evaluated = append(evaluated, s.Tag)
				if s.Init != nil {
					wrapInit = s.Init
					wrapFrom = s.Tag.Pos()
				}
			}
		case *ast.RangeStmt:
			evaluated = []ast.Node{s.X}
		case *ast.ForStmt:
			if s.Init != nil {
				evaluated = []ast.Node{s.Init}
			}
		}
		// the call must be the first effect of the statement: nothing with an effect is evaluated before
		// it, and it is not under the right operand of && / || or inside another literal
		okPos := false
		blocked := false
		for _, ev := range evaluated {
			if okPos || blocked {
				break
			}
			var stack []ast.Node
			ast.Inspect(ev, func(n ast.Node) bool {
				if n == nil {
					stack = stack[:len(stack)-1]
					return false
				}
				if okPos || blocked {
					return false
				}
				if n == ast.Node(c.call) {
					okPos = true
					for i, anc := range stack {
						switch a := anc.(type) {
						case *ast.FuncLit:
							okPos = false
						case *ast.BinaryExpr:
							if (a.Op == token.LAND || a.Op == token.LOR) && i+1 <= len(stack) {
								next := ast.Node(c.call)
								if i+1 < len(stack) {
									next = stack[i+1]
								}
								if a.Y == next {
									okPos = false
								}
							}
						}
					}
					if !okPos {
						blocked = true
					}
					return false
				}
				switch x := n.(type) {
				case *ast.CallExpr:
					// a call that ends before ours starts is evaluated before it
					if x.End() <= c.call.Pos() {
						blocked = true
					}
				case *ast.UnaryExpr:
					if x.Op == token.ARROW && x.End() <= c.call.Pos() {
						blocked = true
					}
				}
				stack = append(stack, n)
				return true
			})
		}
		if as, ok := stmt.(*ast.AssignStmt); ok && okPos {
			for _, l := range as.Lhs {
				// operands of index expressions and explicit indirections on the left are evaluated before the call;
				// a plain variable or a field selection over plain variables (`s.opts = f(args)`) reads only variables,
				// which the inlined body - the callee's code - cannot assign unless it was handed their address
				root := l
				simple := true
				for simple {
					switch x := root.(type) {
					case *ast.Ident:
					case *ast.SelectorExpr:
						root = x.X
						continue
					default:
						simple = false
					}
					break
				}
				if !simple {
					okPos = false
					continue
				}
				if id, isId := root.(*ast.Ident); isId {
					if _, plain := l.(*ast.Ident); !plain {
						ast.Inspect(c.call, func(n ast.Node) bool {
							if u, ok := n.(*ast.UnaryExpr); ok && u.Op == token.AND {
								if x, ok := u.X.(*ast.Ident); ok && x.Name == id.Name {
									okPos = false
								}
							}
							return true
						})
					}
				}
			}
		}
		if len(rtypes) != 1 && !discard && okPos {
			// a tuple can only stand where the call was the whole right-hand side / result list / argument list
			whole := false
			switch s := stmt.(type) {
			case *ast.AssignStmt:
				whole = len(s.Rhs) == 1 && s.Rhs[0] == ast.Expr(c.call)
			case *ast.ReturnStmt:
				whole = len(s.Results) == 1 && s.Results[0] == ast.Expr(c.call)
			case *ast.IfStmt:
				if a, ok := s.Init.(*ast.AssignStmt); ok {
					whole = len(a.Rhs) == 1 && a.Rhs[0] == ast.Expr(c.call)
				}
			case *ast.SwitchStmt:
				if a, ok := s.Init.(*ast.AssignStmt); ok {
					whole = len(a.Rhs) == 1 && a.Rhs[0] == ast.Expr(c.call)
				}
			case *ast.DeclStmt:
				if gd, ok := s.Decl.(*ast.GenDecl); ok && len(gd.Specs) == 1 {
					if vs, ok := gd.Specs[0].(*ast.ValueSpec); ok {
						whole = len(vs.Values) == 1 && vs.Values[0] == ast.Expr(c.call)
					}
				}
			}
			if len(rtypes) == 0 {
				whole = false
			}
			okPos = whole
		}
		if !okPos {
			keep[ctext] = true
			continue
		}
		label := fmt.Sprintf("inl%d__", serial)
		var tmps []string
		for i := range rtypes {
			tmps = append(tmps, fmt.Sprintf("r%d_%d__", i, serial))
		}
		// body with returns rewritten
		type ed struct {
			lo, hi int
			s      string
		}
		var eds []ed
		for _, r := range rets {
			rep := "break " + label
			if len(r.Results) > 0 {
				var es []string
				for _, e := range r.Results {
					es = append(es, text(e))
				}
				rep = strings.Join(tmps, ", ") + " = " + strings.Join(es, ", ") + "; break " + label
			} else if len(rtypes) > 0 {
				if len(rnames) == 0 {
					bad = true
				} else {
					rep = strings.Join(tmps, ", ") + " = " + strings.Join(rnames, ", ") + "; break " + label
				}
			}
			eds = append(eds, ed{off(r.Pos()), off(r.End()), rep})
		}
		if bad {
			keep[ctext] = true
			continue
		}
		sort.Slice(eds, func(i, j int) bool { return eds[i].lo < eds[j].lo })
		bLo, bHi := off(lit.Body.Lbrace)+1, off(lit.Body.Rbrace)
		var body bytes.Buffer
		at := bLo
		for _, e := range eds {
			body.Write(src[at:e.lo])
			body.WriteString(e.s)
			at = e.hi
		}
		body.Write(src[at:bHi])
		var pre bytes.Buffer
		for i, t := range rtypes {
			fmt.Fprintf(&pre, "var %s %s\n", tmps[i], t)
		}
		var named bytes.Buffer
		if lit.Type.Params != nil {
			k := 0
			for _, fld := range lit.Type.Params.List {
				for _, nm := range fld.Names {
					tmp := fmt.Sprintf("a%d_%d__", k, serial)
					fmt.Fprintf(&pre, "var %s %s = %s\n", tmp, text(fld.Type), text(c.call.Args[k]))
					if nm.Name != "_" {
						fmt.Fprintf(&named, "var %s %s = %s\n_ = %s\n", nm.Name, text(fld.Type), tmp, nm.Name)
					} else {
						fmt.Fprintf(&named, "_ = %s\n", tmp)
					}
					k++
				}
			}
		}
		for i, nm := range rnames {
			if nm != "_" {
				fmt.Fprintf(&named, "var %s %s\n_ = %s\n", nm, rtypes[i], nm)
			}
		}
		fmt.Fprintf(&pre, "%s:\nfor {\n%s%s\nbreak %s\n}\n", label, named.String(), body.String(), label)
		if discard {
			for _, t := range tmps {
				fmt.Fprintf(&pre, "_ = %s\n", t)
			}
		}
		var out bytes.Buffer
		out.Write(src[:off(stmt.Pos())])
		if wrapInit != nil {
			kw := "if "
			if _, isSw := stmt.(*ast.SwitchStmt); isSw {
				kw = "switch "
			}
			out.WriteString("{\n" + text(wrapInit) + "\n")
			out.Write(pre.Bytes())
			out.WriteString(kw)
			out.Write(src[off(wrapFrom):off(c.call.Pos())])
			out.WriteString(strings.Join(tmps, ", "))
			out.Write(src[off(c.call.End()):off(stmt.End())])
			out.WriteString("\n}")
			out.Write(src[off(stmt.End()):])
			return out.Bytes(), ctext, true
		}
		out.Write(pre.Bytes())
		if !discard {
			out.Write(src[off(stmt.Pos()):off(c.call.Pos())])
			out.WriteString(strings.Join(tmps, ", "))
			out.Write(src[off(c.call.End()):off(stmt.End())])
		}
		out.Write(src[off(stmt.End()):])
		return out.Bytes(), ctext, true
	}
	return src, "", false
}

// ---------------------------------------------------------------- forwarders

type forwarder struct {
	outer     *ast.FuncDecl // the function that only forwards
	outerFile int
	inner     *ast.FuncDecl // the new function holding the body
	innerFile int
	callee    *types.Func
}

// findForwarder: a declaration whose body is exactly one call of a function that is not in the
// inventory, passing its own parameters in order (same receiver, same signature), where that function
// is referred to nowhere else but inside itself.
func findForwarders(np *npkg, decls map[*types.Func]*ast.FuncDecl) []*forwarder {
	var out []*forwarder
	taken := map[*ast.FuncDecl]bool{}
	fileOf := map[*ast.FuncDecl]int{}
	for i, f := range np.files {
		for _, d := range f.Decls {
			if fd, ok := d.(*ast.FuncDecl); ok {
				fileOf[fd] = i
			}
		}
	}
	for i, f := range np.files {
		for _, d := range f.Decls {
			fd, ok := d.(*ast.FuncDecl)
			if !ok || fd.Body == nil || len(fd.Body.List) != 1 || fd.Type.TypeParams != nil {
				continue
			}
			var call *ast.CallExpr
			switch st := fd.Body.List[0].(type) {
			case *ast.ReturnStmt:
				if len(st.Results) == 1 {
					call, _ = st.Results[0].(*ast.CallExpr)
				}
			case *ast.ExprStmt:
				call, _ = st.X.(*ast.CallExpr)
			}
			if call == nil {
				continue
			}
			cal, ok := typeutil.Callee(np.info, call).(*types.Func)
			if !ok || decls[cal] == nil || decls[cal] == fd {
				continue
			}
			outerObj, ok := np.info.Defs[fd.Name].(*types.Func)
			if !ok {
				continue
			}
			so, si := outerObj.Type().(*types.Signature), cal.Type().(*types.Signature)
			if (so.Recv() == nil) != (si.Recv() == nil) {
				continue
			}
			if so.Recv() != nil {
				if !types.Identical(so.Recv().Type(), si.Recv().Type()) {
					continue
				}
				sel, isSel := call.Fun.(*ast.SelectorExpr)
				if !isSel || len(fd.Recv.List) != 1 || len(fd.Recv.List[0].Names) != 1 {
					continue
				}
				rid, isId := sel.X.(*ast.Ident)
				if !isId || np.info.Uses[rid] != np.info.Defs[fd.Recv.List[0].Names[0]] {
					continue
				}
			}
			if !types.Identical(types.NewSignatureType(nil, nil, nil, so.Params(), so.Results(), so.Variadic()),
				types.NewSignatureType(nil, nil, nil, si.Params(), si.Results(), si.Variadic())) {
				continue
			}
			// arguments: the parameters, in order
			var params []*ast.Ident
			for _, fl := range fd.Type.Params.List {
				params = append(params, fl.Names...)
			}
			if len(params) != so.Params().Len() || len(call.Args) != len(params) || (so.Variadic() != call.Ellipsis.IsValid()) {
				continue
			}
			okArgs := true
			for k, arg := range call.Args {
				id, isId := arg.(*ast.Ident)
				if !isId || params[k].Name == "_" || np.info.Uses[id] != np.info.Defs[params[k]] {
					okArgs = false
				}
			}
			if !okArgs {
				continue
			}
			// the inner function is used only here and inside itself
			inner := decls[cal]
			usedElsewhere := false
			for id, obj := range np.info.Uses {
				if obj != types.Object(cal) {
					continue
				}
				if id.Pos() >= inner.Pos() && id.End() <= inner.End() {
					continue
				}
				if id.Pos() >= call.Pos() && id.End() <= call.End() {
					continue
				}
				usedElsewhere = true
			}
			if usedElsewhere || (ast.IsExported(cal.Name()) && externUses[cal.FullName()]) {
				continue
			}
			if taken[fd] || taken[inner] {
				continue // chains are resolved one link per round
			}
			taken[fd], taken[inner] = true, true
			out = append(out, &forwarder{outer: fd, outerFile: i, inner: inner, innerFile: fileOf[inner], callee: cal})
		}
	}
	return out
}

// applyForwarder deletes the forwarding declaration (its lines stay, blank) and gives its name to the
// function that holds the body, including the references inside that body.
func applyForwarders(np *npkg, fws []*forwarder, src map[string][]byte, names []string) {
	type ed struct {
		lo, hi int
		s      string
	}
	edits := map[int][]ed{}
	off := func(p token.Pos) int { return np.fset.Position(p).Offset }
	for _, fw := range fws {
		lo := fw.outer.Pos()
		if fw.outer.Doc != nil {
			lo = fw.outer.Doc.Pos()
		}
		b := src[names[fw.outerFile]]
		edits[fw.outerFile] = append(edits[fw.outerFile], ed{off(lo), off(fw.outer.End()), strings.Repeat("\n", bytes.Count(b[off(lo):off(fw.outer.End())], []byte("\n")))})
		edits[fw.innerFile] = append(edits[fw.innerFile], ed{off(fw.inner.Name.Pos()), off(fw.inner.Name.End()), fw.outer.Name.Name})
		for id, obj := range np.info.Uses {
			if obj == types.Object(fw.callee) && id.Pos() >= fw.inner.Pos() && id.End() <= fw.inner.End() {
				edits[fw.innerFile] = append(edits[fw.innerFile], ed{off(id.Pos()), off(id.End()), fw.outer.Name.Name})
			}
		}
	}
	for fi, es := range edits {
		sort.Slice(es, func(i, j int) bool { return es[i].lo < es[j].lo })
		var out bytes.Buffer
		at := 0
		bb := src[names[fi]]
		for _, e := range es {
			if e.lo < at {
				continue
			}
			out.Write(bb[at:e.lo])
			out.WriteString(e.s)
			at = e.hi
		}
		out.Write(bb[at:])
		src[names[fi]] = out.Bytes()
	}
}


// ---------------------------------------------------------------- local closures

type foldResult struct {
	src  map[string][]byte
	file int
	key  string
}

// foldLocalClosure picks one local closure that is not in the inventory and replaces every call of it by a call of
// the literal (`name(a, b)` -> `func(p, q T) {…}(a, b)`), deleting the declaration. That is the same computation when
//   - the variable is only ever called (never reassigned, passed on, compared, deferred or started as a goroutine),
//   - the literal does not refer to the variable (no recursion), and
//   - every name the literal takes from its surroundings means the same object at each call (nothing it captures is
//     shadowed there): the literal captures variables by reference, so reading and writing them at the call site is
//     what the closure did.
func foldLocalClosure(np *npkg, relDir string, inventory map[string]bool, src map[string][]byte, names []string, failed map[string]bool) (*foldResult, string, bool) {
	for fi, f := range np.files {
		for _, d := range f.Decls {
			fd, ok := d.(*ast.FuncDecl)
			if !ok || fd.Body == nil {
				continue
			}
			cls := localClosures(fd)
			var ids []*ast.Ident
			for id := range cls {
				ids = append(ids, id)
			}
			sort.Slice(ids, func(i, j int) bool { return ids[i].Pos() < ids[j].Pos() })
			for _, id := range ids {
				lit := cls[id]
				key := closureKey(relDir, fd, id.Name)
				if inventory[key] || failed[key] {
					continue
				}
				obj, _ := np.info.Defs[id].(*types.Var)
				if obj == nil {
					foldDebug(key, "no object")
					continue
				}
				// the declaring statement
				var declStmt ast.Node
				// uses
				parent := map[ast.Node]ast.Node{}
				var stack []ast.Node
				ast.Inspect(fd.Body, func(n ast.Node) bool {
					if n == nil {
						stack = stack[:len(stack)-1]
						return false
					}
					if len(stack) > 0 {
						parent[n] = stack[len(stack)-1]
					}
					stack = append(stack, n)
					switch x := n.(type) {
					case *ast.AssignStmt:
						if len(x.Lhs) == 1 && x.Lhs[0] == ast.Expr(id) {
							declStmt = x
						}
					case *ast.DeclStmt:
						if x.Pos() <= id.Pos() && id.End() <= x.End() {
							if gd, ok := x.Decl.(*ast.GenDecl); ok {
								for _, sp := range gd.Specs {
									if vs, ok := sp.(*ast.ValueSpec); ok && len(vs.Names) == 1 && vs.Names[0] == id {
										if len(gd.Specs) == 1 {
											declStmt = x
										} else {
											declStmt = vs // one line of a `var ( … )` group
										}
									}
								}
							}
						}
					}
					return true
				})
				if declStmt == nil {
					foldDebug(key, "declaring statement not found")
					continue
				}
				okUses := true
				var calls []*ast.CallExpr
				ast.Inspect(fd.Body, func(n ast.Node) bool {
					use, isId := n.(*ast.Ident)
					if !isId || np.info.Uses[use] != types.Object(obj) {
						return true
					}
					if use.Pos() >= lit.Pos() && use.End() <= lit.End() {
						okUses = false // refers to itself
						return true
					}
					c, isCall := parent[use].(*ast.CallExpr)
					if !isCall || c.Fun != ast.Expr(use) || c.Ellipsis != token.NoPos {
						okUses = false
						return true
					}
					switch parent[c].(type) {
					case *ast.GoStmt, *ast.DeferStmt:
						okUses = false
					}
					calls = append(calls, c)
					return true
				})
				if !okUses || len(calls) == 0 {
					failed[key] = true
					foldDebug(key, "not only called (or never called)")
					continue
				}
				// plain parameters only
				plain := true
				if lit.Type.Params != nil {
					for _, fld := range lit.Type.Params.List {
						if _, variadic := fld.Type.(*ast.Ellipsis); variadic || len(fld.Names) == 0 {
							plain = false
						}
					}
				}
				if lit.Type.Params != nil && lit.Type.Params.NumFields() > 0 && !plain {
					failed[key] = true
					foldDebug(key, "parameters not plain")
					continue
				}
				// captured names mean the same thing at every call
				same := true
				ast.Inspect(lit, func(n ast.Node) bool {
					use, isId := n.(*ast.Ident)
					if !isId {
						return true
					}
					o := np.info.Uses[use]
					if o == nil || o.Pkg() == nil || o.Parent() == nil {
						return true // universe, fields, methods
					}
					if _, isPkgName := o.(*types.PkgName); !isPkgName && o.Pkg() != np.tpkg {
						return true // pkg.Name: reached through the import name, which is checked itself
					}
					if o.Pos() >= lit.Pos() && o.Pos() < lit.End() {
						return true // declared inside the literal
					}
					if _, isPkgName := o.(*types.PkgName); isPkgName || o.Parent() == np.tpkg.Scope() {
						// package-level names and imports: the same unless shadowed at the call
					}
					for _, c := range calls {
						inner := np.tpkg.Scope().Innermost(c.Pos())
						if inner == nil {
							same = false
							continue
						}
						if _, found := inner.LookupParent(use.Name, c.Pos()); found != o {
							same = false
						}
					}
					return true
				})
				if !same {
					failed[key] = true
					foldDebug(key, "a captured name is shadowed at a call")
					continue
				}
				// rewrite: calls from the last to the first, then the declaration
				b := src[names[fi]]
				off := func(p token.Pos) int { return np.fset.Position(p).Offset }
				litText := string(b[off(lit.Pos()):off(lit.End())])
				type edit struct {
					lo, hi int
					text   string
				}
				var edits []edit
				for _, c := range calls {
					edits = append(edits, edit{off(c.Fun.Pos()), off(c.Fun.End()), litText})
				}
				edits = append(edits, edit{off(declStmt.Pos()), off(declStmt.End()), strings.Repeat("\n", strings.Count(string(b[off(declStmt.Pos()):off(declStmt.End())]), "\n"))})
				sort.Slice(edits, func(i, j int) bool { return edits[i].lo > edits[j].lo })
				// a call inside another call's arguments or inside the declaration would overlap: not handled
				overlap := false
				for i := 1; i < len(edits); i++ {
					if edits[i].hi > edits[i-1].lo {
						overlap = true
					}
				}
				if overlap {
					failed[key] = true
					foldDebug(key, "overlapping calls")
					continue
				}
				nb := append([]byte{}, b...)
				for _, e := range edits {
					nb = append(append(append([]byte{}, nb[:e.lo]...), []byte(e.text)...), nb[e.hi:]...)
				}
				out := map[string][]byte{}
				for n, v := range src {
					out[n] = v
				}
				out[names[fi]] = nb
				return &foldResult{src: out, file: fi, key: key}, fmt.Sprintf("local closure %s of %s folded into its %d call(s)", id.Name, declKey(relDir, fd), len(calls)), true
			}
		}
	}
	return nil, "", false
}

// flattenNewLiterals flattens the literal calls of content that the file did not have before (src[names[file]]); it
// reports whether one was left standing.
func flattenNewLiterals(p *packages.Package, names []string, imp types.Importer, src map[string][]byte, file int, content []byte) ([]byte, bool) {
	keep := map[string]bool{}
	nBefore := 0
	if f0, err := parser.ParseFile(token.NewFileSet(), "x.go", src[names[file]], 0); err == nil {
		nBefore = len(findIIFEsAll(f0))
		for _, c := range findIIFEs(f0) {
			lo, hi := c.call.Pos()-f0.FileStart, c.call.End()-f0.FileStart
			keep[string(src[names[file]][lo:hi])] = true
		}
	}
	for k := 0; k < 16; k++ {
		flatSerial++
		nc, lit, did := flattenOne(content, keep, flatSerial)
		if !did {
			break
		}
		trial := map[string][]byte{}
		for n, b := range src {
			trial[n] = b
		}
		trial[names[file]] = nc
		if _, err := checkPackage(p.PkgPath, p.Name, names, trial, imp); err != nil {
			keep[lit] = true
			continue
		}
		content = nc
	}
	left := true
	if f1, err := parser.ParseFile(token.NewFileSet(), "x.go", content, 0); err == nil {
		left = len(findIIFEsAll(f1)) > nBefore
	}
	return content, left
}

func foldDebug(key, why string) {
	if os.Getenv("VERIF_DEBUG") == "fold" {
		fmt.Fprintf(os.Stderr, "fold: %s: %s\n", key, why)
	}
}


var selfBinding = regexp.MustCompile(`(?m)^\s*(?:var\s+)?([A-Za-z_][A-Za-z_0-9]*)\s+[^=\n]*=\s*([A-Za-z_][A-Za-z_0-9]*)\s*$`)

// guardSelfShadow: see the call site. old/new are the file before and after the inlining of call.
func guardSelfShadow(np *npkg, file int, call *ast.CallExpr, old, new []byte) ([]byte, bool) {
	// the statement the call stands in
	var stmt ast.Stmt
	ast.Inspect(np.files[file], func(n ast.Node) bool {
		if s, ok := n.(ast.Stmt); ok && s.Pos() <= call.Pos() && call.End() <= s.End() {
			switch s.(type) {
			case *ast.BlockStmt, *ast.IfStmt, *ast.ForStmt, *ast.RangeStmt, *ast.SwitchStmt, *ast.TypeSwitchStmt, *ast.SelectStmt, *ast.CaseClause, *ast.CommClause, *ast.LabeledStmt:
			default:
				if stmt == nil || (s.Pos() >= stmt.Pos() && s.End() <= stmt.End()) {
					stmt = s
				}
			}
		}
		return true
	})
	if stmt == nil {
		return new, true
	}
	lo := np.fset.Position(stmt.Pos()).Offset
	hi := np.fset.Position(stmt.End()).Offset
	tail := len(old) - hi
	if lo > len(new) || len(new)-tail < lo || !bytes.Equal(old[:lo], new[:lo]) || !bytes.Equal(old[hi:], new[len(new)-tail:]) {
		foldDebug("guardSelfShadow", "edit not confined to the statement")
		// imports were added or the edit is not confined to the statement: look at the whole file for a new
		// self-binding that the old file did not have
		if countSelfBindings(new) > countSelfBindings(old) {
			foldDebug("guardSelfShadow", fmt.Sprintf("edit not confined to the statement [%d,%d) old=%d new=%d", lo, hi, len(old), len(new)))
			return new, false
		}
		return new, true
	}
	region := new[lo : len(new)-tail]
	has := false
	for _, m := range selfBinding.FindAllSubmatch(region, -1) {
		if bytes.Equal(m[1], m[2]) {
			has = true
		}
	}
	if !has {
		return new, true
	}
	// a binding inside a function literal that the inliner made for the call is scoped by that literal
	if f2, err := parser.ParseFile(token.NewFileSet(), "x.go", new, 0); err == nil {
		exposed := false
		base := int(f2.FileStart)
		var lits []*ast.FuncLit
		ast.Inspect(f2, func(n ast.Node) bool {
			if fl, ok := n.(*ast.FuncLit); ok && int(fl.Pos())-base >= lo && int(fl.End())-base <= len(new)-tail {
				lits = append(lits, fl)
			}
			return true
		})
		ast.Inspect(f2, func(n ast.Node) bool {
			ds, ok := n.(*ast.DeclStmt)
			if !ok || int(ds.Pos())-base < lo || int(ds.End())-base > len(new)-tail {
				return true
			}
			gd, ok := ds.Decl.(*ast.GenDecl)
			if !ok || gd.Tok != token.VAR {
				return true
			}
			for _, sp := range gd.Specs {
				vs, ok := sp.(*ast.ValueSpec)
				if !ok {
					continue
				}
				for i, nm := range vs.Names {
					if i < len(vs.Values) {
						if id, isId := vs.Values[i].(*ast.Ident); isId && id.Name == nm.Name {
							inside := false
							for _, fl := range lits {
								if fl.Pos() <= ds.Pos() && ds.End() <= fl.End() {
									inside = true
								}
							}
							if !inside {
								exposed = true
							}
						}
					}
				}
			}
			return true
		})
		if !exposed {
			return new, true
		}
	}
	es, isExprStmt := stmt.(*ast.ExprStmt)
	_, isReturn := stmt.(*ast.ReturnStmt) // `return f(x)`: nothing of the caller's block follows the inlined statements
	if !isReturn && (!isExprStmt || es.X != ast.Expr(call)) {
		return new, false
	}
	var out bytes.Buffer
	out.Write(new[:lo])
	out.WriteString("{\n")
	out.Write(region)
	out.WriteString("\n}")
	out.Write(new[len(new)-tail:])
	return out.Bytes(), true
}

func countSelfBindings(b []byte) int {
	n := 0
	for _, m := range selfBinding.FindAllSubmatch(b, -1) {
		if bytes.Equal(m[1], m[2]) {
			n++
		}
	}
	return n
}


// substituteExprCall: the call replaced by the callee's only returned expression with the arguments in place of the
// parameters. The same computation when every argument is a plain read (identifiers, field selections,
// dereferences, literals - nothing with an effect, so evaluating it where the parameter is used, or twice, or not at
// all on a short-circuited path, changes nothing but which nil dereference is met first), has exactly the
// parameter's type (no conversion to an interface is lost), the parameters are not assigned, and every other name
// in the expression means the same at the call.
func substituteExprCall(np *npkg, file int, call *ast.CallExpr, callee *ast.FuncDecl, calleeSrc, callerSrc []byte) ([]byte, bool) {
	if callee.Body == nil || len(callee.Body.List) != 1 || call.Ellipsis != token.NoPos {
		return nil, false
	}
	ret, ok := callee.Body.List[0].(*ast.ReturnStmt)
	if !ok || len(ret.Results) != 1 || callee.Type.Results == nil || callee.Type.Results.NumFields() != 1 {
		return nil, false
	}
	expr := ret.Results[0]
	off := func(p token.Pos) int { return np.fset.Position(p).Offset }
	var pure func(e ast.Expr) bool
	pure = func(e ast.Expr) bool {
		switch x := e.(type) {
		case *ast.Ident, *ast.BasicLit:
			return true
		case *ast.SelectorExpr:
			return pure(x.X)
		case *ast.StarExpr:
			return pure(x.X)
		case *ast.ParenExpr:
			return pure(x.X)
		case *ast.UnaryExpr:
			return (x.Op == token.AND || x.Op == token.SUB || x.Op == token.NOT) && pure(x.X)
		}
		return false
	}
	// parameters (receiver first) and their arguments
	argOf := map[types.Object]string{}
	bind := func(name *ast.Ident, arg ast.Expr) bool {
		if !pure(arg) {
			return false
		}
		if name == nil || name.Name == "_" {
			return true
		}
		obj := np.info.Defs[name]
		if obj == nil {
			return false
		}
		at := np.info.TypeOf(arg)
		if at == nil || !types.Identical(at, obj.Type()) {
			return false
		}
		argOf[obj] = "(" + string(callerSrc[off(arg.Pos()):off(arg.End())]) + ")"
		return true
	}
	if callee.Recv != nil {
		sel, ok := call.Fun.(*ast.SelectorExpr)
		if !ok || len(callee.Recv.List) != 1 {
			return nil, false
		}
		var rn *ast.Ident
		if len(callee.Recv.List[0].Names) == 1 {
			rn = callee.Recv.List[0].Names[0]
		}
		if !bind(rn, sel.X) {
			return nil, false
		}
	}
	var params []*ast.Ident
	if callee.Type.Params != nil {
		for _, fld := range callee.Type.Params.List {
			if _, variadic := fld.Type.(*ast.Ellipsis); variadic {
				return nil, false
			}
			if len(fld.Names) == 0 {
				params = append(params, nil)
			}
			params = append(params, fld.Names...)
		}
	}
	if len(params) != len(call.Args) {
		return nil, false
	}
	for i, pn := range params {
		if !bind(pn, call.Args[i]) {
			return nil, false
		}
	}
	// the result keeps its type
	if rt := np.info.TypeOf(callee.Type.Results.List[0].Type); rt == nil || np.info.TypeOf(expr) == nil || !types.Identical(rt, np.info.TypeOf(expr)) {
		return nil, false
	}
	// rewrite the expression
	type edit struct {
		lo, hi int
		text   string
	}
	var edits []edit
	okExpr := true
	ast.Inspect(expr, func(n ast.Node) bool {
		switch x := n.(type) {
		case *ast.FuncLit:
			okExpr = false
			return false
		case *ast.UnaryExpr:
			if x.Op == token.AND {
				if id, isId := x.X.(*ast.Ident); isId {
					if _, isParam := argOf[np.info.Uses[id]]; isParam {
						okExpr = false // the address of the parameter's own copy
					}
				}
			}
		case *ast.Ident:
			o := np.info.Uses[x]
			if o == nil {
				return true
			}
			if a, isParam := argOf[o]; isParam {
				edits = append(edits, edit{off(x.Pos()), off(x.End()), a})
				return true
			}
			if o.Pkg() == nil || o.Parent() == nil {
				return true // universe, fields, methods
			}
			if _, isPkgName := o.(*types.PkgName); !isPkgName && o.Pkg() != np.tpkg {
				return true
			}
			inner := np.tpkg.Scope().Innermost(call.Pos())
			if inner == nil {
				okExpr = false
				return true
			}
			_, found := inner.LookupParent(x.Name, call.Pos())
			if pn, isPkgName := o.(*types.PkgName); isPkgName {
				fp, isP := found.(*types.PkgName)
				if !isP || fp.Imported() != pn.Imported() {
					okExpr = false
				}
			} else if found != o {
				okExpr = false
			}
		}
		return true
	})
	if !okExpr {
		return nil, false
	}
	lo, hi := off(expr.Pos()), off(expr.End())
	text := append([]byte{}, calleeSrc[lo:hi]...)
	sort.Slice(edits, func(i, j int) bool { return edits[i].lo > edits[j].lo })
	for _, e := range edits {
		text = append(append(append([]byte{}, text[:e.lo-lo]...), []byte(e.text)...), text[e.hi-lo:]...)
	}
	var out bytes.Buffer
	out.Write(callerSrc[:off(call.Pos())])
	out.WriteString("(")
	out.Write(text)
	out.WriteString(")")
	out.Write(callerSrc[off(call.End()):])
	return out.Bytes(), true
}


// condToBody: call lies in the condition of a for statement; the file with that test moved into the body.
func condToBody(np *npkg, file int, call *ast.CallExpr, src []byte) ([]byte, bool) {
	var loop *ast.ForStmt
	ast.Inspect(np.files[file], func(n ast.Node) bool {
		if f, ok := n.(*ast.ForStmt); ok && f.Cond != nil && f.Cond.Pos() <= call.Pos() && call.End() <= f.Cond.End() {
			loop = f
		}
		return true
	})
	if loop == nil {
		return nil, false
	}
	off := func(p token.Pos) int { return np.fset.Position(p).Offset }
	cl, ch := off(loop.Cond.Pos()), off(loop.Cond.End())
	cond := string(src[cl:ch])
	body := off(loop.Body.Lbrace) + 1
	var out bytes.Buffer
	out.Write(src[:cl])
	if loop.Init == nil && loop.Post == nil {
		// `for cond {` -> `for {`
	} else if loop.Init == nil {
		out.WriteString(" ") // `for ; cond; post {` keeps its semicolons
	}
	out.Write(src[ch:body])
	out.WriteString("\nif !(" + cond + ") {\nbreak\n}\n")
	out.Write(src[body:])
	return out.Bytes(), true
}


// foldMethodValue: a method value bound to a local the change introduced (`contains := slot.Contains` … `contains(ts)`)
// is written back as the method call at every use (`slot.Contains(ts)`). The same computation when the local is only
// ever called, the receiver is a pointer or interface variable that is never assigned again nor has its address
// taken (the method value binds the receiver where it is evaluated), and the receiver's name means the same
// variable at each call.
func foldMethodValue(np *npkg, relDir string, inventory map[string]bool, src map[string][]byte, names []string, failed map[string]bool) (*foldResult, string, bool) {
	for fi, f := range np.files {
		for _, d := range f.Decls {
			fd, ok := d.(*ast.FuncDecl)
			if !ok || fd.Body == nil {
				continue
			}
			binds := localSelectorBinds(fd)
			var ids []*ast.Ident
			for id := range binds {
				ids = append(ids, id)
			}
			sort.Slice(ids, func(i, j int) bool { return ids[i].Pos() < ids[j].Pos() })
			for _, id := range ids {
				sel := binds[id]
				key := closureKey(relDir, fd, id.Name)
				if inventory[key] || failed[key] {
					continue
				}
				if sn, ok := np.info.Selections[sel]; !ok || sn.Kind() != types.MethodVal {
					continue // a field read, not a method value
				}
				obj, _ := np.info.Defs[id].(*types.Var)
				recvId := sel.X.(*ast.Ident)
				recv, _ := np.info.Uses[recvId].(*types.Var)
				if obj == nil || recv == nil || recv.Parent() == np.tpkg.Scope() {
					failed[key] = true
					continue
				}
				switch recv.Type().Underlying().(type) {
				case *types.Pointer, *types.Interface:
				default:
					failed[key] = true
					continue
				}
				// the declaring statement, the uses, and what happens to the receiver
				var declStmt ast.Stmt
				parent := map[ast.Node]ast.Node{}
				var stack []ast.Node
				okAll := true
				var calls []*ast.CallExpr
				ast.Inspect(fd.Body, func(n ast.Node) bool {
					if n == nil {
						stack = stack[:len(stack)-1]
						return false
					}
					if len(stack) > 0 {
						parent[n] = stack[len(stack)-1]
					}
					stack = append(stack, n)
					switch x := n.(type) {
					case *ast.AssignStmt:
						if len(x.Lhs) == 1 && x.Lhs[0] == ast.Expr(id) {
							declStmt = x
						}
						for _, l := range x.Lhs {
							if li, isId := l.(*ast.Ident); isId && (np.info.Uses[li] == types.Object(recv) || (np.info.Defs[li] == types.Object(recv) && x.Pos() > id.Pos())) {
								okAll = false // the receiver variable is assigned again
							}
						}
					case *ast.IncDecStmt:
						if li, isId := x.X.(*ast.Ident); isId && np.info.Uses[li] == types.Object(recv) {
							okAll = false
						}
					case *ast.UnaryExpr:
						if li, isId := x.X.(*ast.Ident); isId && x.Op == token.AND && np.info.Uses[li] == types.Object(recv) {
							okAll = false
						}
					case *ast.RangeStmt:
						for _, e := range []ast.Expr{x.Key, x.Value} {
							if li, isId := e.(*ast.Ident); isId && (np.info.Uses[li] == types.Object(recv) || np.info.Defs[li] == types.Object(recv)) {
								okAll = false
							}
						}
					}
					return true
				})
				ast.Inspect(fd.Body, func(n ast.Node) bool {
					use, isId := n.(*ast.Ident)
					if !isId || np.info.Uses[use] != types.Object(obj) {
						return true
					}
					c, isCall := parent[use].(*ast.CallExpr)
					if !isCall || c.Fun != ast.Expr(use) {
						okAll = false
						return true
					}
					switch parent[c].(type) {
					case *ast.GoStmt, *ast.DeferStmt:
						okAll = false
					}
					inner := np.tpkg.Scope().Innermost(c.Pos())
					if inner == nil {
						okAll = false
					} else if _, found := inner.LookupParent(recvId.Name, c.Pos()); found != types.Object(recv) {
						okAll = false
					}
					calls = append(calls, c)
					return true
				})
				if !okAll || declStmt == nil || len(calls) == 0 {
					failed[key] = true
					foldDebug(key, "method value not foldable")
					continue
				}
				b := src[names[fi]]
				off := func(p token.Pos) int { return np.fset.Position(p).Offset }
				selText := string(b[off(sel.Pos()):off(sel.End())])
				type edit struct {
					lo, hi int
					text   string
				}
				var edits []edit
				for _, c := range calls {
					edits = append(edits, edit{off(c.Fun.Pos()), off(c.Fun.End()), selText})
				}
				edits = append(edits, edit{off(declStmt.Pos()), off(declStmt.End()), ""})
				sort.Slice(edits, func(i, j int) bool { return edits[i].lo > edits[j].lo })
				nb := append([]byte{}, b...)
				for _, e := range edits {
					nb = append(append(append([]byte{}, nb[:e.lo]...), []byte(e.text)...), nb[e.hi:]...)
				}
				out := map[string][]byte{}
				for n, v := range src {
					out[n] = v
				}
				out[names[fi]] = nb
				return &foldResult{src: out, file: fi, key: key}, fmt.Sprintf("method value %s of %s written back as %s(...) at its %d call(s)", id.Name, declKey(relDir, fd), selText, len(calls)), true
			}
		}
	}
	return nil, "", false
}
