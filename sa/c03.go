package main

import (
	"fmt"
	"go/constant"
	"go/token"
	"go/types"
	"sort"
	"strings"

	"golang.org/x/tools/go/ssa"
)

func init() {
	register(&Prop{
		ID:         "C03",
		Decided:    "(1) every implementation of functions.AggregatorFunction (and the legacy wrappers): New() returns a new object that shares no reference-typed accumulator state with the prototype, and Add writes only its receiver's fields (no package state); (2) NULL skipping at the single choke point: in GroupAggregator.Add every groupAgg.Add(v) is unreachable when v is NULL unless the aggregate is first_value/last_value (the exemption table is exactly the property's), count(*) adds the constant 1; (3) GroupAggregator.Reset re-initialises every field Add writes, and in processWindowBatch Reset follows the Add loop on every path on which GetResults' error is nil, every in-module GetResults returning a constant nil error; (4) each of the aggregate names the property lists is registered with a type implementing AggregatorFunction. Also: no closure that outlives its iteration captures a variable a later iteration overwrites (module-wide, go.mod is below go 1.22); the NULL exemption of first_value/last_value is decided on the case-folded function name. Also: every group owns an instance of every aggregate before any accumulator is fed (an all-NULL group reports count 0 / NULL, not a missing column). Also: in GroupAggregator.Add the loop that feeds the group's aggregates is left only when every aggregate has seen the row, or by returning an error (flow/all-aggregates-fed): a break on one failing expression would hide the row from count(*) and every later aggregate.",
		NotDecided: "every numeric definition (sum/avg/Welford variance/percentile interpolation/median), permutation invariance, coercion by cast.ToFloat64E, values of per-row expression arguments.",
		Run:        runC03,
	})
}

func runC03(a *A) {
	a.Rule("aggstate/fresh-new", 28, func() {
		iface := a.Iface("functions", "AggregatorFunction")
		impls := a.Implementers(iface)
		for _, T := range impls {
			add := a.methodOf(T, "Add")
			nw := a.methodOf(T, "New")
			if add == nil || nw == nil {
				a.Und(qual(T)+"#methods", T.Obj().Pos(), "Add/New not found")
				continue
			}
			acc := a.ruleConfinedWrites(T, add)
			a.ruleFreshNew(T, nw, acc, "accumulator")
		}
		a.Info("aggregator_implementations", len(impls))
	})
	a.Rule("aggstate/wrappers", 4, func() {
		iface := a.Iface("functions", "LegacyAggregatorFunction")
		n := 0
		for _, T := range a.Implementers(iface) {
			// wrappers: types holding an aggregator in a field and delegating Add to it
			add := a.methodOf(T, "Add")
			nw := a.methodOf(T, "New")
			if add == nil || nw == nil || nw.Blocks == nil {
				continue
			}
			if types_implements(a, T, "functions", "AggregatorFunction") {
				continue // checked above
			}
			n++
			// New must not store the receiver's wrapped object into the new wrapper
			construct := qual(T) + ".New#delegates"
			recv := nw.Params[0]
			bad := ""
			allInstrs(nw, func(in ssa.Instruction) {
				st, ok := in.(*ssa.Store)
				if !ok {
					return
				}
				fa, ok := st.Addr.(*ssa.FieldAddr)
				if !ok || !isRefType(fieldVarOf(fa).Type()) && !isIfaceType(fieldVarOf(fa)) {
					return
				}
				if ld, ok := st.Val.(*ssa.UnOp); ok {
					if rfa, ok := ld.X.(*ssa.FieldAddr); ok && rfa.X == ssa.Value(recv) {
						bad = fmt.Sprintf("the new wrapper's field %s is the receiver's own %s: all groups share one wrapped accumulator", fieldVarOf(fa).Name(), fieldVarOf(rfa).Name())
					}
				}
			})
			a.Check(bad == "", construct, nw.Pos(), "the wrapped accumulator of a new wrapper is created by the wrapped object's own New()", bad)
		}
		a.Info("legacy_wrappers", n)
	})
	a.Rule("flow/null-choke-point", 5, func() { a.ruleNullChokePoint() })
	a.Rule("aggstate/group-instances-complete", 1, func() { a.ruleGroupInstancesComplete() })
	a.Rule("aggstate/reset", 2, func() { a.ruleAggregatorReset() })
	a.Rule("flow/all-aggregates-fed", 1, func() { a.ruleAllAggregatesFed() })
	a.Rule("shape/aggregate-name-case", 1, func() { a.ruleAggregateNameCase() })
	a.Rule("golife/captured-loop-variable", 1, func() { a.ruleCapturedLoopVariable(nil) })
	a.Rule("tables/aggregate-registry", 17, func() { a.ruleAggregateRegistry() })
}

func isIfaceType(v *types.Var) bool {
	_, ok := v.Type().Underlying().(*types.Interface)
	return ok
}

func types_implements(a *A, T *types.Named, rel, name string) bool {
	return typesImplements(T, a.Iface(rel, name))
}

func typesImplements(t types.Type, iface *types.Interface) bool {
	if types.Implements(t, iface) {
		return true
	}
	if _, ok := t.(*types.Pointer); !ok {
		return types.Implements(types.NewPointer(t), iface)
	}
	return false
}

// ruleNullChokePoint: in GroupAggregator.Add every invoke of Add(v) on a group accumulator.
func (a *A) ruleNullChokePoint() {
	fn := a.Method("aggregator", "GroupAggregator", "Add")
	allow := a.Method("aggregator", "GroupAggregator", "shouldAllowNullValues")
	// exemption table is exactly first_value / last_value
	{
		var consts []string
		allInstrs(allow, func(in ssa.Instruction) {
			if bo, ok := in.(*ssa.BinOp); ok && bo.Op == token.EQL {
				if c, ok := bo.Y.(*ssa.Const); ok && c.Value != nil && c.Value.Kind() == constant.String {
					consts = append(consts, constant.StringVal(c.Value))
				}
			}
		})
		sort.Strings(consts)
		a.Check(strings.Join(consts, ",") == "first_value,last_value", fname(allow)+"#exemptions", allow.Pos(),
			"aggregates that receive NULL inputs: exactly first_value, last_value", fmt.Sprintf("the NULL exemption table is {%s}, the property says {first_value, last_value}", strings.Join(consts, ",")))
	}
	ctx := a.FieldOf(a.Named("aggregator", "GroupAggregator"), "context")
	n := 0
	allInstrs(fn, func(in ssa.Instruction) {
		c, ok := in.(*ssa.Call)
		if !ok || !c.Call.IsInvoke() || c.Call.Method.Name() != "Add" || len(c.Call.Args) != 1 {
			return
		}
		n++
		arg := c.Call.Args[0]
		construct := fmt.Sprintf("%s#add-call", fname(fn))
		// constant argument (count(*))
		inner := arg
		if mi, ok := inner.(*ssa.MakeInterface); ok {
			inner = mi.X
		}
		if k, ok := inner.(*ssa.Const); ok && k.Value != nil {
			a.Ok(construct, c.Pos(), "adds the constant %s (count(*))", k.Value.ExactString()).Trivial = true
			return
		}
		// value taken from the aggregator's own context (window bounds), not from the row
		if lk := lookupSource(inner); lk != nil {
			if t := TermOf(lk.X, nil); t.Kind == "field" && t.Field == ctx {
				a.Ok(construct, c.Pos(), "adds a value of the aggregator's context (window_start/window_end), not a row value").Trivial = true
				return
			}
		}
		// sources of the argument through conversions
		srcs := map[ssa.Value]bool{}
		var rec func(v ssa.Value)
		rec = func(v ssa.Value) {
			if srcs[v] {
				return
			}
			srcs[v] = true
			switch x := v.(type) {
			case *ssa.MakeInterface:
				rec(x.X)
			case *ssa.Phi:
				for _, e := range x.Edges {
					rec(e)
				}
			case *ssa.TypeAssert:
				rec(x.X)
			case *ssa.Extract:
				if call, ok := x.Tuple.(*ssa.Call); ok {
					if cal := call.Call.StaticCallee(); cal != nil && cal.Pkg != nil && strings.HasSuffix(cal.Pkg.Pkg.Path(), "/utils/cast") {
						for _, ar := range call.Call.Args {
							rec(ar)
						}
					}
				}
				if ta, ok := x.Tuple.(*ssa.TypeAssert); ok {
					rec(ta.X)
				}
			case *ssa.UnOp:
				if al, ok := x.X.(*ssa.Alloc); ok && x.Op == token.MUL {
					for _, r := range *al.Referrers() {
						if st, ok := r.(*ssa.Store); ok && st.Addr == ssa.Value(al) {
							rec(st.Val)
						}
					}
				}
			}
		}
		rec(arg)
		env := &Env{a: a, Rank: map[string]int{}, Flags: map[string]bool{},
			Assume: func(t *Term, v ssa.Value) Tri {
				switch x := v.(type) {
				case *ssa.BinOp:
					if x.Op == token.EQL || x.Op == token.NEQ {
						if k, ok := x.Y.(*ssa.Const); ok && k.Value == nil && srcs[x.X] {
							return tri(x.Op == token.EQL) // the value is NULL
						}
					}
				case *ssa.Call:
					if x.Call.StaticCallee() == allow {
						return F // not first_value/last_value
					}
				}
				return U
			}}
		hit := reachUnder(fn, in, func(v ssa.Value) Tri { return env.Assume(nil, v) })
		if hit {
			a.Bad(construct, c.Pos(), "groupAgg.Add(%s) is reachable when the value is NULL and the aggregate is not first_value/last_value: a NULL input would be counted/collected instead of skipped", TermOf(arg, nil))
		} else {
			a.Ok(construct, c.Pos(), "unreachable when %s is NULL (unless first_value/last_value)", TermOf(arg, nil))
		}
	})
	if n == 0 {
		a.Und(fname(fn)+"#add-call", fn.Pos(), "no accumulator Add call found")
	}
}

func lookupSource(v ssa.Value) *ssa.Lookup {
	switch x := v.(type) {
	case *ssa.Lookup:
		return x
	case *ssa.Extract:
		if lk, ok := x.Tuple.(*ssa.Lookup); ok {
			return lk
		}
	}
	return nil
}

// ruleAggregatorReset: Reset re-initialises what Add writes; Reset follows the Add loop.
func (a *A) ruleAggregatorReset() {
	ga := a.Named("aggregator", "GroupAggregator")
	add := a.Method("aggregator", "GroupAggregator", "Add")
	rst := a.Method("aggregator", "GroupAggregator", "Reset")
	w, _ := a.recvFieldWrites(add, 0, map[*ssa.Function]bool{})
	r, _ := a.recvFieldWrites(rst, 0, map[*ssa.Function]bool{})
	var missing []string
	for f := range w {
		if _, ok := r[f]; !ok && f.Name() != "mu" {
			missing = append(missing, f.Name())
		}
	}
	sort.Strings(missing)
	a.Check(len(missing) == 0, qual(ga)+".Reset#complete", rst.Pos(), fmt.Sprintf("Reset re-initialises all %d fields that Add writes", len(w)),
		fmt.Sprintf("Reset does not re-initialise %v, which Add writes: groups of one batch would leak into the next", missing))
	// processWindowBatch: after the Add loop, on the err==nil arm of GetResults, Reset is called
	pw := a.Method("stream", "DataProcessor", "processWindowBatch")
	var getRes, reset, addCalls []ssa.Instruction
	allInstrs(pw, func(in ssa.Instruction) {
		c := callCommon(in)
		if c == nil || !c.IsInvoke() {
			return
		}
		switch c.Method.Name() {
		case "GetResults":
			getRes = append(getRes, in)
		case "Reset":
			reset = append(reset, in)
		case "Add":
			addCalls = append(addCalls, in)
		}
	})
	if len(getRes) == 0 || len(addCalls) == 0 {
		a.Und(fname(pw)+"#reset-after-batch", pw.Pos(), "aggregator Add/GetResults calls not found")
		return
	}
	// a Reset that is deferred before GetResults runs on every way out, the panicking ones included: `defer
	// agg.Reset()`, or a deferred helper / literal that calls Reset on all its paths
	resetsAlways := func(f *ssa.Function) bool {
		if f == nil || f.Blocks == nil {
			return false
		}
		ok := false
		allInstrs(f, func(in ssa.Instruction) {
			c := callCommon(in)
			if c == nil || !c.IsInvoke() || c.Method.Name() != "Reset" {
				return
			}
			if _, isDefer := in.(*ssa.Defer); isDefer {
				return
			}
			all := true
			recv := c.Value
			for _, b := range f.Blocks {
				if b == f.Recover {
					continue // entered only after a recovered panic
				}
				if _, isRet := b.Instrs[len(b.Instrs)-1].(*ssa.Return); isRet && !(in.Block() == b || in.Block().Dominates(b)) {
					// a way out without Reset is fine when there is no aggregator to reset
					if !guardedNil(b, func(x ssa.Value) bool { return x == recv }, true) {
						all = false
					}
				}
			}
			if all {
				ok = true
			}
		})
		return ok
	}
	deferredReset := func(g ssa.Instruction) bool {
		found := false
		allInstrs(pw, func(in ssa.Instruction) {
			d, isDefer := in.(*ssa.Defer)
			if !isDefer || !(d.Block() == g.Block() && instrIndex(d) < instrIndex(g) || d.Block() != g.Block() && d.Block().Dominates(g.Block())) {
				return
			}
			if d.Call.IsInvoke() {
				if d.Call.Method.Name() == "Reset" {
					found = true
				}
				return
			}
			callee := d.Call.StaticCallee()
			if mc, isMC := d.Call.Value.(*ssa.MakeClosure); isMC {
				callee, _ = mc.Fn.(*ssa.Function)
			}
			if resetsAlways(callee) {
				found = true
			}
		})
		return found
	}
	// every path from GetResults to return passes Reset, unless it takes the err != nil arm
	for _, g := range getRes {
		if deferredReset(g) {
			a.Ok(fname(pw)+"#reset-after-batch", g.Pos(), "the aggregator's Reset is deferred before GetResults: it runs on every way out of the batch")
			continue
		}
		exit := pathToExitAvoiding(g, func(in ssa.Instruction) bool {
			for _, r := range reset {
				if in == r {
					return true
				}
			}
			return false
		}, false)
		if exit == nil {
			a.Ok(fname(pw)+"#reset-after-batch", g.Pos(), "the aggregator is Reset on every path after GetResults")
			continue
		}
		// tolerated only if the escaping path is the err != nil arm and every GetResults returns nil error
		var errV ssa.Value
		if gv, ok := g.(ssa.Value); ok {
			for _, r := range *gv.Referrers() {
				if ex, ok := r.(*ssa.Extract); ok && ex.Index == 1 {
					errV = ex
				}
			}
		}
		// with err == nil assumed (the error result of this GetResults call), does a path still skip Reset?
		okGuard := false
		if errV != nil {
			isReset := func(in ssa.Instruction) bool {
				for _, r := range reset {
					if in == r {
						return true
					}
				}
				return false
			}
			okGuard = pathToExitAvoidingUnder(g, isReset, func(v ssa.Value) Tri {
				if bo, ok := v.(*ssa.BinOp); ok && bo.X == errV && isNilConst(bo.Y) {
					switch bo.Op {
					case token.EQL:
						return T
					case token.NEQ:
						return F
					}
				}
				return U
			}) == nil
		}
		if !okGuard {
			a.Bad(fname(pw)+"#reset-after-batch", exit.Pos(), "a path from GetResults to return skips aggregator.Reset(): the next batch would start from this batch's accumulators")
			continue
		}
		// side obligation: all in-module GetResults return a constant nil error
		iface := a.Iface("aggregator", "Aggregator")
		allNil := true
		var impls []string
		for _, T := range a.Implementers(iface) {
			m := a.methodOf(T, "GetResults")
			if m == nil || m.Blocks == nil {
				continue
			}
			impls = append(impls, qual(T))
			if !a.returnsNilError(m, 1, 0) {
				allNil = false
			}
		}
		a.Check(allNil, fname(pw)+"#reset-after-batch", g.Pos(), fmt.Sprintf("Reset is skipped only when GetResults fails, and every in-module GetResults (%s) returns a nil error", strings.Join(impls, ", ")),
			"Reset is skipped when GetResults returns an error, and an in-module GetResults can return a non-nil error: accumulators would leak into the next batch")
	}
}

// ruleAggregateRegistry: the aggregate names of the property are registered with AggregatorFunction types.
func (a *A) ruleAggregateRegistry() {
	reg := a.Func("functions", "registerBuiltinFunctions")
	iface := a.Iface("functions", "AggregatorFunction")
	// constructor -> name literal passed to NewBaseFunction*, and result type
	names := map[string]string{} // function name -> implementing type
	allInstrs(reg, func(in ssa.Instruction) {
		c, ok := in.(*ssa.Call)
		if !ok {
			return
		}
		// Register(NewXFunction())
		for _, arg := range c.Call.Args {
			v := arg
			if mi, ok := v.(*ssa.MakeInterface); ok {
				v = mi.X
			}
			cc, ok := v.(*ssa.Call)
			if !ok {
				continue
			}
			ctor := cc.Call.StaticCallee()
			if ctor == nil || ctor.Blocks == nil {
				continue
			}
			// name literal inside ctor
			var nm string
			allInstrs(ctor, func(x ssa.Instruction) {
				if bc, ok := x.(*ssa.Call); ok {
					if cal := bc.Call.StaticCallee(); cal != nil && strings.HasPrefix(cal.Name(), "NewBaseFunction") && len(bc.Call.Args) > 0 {
						if k, ok := bc.Call.Args[0].(*ssa.Const); ok && k.Value != nil && k.Value.Kind() == constant.String {
							nm = constant.StringVal(k.Value)
						}
					}
				}
			})
			if nm == "" {
				continue
			}
			rt := ctor.Signature.Results().At(0).Type()
			if typesImplements(rt, iface) {
				names[nm] = rt.String()
			} else if _, ok := names[nm]; !ok {
				names[nm] = ""
			}
		}
	})
	want := []string{"count", "sum", "avg", "min", "max", "stddev", "stddevs", "var", "vars", "median", "percentile", "first_value", "last_value", "nth_value", "collect", "deduplicate", "merge_agg"}
	for _, w := range want {
		t, ok := names[w]
		switch {
		case !ok:
			a.Bad("aggregate:"+w, reg.Pos(), "the aggregate %q named by the property is not registered by registerBuiltinFunctions", w)
		case t == "":
			a.Bad("aggregate:"+w, reg.Pos(), "%q is registered with a type that does not implement AggregatorFunction", w)
		default:
			a.Ok("aggregate:"+w, reg.Pos(), "registered as %s", strings.TrimPrefix(t, "*"+modPath+"/"))
		}
	}
}

// ruleAggregateNameCase: SQL function names are case-insensitive and the registry lookups fold case
// (functions.Get lower-cases), but an aggregator.AggregateType carries the name as the query wrote it.
// The comparison that selects the aggregates receiving NULL inputs (shouldAllowNullValues: first_value,
// last_value) must therefore be made on a case-folded value (strings.ToLower/ToUpper of it), else
// FIRST_VALUE(x) skips an explicit NULL that first_value(x) reports. Other name comparisons in the
// module (count special case, internal markers "expression"/"post_aggregation", the empty name) were
// read: both branches treat the value alike or the constant is not a function name; they are not judged.
func (a *A) ruleAggregateNameCase() int {
	n := 0
	allow := a.Method("aggregator", "GroupAggregator", "shouldAllowNullValues")
	isAggName := func(t types.Type) bool {
		return isNamedType(t, a.Pkg("aggregator").Pkg.Path(), "AggregateType") || isNamedType(t, a.Pkg("functions").Pkg.Path(), "AggregateType")
	}
	var folded func(v ssa.Value, d int) bool
	folded = func(v ssa.Value, d int) bool {
		if d > 6 {
			return false
		}
		switch x := v.(type) {
		case *ssa.Convert:
			return folded(x.X, d+1)
		case *ssa.ChangeType:
			return folded(x.X, d+1)
		case *ssa.Call:
			if f := x.Call.StaticCallee(); f != nil && f.Pkg != nil && f.Pkg.Pkg.Path() == "strings" && (f.Name() == "ToLower" || f.Name() == "ToUpper") {
				return true
			}
		case *ssa.Phi:
			for _, e := range x.Edges {
				if !folded(e, d+1) {
					return false
				}
			}
			return len(x.Edges) > 0
		}
		return false
	}
	for _, fn := range []*ssa.Function{allow} {
		perFn := map[ssa.Value]bool{}
		allInstrs(fn, func(in ssa.Instruction) {
			bo, ok := in.(*ssa.BinOp)
			if !ok || bo.Op != token.EQL && bo.Op != token.NEQ {
				return
			}
			var val ssa.Value
			if k, ok := bo.Y.(*ssa.Const); ok && k.Value != nil && k.Value.Kind() == constant.String && isAggName(bo.X.Type()) {
				val = bo.X
			} else if k, ok := bo.X.(*ssa.Const); ok && k.Value != nil && k.Value.Kind() == constant.String && isAggName(bo.Y.Type()) {
				val = bo.Y
			}
			if val == nil || perFn[val] {
				return
			}
			perFn[val] = true
			n++
			construct := fname(fn) + "#name-compare"
			a.Check(folded(val, 0), construct, bo.Pos(),
				"the aggregate name is case-folded before it is compared with constants",
				"the aggregate name "+TermOf(val, nil).String()+" is compared with lower-case constants as the query wrote it: "+
					"an upper-case spelling of the function takes the other branch")
		})
	}
	return n
}

// ruleGroupInstancesComplete: "sum, avg, min and max over no usable input are NULL and count is 0":
// a group must own an accumulator for every aggregate of the query whether or not any row fed it, or
// the aggregate is simply absent from the group's result row. In GroupAggregator.Add a loop over the
// prototypes (ga.aggregators) stores prototype.New() into the group's instance map, and that loop
// runs before every accumulator is fed (it dominates each Add call on an accumulator).
func (a *A) ruleGroupInstancesComplete() {
	ga := a.Named("aggregator", "GroupAggregator")
	protos := a.FieldOf(ga, "aggregators")
	add := a.Method("aggregator", "GroupAggregator", "Add")
	construct := fname(add) + "#instances-complete"
	var loopHead *ssa.BasicBlock
	for _, l := range mapRangeLoops(add) {
		if t := TermOf(l.X, nil); t.Kind != "field" || t.Field != protos {
			continue
		}
		for b := range l.Blocks {
			for _, in := range b.Instrs {
				mu, ok := in.(*ssa.MapUpdate)
				if !ok {
					continue
				}
				v := mu.Value
				if c, ok := v.(*ssa.Call); ok && c.Call.IsInvoke() && c.Call.Method.Name() == "New" {
					loopHead = l.Header
				}
			}
		}
	}
	if loopHead == nil {
		a.Bad(construct, add.Pos(), "Add has no loop over the prototypes that gives the group an instance of every aggregate: an aggregate that receives no usable input in a group (all NULL) is absent from the group's result row instead of being reported as 0 / NULL")
		return
	}
	// the creating loop may be skipped when the group already has as many instances as there are
	// prototypes (`if len(groupAggs) != len(ga.aggregators) { for ... }`): instances are only ever
	// created from the prototypes, so equal sizes mean none is missing. The test then stands for the loop.
	anchor := loopHead
	for d := loopHead.Idom(); d != nil; d = d.Idom() {
		iff, isIf := d.Instrs[len(d.Instrs)-1].(*ssa.If)
		if !isIf {
			continue
		}
		bo, isB := iff.Cond.(*ssa.BinOp)
		if !isB {
			break
		}
		lenOf := func(v ssa.Value) ssa.Value {
			if c, ok := v.(*ssa.Call); ok {
				if cc, ok := isBuiltinCall(c, "len"); ok {
					return cc.Args[0]
				}
			}
			return nil
		}
		x, y := lenOf(bo.X), lenOf(bo.Y)
		if x != nil && y != nil && (bo.Op == token.NEQ || bo.Op == token.EQL || bo.Op == token.LSS || bo.Op == token.GTR) {
			tx, ty := TermOf(x, nil), TermOf(y, nil)
			if (tx.Kind == "field" && tx.Field == protos) != (ty.Kind == "field" && ty.Field == protos) {
				anchor = d
			}
		}
		break
	}
	ok := true
	nFeed := 0
	allInstrs(add, func(in ssa.Instruction) {
		c, isCall := in.(*ssa.Call)
		if !isCall || !c.Call.IsInvoke() || c.Call.Method.Name() != "Add" || len(c.Call.Args) != 1 {
			return
		}
		nFeed++
		if !anchor.Dominates(c.Block()) {
			ok = false
		}
	})
	a.Check(ok && nFeed > 0, construct, loopHead.Instrs[0].Pos(), fmt.Sprintf("every group gets an instance of every aggregate before any of the %d feeding sites runs", nFeed),
		"an accumulator can be fed on a path that does not pass the loop creating the group's instances")
}

// ruleAllAggregatesFed: "the aggregates of a result equal the aggregates of exactly the batch's rows"
// needs every aggregate of the row's group to see the row. In GroupAggregator.Add the loop that feeds
// the group's aggregators (the one containing the AggregatorFunction.Add calls) is left only when the
// field list is exhausted, or by returning an error (the whole Add fails and says so): a `break` on a
// field whose expression cannot be evaluated would hide the row from every later aggregate - count(*)
// included - while Add reports success.
func (a *A) ruleAllAggregatesFed() int {
	add := a.Method("aggregator", "GroupAggregator", "Add")
	n := 0
	for _, h := range append([]*ssa.Function{add}, a.helpersOf(add)...) {
		for _, l := range rangeLoops(h) {
			feeds := false
			for b := range l.Blocks {
				for _, in := range b.Instrs {
					if cc := callCommon(in); cc != nil && cc.IsInvoke() && cc.Method.Name() == "Add" {
						// an aggregator interface of the module (AggregatorFunction or the legacy one): Add, New, Result
						if it, ok := cc.Value.Type().Underlying().(*types.Interface); ok {
							has := map[string]bool{}
							for i := 0; i < it.NumMethods(); i++ {
								has[it.Method(i).Name()] = true
							}
							if has["New"] && has["Result"] && a.inModule(cc.Method.Pkg()) {
								feeds = true
							}
						}
					}
				}
			}
			if !feeds {
				continue
			}
			n++
			bad := loopEarlyExit(l, func(exit *ssa.BasicBlock) bool {
				// leaving by `return err` with a non-nil error
				for hops := 0; hops < 3 && exit != nil; hops++ {
					switch last := exit.Instrs[len(exit.Instrs)-1].(type) {
					case *ssa.Return:
						return returnsNonNilError(last)
					case *ssa.Jump:
						exit = exit.Succs[0]
					default:
						return false
					}
				}
				return false
			})
			pos := l.Header.Instrs[0].Pos()
			if bad != nil {
				pos = bad.Pos()
			}
			a.Check(bad == nil, fname(h)+"#all-aggregates-fed", pos,
				"the loop that feeds the group's aggregates is left only when every aggregate has seen the row (or Add fails with an error)",
				"the loop that feeds the group's aggregates can be left early at "+a.pos(pos)+" while Add still reports success: the aggregates after that point (count(*) included) never see the row, so the result is not the aggregate of the batch's rows")
		}
	}
	if n == 0 {
		a.anchorFail("no loop feeding AggregatorFunction.Add found in GroupAggregator.Add")
	}
	return n
}
