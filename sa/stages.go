package main

// stages.go — call-order rules (E2): stages of a pipeline occur in a prescribed order on every path.

import (
	"fmt"
	"go/token"

	"golang.org/x/tools/go/ssa"
)

type stage struct {
	name     string
	match    func(in ssa.Instruction) bool
	optional bool
}

func callOfMethod(rel, typ, name string, a *A) func(ssa.Instruction) bool {
	f := a.Method(rel, typ, name)
	return func(in ssa.Instruction) bool {
		if _, isDefer := in.(*ssa.Defer); isDefer {
			return false
		}
		return staticCallee(in) == f
	}
}

// ruleStageOrder: every non-optional stage occurs in fn, and for i<j no stage-i instruction is reachable
// after a stage-j instruction (so on every path the stages that run, run in the listed order).
func (a *A) ruleStageOrder(fn *ssa.Function, stages []stage) {
	// a stage may be carried out by a helper of the same package (one level): the call of the helper is
	// then the stage's site, and the order of the stages inside the helper is checked on the helper
	direct := make([]func(ssa.Instruction) bool, len(stages))
	helperStages := map[*ssa.Function]map[int]bool{}
	for i := range stages {
		i := i
		direct[i] = stages[i].match
		// only a stage that does not occur in fn itself is looked for in its helpers
		occursDirectly := false
		allInstrs(fn, func(in ssa.Instruction) {
			if direct[i](in) {
				occursDirectly = true
			}
		})
		if occursDirectly {
			continue
		}
		stages[i].match = func(in ssa.Instruction) bool {
			if direct[i](in) {
				return true
			}
			if _, isGo := in.(*ssa.Go); isGo {
				return false
			}
			callee := staticCallee(in)
			if callee == nil || callee == fn || callee.Blocks == nil || callee.Pkg != fn.Pkg || !a.fnInModule(callee) {
				return false
			}
			found := false
			allInstrs(callee, func(x ssa.Instruction) {
				if direct[i](x) {
					found = true
				}
			})
			if found {
				if helperStages[callee] == nil {
					helperStages[callee] = map[int]bool{}
				}
				helperStages[callee][i] = true
			}
			return found
		}
	}
	defer func() {
		for i := range stages {
			stages[i].match = direct[i]
		}
		for h, set := range helperStages {
			if len(set) < 2 {
				continue
			}
			var sub []stage
			for i := range stages {
				if set[i] {
					st := stages[i]
					st.optional = true
					sub = append(sub, st)
				}
			}
			a.ruleStageOrder(h, sub)
		}
	}()
	sites := make([][]ssa.Instruction, len(stages))
	allInstrs(fn, func(in ssa.Instruction) {
		for i, s := range stages {
			if s.match(in) {
				sites[i] = append(sites[i], in)
			}
		}
	})
	for i, s := range stages {
		if len(sites[i]) == 0 && !s.optional {
			a.Bad(fmt.Sprintf("%s#stage:%s", fname(fn), s.name), fn.Pos(), "stage %q does not occur in %s", s.name, fname(fn))
		}
	}
	for j := 0; j < len(stages); j++ {
		for i := 0; i < j; i++ {
			if len(sites[i]) == 0 || len(sites[j]) == 0 {
				continue
			}
			construct := fmt.Sprintf("%s#order:%s<%s", fname(fn), stages[i].name, stages[j].name)
			var bad ssa.Instruction
			var from ssa.Instruction
			for _, late := range sites[j] {
				if hit := reachableAfter(late, stages[i].match, nil); hit != nil {
					bad, from = hit, late
					break
				}
			}
			if bad != nil {
				a.Bad(construct, bad.Pos(), "%s (at %s) can run after %s (at %s): the clauses would be applied in the wrong order", stages[i].name, a.pos(bad.Pos()), stages[j].name, a.pos(from.Pos()))
			} else {
				a.Ok(construct, sites[j][0].Pos(), "%s never runs after %s", stages[i].name, stages[j].name)
			}
		}
	}
}

// ruleDominatedBy: every instruction matching late is dominated by some instruction matching early.
func (a *A) ruleDominatedBy(fn *ssa.Function, construct string, early, late func(ssa.Instruction) bool, okMsg, badMsg string) int {
	var es, ls []ssa.Instruction
	allInstrs(fn, func(in ssa.Instruction) {
		if early(in) {
			es = append(es, in)
		}
		if late(in) {
			ls = append(ls, in)
		}
	})
	for _, l := range ls {
		ok := false
		for _, e := range es {
			if dominatesInstr(e, l) {
				ok = true
			}
		}
		if !ok && len(es) > 0 {
			// path form: the decision may be carried in a flag (`result, emit := ...; if !emit { return }`):
			// is there a feasible path to the late instruction that passes no early one?
			isEarly := map[ssa.Instruction]bool{}
			for _, e := range es {
				isEarly[e] = true
			}
			ok = !explorePaths(fn, l, func(ssa.Value) Tri { return U }, func(in ssa.Instruction) bool { return isEarly[in] }, nil)
		}
		a.Check(ok, construct, l.Pos(), okMsg, badMsg)
	}
	return len(ls)
}

var _ = token.NoPos
