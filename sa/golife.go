package main

// golife.go — E11 goroutine lifecycle rules and the sink-invocation analysis used by C18.

import (
	"go/constant"
	"fmt"
	"go/token"
	"go/types"
	"sort"
	"strings"

	"golang.org/x/tools/go/callgraph"
	"golang.org/x/tools/go/ssa"
)

// SinkInfo: where user sinks are invoked and which functions may invoke one synchronously.
type SinkInfo struct {
	t       *Taint
	calls   []ssa.CallInstruction             // dynamic calls of a sink value
	invokes map[*ssa.Function]bool            // functions that may synchronously run a sink
	via     map[*ssa.Function]ssa.Instruction // an instruction in the function through which it does
}

// sinkInfo computes the sink-invocation facts (cached).
func (a *A) sinkInfo() *SinkInfo {
	if a.sinks != nil {
		return a.sinks
	}
	S := a.Named("stream", "Stream")
	fs := map[*types.Var]bool{a.FieldOf(S, "sinks"): true, a.FieldOf(S, "syncSinks"): true}
	var sources []ssa.Value
	for _, fn := range a.ModFuncs {
		allInstrs(fn, func(in ssa.Instruction) {
			if u, ok := in.(*ssa.UnOp); ok && u.Op == token.MUL {
				if fa, ok := u.X.(*ssa.FieldAddr); ok && fs[fieldVarOf(fa)] {
					sources = append(sources, u)
				}
			}
		})
	}
	t := a.runTaint(sources, nil)
	si := &SinkInfo{t: t, invokes: map[*ssa.Function]bool{}, via: map[*ssa.Function]ssa.Instruction{}}
	for _, fn := range a.ModFuncs {
		allInstrs(fn, func(in ssa.Instruction) {
			ci, ok := in.(ssa.CallInstruction)
			if !ok {
				return
			}
			if _, isGo := in.(*ssa.Go); isGo {
				return
			}
			c := ci.Common()
			if c.IsInvoke() || c.StaticCallee() != nil {
				return
			}
			if _, isB := c.Value.(*ssa.Builtin); isB {
				return
			}
			if t.val[c.Value] >= tElem {
				si.calls = append(si.calls, ci)
				si.invokes[fn] = true
				si.via[fn] = in
			}
		})
	}
	// upward closure over synchronous calls (static, dynamic via VTA; not `go`)
	cg := a.CG()
	changed := true
	for changed {
		changed = false
		for _, fn := range a.ModFuncs {
			if si.invokes[fn] {
				continue
			}
			n := cg.Nodes[fn]
			if n == nil {
				continue
			}
			for _, e := range n.Out {
				if _, isGo := e.Site.(*ssa.Go); isGo {
					continue
				}
				if e.Callee != nil && si.invokes[e.Callee.Func] {
					// dynamic edges: require the called value to be a closure/func that can be this callee
					si.invokes[fn] = true
					si.via[fn] = e.Site
					changed = true
					break
				}
			}
		}
	}
	a.sinks = si
	return si
}

// ruleSinkUnderLock: no user sink is (synchronously) invoked while a module lock is held.
func (a *A) ruleSinkUnderLock() {
	si := a.sinkInfo()
	L := a.Locks()
	cg := a.CG()
	if len(si.calls) == 0 {
		a.Und("sink-under-lock", token.NoPos, "no invocation of a value taken from Stream.sinks/syncSinks found")
		return
	}
	type finding struct {
		in   ssa.Instruction
		held lockSet
		what string
	}
	var bad []finding
	checked := 0
	seen := map[ssa.Instruction]bool{}
	check := func(in ssa.Instruction, what string) {
		if seen[in] {
			return
		}
		seen[in] = true
		held := L.Held(in)
		if held == nil {
			return
		}
		checked++
		if len(held) > 0 {
			bad = append(bad, finding{in, held, what})
		}
	}
	for _, c := range si.calls {
		check(c, "the sink is called")
	}
	for _, fn := range a.ModFuncs {
		n := cg.Nodes[fn]
		if n == nil {
			continue
		}
		for _, e := range n.Out {
			if _, isGo := e.Site.(*ssa.Go); isGo {
				continue
			}
			if _, isDefer := e.Site.(*ssa.Defer); isDefer {
				continue
			}
			if e.Callee != nil && si.invokes[e.Callee.Func] {
				check(e.Site, "a function that runs sinks synchronously ("+fname(e.Callee.Func)+") is called")
			}
		}
	}
	byFn := map[string]finding{}
	for _, f := range bad {
		k := fname(f.in.Parent())
		if _, ok := byFn[k]; !ok {
			byFn[k] = f
		}
	}
	var ks []string
	for k := range byFn {
		ks = append(ks, k)
	}
	sort.Strings(ks)
	for _, k := range ks {
		f := byFn[k]
		a.Bad("sink-under-lock@"+k, f.in.Pos(), "%s while %s is held: a sink that calls back into the instance (AddSink, Stop, …) needs that lock and never returns", f.what, f.held)
	}
	if len(bad) == 0 {
		a.Ok("sink-under-lock", token.NoPos, "%d sink call sites and %d call sites of sink-running functions hold no lock", len(si.calls), checked-len(si.calls))
	}
	var names []string
	for _, c := range si.calls {
		names = append(names, fname(c.Parent()))
	}
	sort.Strings(names)
	a.Info("sink_call_sites", names)
}

// ---------------------------------------------------------------- goroutine lifecycle

type goSite struct {
	In   *ssa.Go
	Fn   *ssa.Function // spawning function
	Body *ssa.Function // goroutine body
}

func (a *A) goSites() []goSite {
	var out []goSite
	for _, fn := range a.ModFuncs {
		if fn.Pkg != nil && strings.Contains(fn.Pkg.Pkg.Path(), "/examples/") {
			continue
		}
		allInstrs(fn, func(in ssa.Instruction) {
			g, ok := in.(*ssa.Go)
			if !ok {
				return
			}
			var body *ssa.Function
			switch v := g.Call.Value.(type) {
			case *ssa.MakeClosure:
				body = v.Fn.(*ssa.Function)
			case *ssa.Function:
				body = v
			}
			if body == nil {
				body = g.Call.StaticCallee()
			}
			out = append(out, goSite{In: g, Fn: fn, Body: body})
		})
	}
	sort.Slice(out, func(i, j int) bool { return out[i].In.Pos() < out[j].In.Pos() })
	return out
}

// cancelLike: a channel that the Stop path closes or cancels: ctx.Done(), a `done` field, or a
// channel the goroutine waits on for initialisation.
func cancelLike(v ssa.Value) bool {
	t := TermOf(v, nil)
	s := t.String()
	if strings.Contains(s, "invoke:Done") || strings.HasSuffix(s, ".done") {
		return true
	}
	return false
}

func timerLike(v ssa.Value) bool {
	// a channel of time.Time is a timer, a ticker or time.After, however it reached this function
	if ch, ok := v.Type().Underlying().(*types.Chan); ok && isTimeTime(ch.Elem()) {
		return true
	}
	s := TermOf(v, nil).String()
	return strings.Contains(s, "time.After(") || strings.HasSuffix(s, ".C") || strings.Contains(s, "time.NewTimer") || strings.Contains(s, "tickChan") || strings.HasPrefix(s, "phi@")
}

// bodyFuncs: the goroutine body plus same-package functions it calls statically (depth <= 2) and its closures.
func (a *A) bodyFuncs(body *ssa.Function) []*ssa.Function {
	seen := map[*ssa.Function]bool{}
	var out []*ssa.Function
	var rec func(f *ssa.Function, d int)
	rec = func(f *ssa.Function, d int) {
		if f == nil || seen[f] || f.Blocks == nil || !a.fnInModule(f) || d > 2 {
			return
		}
		seen[f] = true
		out = append(out, f)
		allInstrs(f, func(in ssa.Instruction) {
			if _, isGo := in.(*ssa.Go); isGo {
				return
			}
			if cal := staticCallee(in); cal != nil && cal.Pkg == body.Pkg {
				rec(cal, d+1)
			}
			if mc, ok := in.(*ssa.MakeClosure); ok {
				rec(mc.Fn.(*ssa.Function), d)
			}
		})
	}
	rec(body, 0)
	return out
}

// loopsOf returns the non-trivial strongly connected components of fn's CFG.
func loopsOf(fn *ssa.Function) [][]*ssa.BasicBlock {
	index := map[*ssa.BasicBlock]int{}
	low := map[*ssa.BasicBlock]int{}
	on := map[*ssa.BasicBlock]bool{}
	var stack []*ssa.BasicBlock
	var out [][]*ssa.BasicBlock
	n := 0
	var strong func(b *ssa.BasicBlock)
	strong = func(b *ssa.BasicBlock) {
		n++
		index[b], low[b] = n, n
		stack = append(stack, b)
		on[b] = true
		for _, s := range b.Succs {
			if index[s] == 0 {
				strong(s)
				if low[s] < low[b] {
					low[b] = low[s]
				}
			} else if on[s] && index[s] < low[b] {
				low[b] = index[s]
			}
		}
		if low[b] == index[b] {
			var comp []*ssa.BasicBlock
			for {
				x := stack[len(stack)-1]
				stack = stack[:len(stack)-1]
				on[x] = false
				comp = append(comp, x)
				if x == b {
					break
				}
			}
			self := false
			for _, s := range b.Succs {
				if s == b {
					self = true
				}
			}
			if len(comp) > 1 || self {
				out = append(out, comp)
			}
		}
	}
	for _, b := range fn.Blocks {
		if index[b] == 0 {
			strong(b)
		}
	}
	return out
}

// lifecycleAdderFor: the function registered as doing the Add for a goroutine body - the table names the body as
// the closure it is in the pinned tree (`spawner$1`); the same goroutine whose body was made a method
// (`go dp.consume()`) is recognised by its spawner when that is the spawner's only go statement.
func lifecycleAdderFor(tab map[string]string, spawner, body *ssa.Function) (string, bool) {
	if ad, ok := tab[fname(body)]; ok {
		return ad, true
	}
	if body.Parent() != nil {
		return "", false
	}
	gos := 0
	allInstrs(spawner, func(in ssa.Instruction) {
		if _, ok := in.(*ssa.Go); ok && in.Parent() == spawner {
			gos++
		}
	})
	if gos != 1 {
		return "", false
	}
	ad, ok := tab[fname(spawner)+"$1"]
	return ad, ok
}

// ruleGoroutines checks every go statement of the module (outside examples).
func (a *A) ruleGoroutines(lifecycleAdders map[string]string) {
	sites := a.goSites()
	a.Info("go_statements", len(sites))
	si := a.sinkInfo()
	for _, gs := range sites {
		name := fname(gs.Fn) + "#go"
		if gs.Body == nil {
			a.Und(name, gs.In.Pos(), "goroutine body is not statically known")
			continue
		}
		bname := fname(gs.Body)
		// (a) blocking loops have a cancellation arm; (b) blocking operations have an alternative
		problems := []string{}
		nLoops, nBlocking := 0, 0
		for _, f := range a.bodyFuncs(gs.Body) {
			for _, comp := range loopsOf(f) {
				blocking := false
				hasCancel := false
				for _, b := range comp {
					for _, in := range b.Instrs {
						switch x := in.(type) {
						case *ssa.Select:
							blocking = true
							for _, st := range x.States {
								if st.Dir == types.RecvOnly && cancelLike(st.Chan) {
									hasCancel = true
								}
							}
						case *ssa.UnOp:
							if x.Op == token.ARROW {
								blocking = true
								if cancelLike(x.X) {
									hasCancel = true
								}
							}
						}
					}
				}
				if !blocking {
					continue
				}
				nLoops++
				if !hasCancel {
					// a loop nested in a cancellable loop is fine if it has a bounded/default select; look for default
					allNonBlocking := true
					for _, b := range comp {
						for _, in := range b.Instrs {
							if sel, ok := in.(*ssa.Select); ok && sel.Blocking {
								allNonBlocking = false
							}
							if u, ok := in.(*ssa.UnOp); ok && u.Op == token.ARROW {
								allNonBlocking = false
							}
						}
					}
					if !allNonBlocking {
						problems = append(problems, fmt.Sprintf("a blocking loop in %s (around %s) has no case on a cancellation channel (ctx.Done()/done): Stop cannot end it", fname(f), a.pos(comp[0].Instrs[0].Pos())))
					}
				}
			}
			allInstrs(f, func(in ssa.Instruction) {
				switch x := in.(type) {
				case *ssa.Send:
					nBlocking++
					problems = append(problems, fmt.Sprintf("a bare blocking send at %s (no select with a cancel/timeout/default arm)", a.pos(x.Pos())))
				case *ssa.UnOp:
					if x.Op == token.ARROW {
						nBlocking++
						if !cancelLike(x.X) && !timerLike(x.X) && !a.closedOnGoroutineExit(x.X) {
							problems = append(problems, fmt.Sprintf("a bare blocking receive from %s at %s (no select with a cancel/timeout/default arm)", TermOf(x.X, nil), a.pos(x.Pos())))
						}
					}
				case *ssa.Select:
					if !x.Blocking {
						return
					}
					nBlocking++
					ok := false
					for _, st := range x.States {
						if st.Dir == types.RecvOnly && (cancelLike(st.Chan) || timerLike(st.Chan)) {
							ok = true
						}
					}
					if !ok {
						problems = append(problems, fmt.Sprintf("a blocking select at %s has no cancel or timeout arm", a.pos(x.Pos())))
					}
				}
			})
		}
		if len(problems) == 0 {
			a.Ok(name+":"+bname+"#cancellable", gs.In.Pos(), "%d blocking loop(s) and %d blocking operation(s) all have a cancellation / timeout / default alternative", nLoops, nBlocking)
		} else {
			a.Bad(name+":"+bname+"#cancellable", gs.In.Pos(), "%s", strings.Join(problems, "; "))
		}
		// (c) WaitGroup discipline: a body that defers wg.Done() has a matching Add before the go
		var doneField *types.Var
		allInstrs(gs.Body, func(in ssa.Instruction) {
			if d, ok := in.(*ssa.Defer); ok {
				if cal := d.Call.StaticCallee(); cal != nil && cal.Name() == "Done" && isNamedType(cal.Signature.Recv().Type(), "sync", "WaitGroup") {
					doneField = fieldVarOf(d.Call.Args[0])
				}
			}
		})
		if doneField != nil {
			isAdd := func(in ssa.Instruction) bool {
				c, ok := in.(*ssa.Call)
				if !ok {
					return false
				}
				cal := c.Call.StaticCallee()
				return cal != nil && cal.Name() == "Add" && isNamedType(cal.Signature.Recv().Type(), "sync", "WaitGroup") && fieldVarOf(c.Call.Args[0]) == doneField
			}
			local := false
			allInstrs(gs.Fn, func(in ssa.Instruction) {
				if isAdd(in) && dominatesInstr(in, gs.In) {
					local = true
				}
			})
			if !local {
				// the Add sits in a branch whose condition is tested again before the go (`if !stopped { Add }` …
				// `if stopped { return }` … `go`): no feasible path reaches the go statement without an Add
				hasAdd := false
				allInstrs(gs.Fn, func(in ssa.Instruction) {
					if isAdd(in) && in.Parent() == gs.Fn {
						hasAdd = true
					}
				})
				if hasAdd && len(gs.Fn.Blocks) > 0 && !explorePathsX(gs.Fn, nil, nil, func(x ssa.Instruction) bool { return x == gs.In }, func(ssa.Value) Tri { return U }, isAdd, nil) {
					local = true
				}
			}
			if local {
				a.Ok(name+":"+bname+"#wg-add-before-go", gs.In.Pos(), "%s.Add precedes the go statement", doneField.Name())
			} else if adder, ok := lifecycleAdderFor(lifecycleAdders, gs.Fn, gs.Body); ok {
				// registered elsewhere: that function must contain the Add
				found := false
				for _, f := range a.ModFuncs {
					if fname(f) == adder {
						allInstrs(f, func(in ssa.Instruction) {
							if isAdd(in) {
								found = true
							}
						})
					}
				}
				a.Check(found, name+":"+bname+"#wg-add-before-go", gs.In.Pos(), doneField.Name()+".Add is done in "+adder+" before the pipeline starts", "the goroutine defers "+doneField.Name()+".Done() but "+adder+" no longer calls Add for it: the WaitGroup counter goes negative / Stop does not wait for it")
			} else {
				a.Bad(name+":"+bname+"#wg-add-before-go", gs.In.Pos(), "the goroutine defers %s.Done() but no %s.Add dominates the go statement: Wait can return before the goroutine is counted, or the counter goes negative", doneField.Name(), doneField.Name())
			}
		}
		// (d) goroutines that may run user sinks: counted in Stream.lifecycle and protected by recover
		if si.invokes[gs.Body] {
			counted := doneField != nil && doneField.Name() == "lifecycle"
			a.Check(counted, name+":"+bname+"#sink-goroutine-joined", gs.In.Pos(), "this goroutine can run user sinks and is joined by Stop (lifecycle.Done deferred)", "this goroutine can run user sinks (via "+a.pos(si.via[gs.Body].Pos())+") but is not counted in Stream.lifecycle: a sink could still be running after Stop returned")
		}
	}
}

// hasRecover: fn defers a closure that calls recover().
func hasRecover(fn *ssa.Function) bool {
	res := false
	allInstrs(fn, func(in ssa.Instruction) {
		d, ok := in.(*ssa.Defer)
		if !ok {
			return
		}
		var body *ssa.Function
		switch v := d.Call.Value.(type) {
		case *ssa.MakeClosure:
			body = v.Fn.(*ssa.Function)
		case *ssa.Function:
			body = v
		}
		if body == nil {
			return
		}
		allInstrs(body, func(x ssa.Instruction) {
			if c, ok := x.(*ssa.Call); ok {
				if b, ok := c.Call.Value.(*ssa.Builtin); ok && b.Name() == "recover" {
					res = true
				}
			}
		})
	})
	return res
}

var _ = callgraph.Edge{}

// ---------------------------------------------------------------- captured variables rewritten by a loop

// closureRetained: may the closure value v outlive the statement that created it (stored, returned,
// started as a goroutine, deferred, or handed to a function that keeps it)?
func (a *A) closureRetained(v ssa.Value, depth int) (bool, string) {
	if depth > 3 {
		return true, "call depth exceeded"
	}
	for x := range flowsForward(v) {
		refs := x.Referrers()
		if refs == nil {
			continue
		}
		for _, r := range *refs {
			switch u := r.(type) {
			case *ssa.Return:
				return true, "returned from " + fname(u.Parent())
			case *ssa.Store:
				if u.Val == x {
					if _, local := u.Addr.(*ssa.Alloc); !local {
						return true, "stored to " + TermOf(u.Addr, nil).String()
					}
				}
			case *ssa.MapUpdate:
				if u.Value == x {
					return true, "stored in a map"
				}
			case *ssa.Send:
				if u.X == x {
					return true, "sent on a channel"
				}
			case *ssa.MakeClosure:
				if ok, why := a.closureRetained(u, depth+1); ok {
					return true, "captured by a closure that is " + why
				}
			case *ssa.Go:
				return true, "started as a goroutine"
			case *ssa.Defer:
				return true, "deferred to function exit"
			case *ssa.Call:
				if u.Call.Value == x {
					continue // invoked on the spot
				}
				callee := u.Call.StaticCallee()
				if callee == nil {
					return true, "passed to a dynamic call"
				}
				if !a.fnInModule(callee) {
					if callee.Pkg != nil && syncHigherOrderPkgs[callee.Pkg.Pkg.Path()] {
						continue
					}
					return true, "passed to " + fname(callee)
				}
				for i, arg := range u.Call.Args {
					if arg == x && i < len(callee.Params) && callee.Blocks != nil {
						if ok, why := a.closureRetained(callee.Params[i], depth+1); ok {
							return true, "passed to " + fname(callee) + ", where it is " + why
						}
					}
				}
			}
		}
	}
	return false, ""
}

// ruleCapturedLoopVariable: a closure that outlives the iteration which created it must not capture
// a variable that a later iteration overwrites (the module's go directive is below 1.22, so the
// variable of a for/range statement is one variable for the whole loop): every closure would then see
// the value of the last iteration. Decided on the SSA form, where such a variable is an Alloc outside
// the cycle through the closure's creation that is stored to on that cycle.
func (a *A) ruleCapturedLoopVariable(pkgs map[*ssa.Package]bool) int {
	n := 0
	for _, fn := range a.ModFuncs {
		if fn.Pkg == nil || pkgs != nil && !pkgs[fn.Pkg] {
			continue
		}
		allInstrs(fn, func(in ssa.Instruction) {
			mc, ok := in.(*ssa.MakeClosure)
			if !ok {
				return
			}
			mb := mc.Block()
			// is the creation site on a cycle at all?
			onCycle := false
			for _, s := range mb.Succs {
				if reachesAvoiding(s, mb, nil) {
					onCycle = true
				}
			}
			if !onCycle {
				return
			}
			n++
			construct := fname(mc.Fn.(*ssa.Function)) + "#captures"
			for _, bnd := range mc.Bindings {
				al, ok := bnd.(*ssa.Alloc)
				if !ok {
					continue
				}
				ab := al.Block()
				if ab == mb {
					continue // allocated in the iteration that creates the closure
				}
				recreated := false
				for _, s := range mb.Succs {
					if reachesAvoiding(s, mb, ab) {
						recreated = true
					}
				}
				if !recreated {
					continue
				}
				// stored to on a cycle through the creation site that avoids the allocation
				var rewrite *ssa.Store
				for _, r := range *al.Referrers() {
					st, ok := r.(*ssa.Store)
					if !ok || st.Addr != ssa.Value(al) || st.Block() == ab {
						continue
					}
					sb := st.Block()
					if sb == mb || (reachesAvoidingFrom(mb, sb, ab) && reachesAvoidingFrom(sb, mb, ab)) {
						rewrite = st
						break
					}
				}
				if rewrite == nil {
					continue
				}
				if kept, why := a.closureRetained(mc, 0); kept {
					a.Bad(construct, mc.Pos(), "the closure captures %s, which the loop overwrites at %s on every iteration, and is %s: after the loop every such closure sees the last iteration's value", al.Comment, a.pos(rewrite.Pos()), why)
					return
				}
			}
			a.Ok(construct, mc.Pos(), "no captured variable is overwritten by a later iteration while the closure is retained")
		})
	}
	return n
}

// reachesAvoidingFrom: can block 'to' be reached from a successor of 'from' without entering 'avoid'?
func reachesAvoidingFrom(from, to, avoid *ssa.BasicBlock) bool {
	for _, s := range from.Succs {
		if reachesAvoiding(s, to, avoid) {
			return true
		}
	}
	return false
}


// ---------------------------------------------------------------- registered goroutines are spawned

// mustCallOrExcuse: on every path of fn from entry to a return, a call of target (directly, or of a
// module function that itself always calls it) is executed, or a branch edge accepted by excuse is
// taken. Returns the offending return instruction, or nil.
func (a *A) mustCallOrExcuse(fn, target *ssa.Function, excuse func(iff *ssa.If) (onTrue, onFalse bool), depth int) ssa.Instruction {
	if fn.Blocks == nil {
		return nil
	}
	type st struct {
		b  *ssa.BasicBlock
		ok bool
	}
	seen := map[st]bool{}
	var bad ssa.Instruction
	var dfs func(b *ssa.BasicBlock, ok bool)
	dfs = func(b *ssa.BasicBlock, ok bool) {
		if bad != nil || seen[st{b, ok}] {
			return
		}
		seen[st{b, ok}] = true
		for _, in := range b.Instrs {
			if cc := callCommon(in); cc != nil {
				if _, isGo := in.(*ssa.Go); !isGo {
					if callee := cc.StaticCallee(); callee != nil {
						if callee == target {
							ok = true
						} else if depth < 2 && a.fnInModule(callee) && a.CGReaches(callee, target) &&
							a.mustCallOrExcuse(callee, target, func(*ssa.If) (bool, bool) { return false, false }, depth+1) == nil {
							ok = true
						}
					}
				}
			}
			if r, isRet := in.(*ssa.Return); isRet && !ok {
				bad = r
				return
			}
		}
		if iff, isIf := b.Instrs[len(b.Instrs)-1].(*ssa.If); isIf {
			onT, onF := excuse(iff)
			dfs(b.Succs[0], ok || onT)
			dfs(b.Succs[1], ok || onF)
			return
		}
		for _, s := range b.Succs {
			dfs(s, ok)
		}
	}
	dfs(fn.Blocks[0], false)
	return bad
}

// CGReaches: is target reachable from fn over the call graph (module functions only)?
func (a *A) CGReaches(fn, target *ssa.Function) bool {
	return a.ReachFrom([]*ssa.Function{fn})[target]
}

// ruleRegisteredGoroutinesSpawned: Start counts a goroutine in Stream.lifecycle before it exists
// (lifecycle.Add under a condition C), and the goroutine that calls lifecycle.Done is started later,
// by the function the pipeline goroutine runs. Every path of that function to a return must start it,
// unless the path took the branch on which C is false; otherwise the count never drops and Stop waits
// out its whole grace period (and its watcher goroutine stays parked).
func (a *A) ruleRegisteredGoroutinesSpawned() int {
	S := a.Named("stream", "Stream")
	life := a.FieldOf(S, "lifecycle")
	start := a.Method("stream", "Stream", "Start")
	isLife := func(cc *ssa.CallCommon, name string) bool {
		f := cc.StaticCallee()
		return f != nil && f.Name() == name && len(cc.Args) > 0 && fieldAddrIs(cc.Args[0], life)
	}
	// conditional Adds in Start, with the guarding field
	type add struct {
		in    ssa.Instruction
		guard *types.Var
	}
	var adds []add
	allInstrs(start, func(in ssa.Instruction) {
		cc := callCommon(in)
		if cc == nil || !isLife(cc, "Add") || in.Parent() != start {
			return
		}
		var g *types.Var
		for _, gd := range guardsOf(in.Block()) {
			if t := TermOf(gd.Cond, nil); gd.Sense && t.Kind == "field" && t.Field != nil {
				g = t.Field
			}
		}
		// one Add of a computed count (`n := 1; if cfg.NeedWindow { n = 2 }; lifecycle.Add(n)`): the count above the
		// smallest one is registered under the condition of the branch that raised it
		if phi, isPhi := cc.Args[len(cc.Args)-1].(*ssa.Phi); isPhi && g == nil {
			leaves := phiLeafEdges(phi)
			min, allK := int64(1<<62), len(leaves) > 0
			vals := map[ssa.Value]int64{}
			for _, l := range leaves {
				kv, isK := smallConstInt(l.v, 0)
				if !isK {
					allK = false
					break
				}
				vals[l.v] = kv
				if kv < min {
					min = kv
				}
			}
			if allK {
				adds = append(adds, add{in, nil})
				for _, l := range leaves {
					if vals[l.v] <= min || l.from == nil {
						continue
					}
					for _, gd := range guardsOf(l.from) {
						if t := TermOf(gd.Cond, nil); gd.Sense && t.Kind == "field" && t.Field != nil {
							adds = append(adds, add{in, t.Field})
						}
					}
				}
				return
			}
		}
		adds = append(adds, add{in, g})
	})
	// the pipeline function: static callee invoked in Start's own go body
	var pipeline *ssa.Function
	// the bodies of the goroutines Start spawns: closures, or named functions/methods started with go
	var bodies []*ssa.Function
	bodies = append(bodies, start.AnonFuncs...)
	allInstrs(start, func(in ssa.Instruction) {
		if g, ok := in.(*ssa.Go); ok {
			if f := g.Call.StaticCallee(); f != nil && a.fnInModule(f) && f.Blocks != nil {
				bodies = append(bodies, f)
			}
		}
	})
	for _, af := range bodies {
		if af.Name() == "Process" {
			pipeline = af
		}
		allInstrs(af, func(in ssa.Instruction) {
			if cc := callCommon(in); cc != nil {
				if f := cc.StaticCallee(); f != nil && a.fnInModule(f) && f.Name() == "Process" {
					pipeline = f
				}
			}
		})
	}
	if pipeline == nil {
		a.anchorFail("Start does not run a pipeline function in its goroutine")
	}
	// spawners: module functions (other than Start) containing a go whose body defers lifecycle.Done
	var spawners []*ssa.Function
	for _, fn := range a.ModFuncs {
		if fn == start || fn.Parent() == start {
			continue
		}
		allInstrs(fn, func(in ssa.Instruction) {
			g, ok := in.(*ssa.Go)
			if !ok || in.Parent() != fn {
				return
			}
			var body *ssa.Function
			if mc, ok := g.Call.Value.(*ssa.MakeClosure); ok {
				body = mc.Fn.(*ssa.Function)
			} else if sc := g.Call.StaticCallee(); sc != nil && sc.Blocks != nil && a.fnInModule(sc) {
				body = sc // `go dp.consume()`: the goroutine body is a method
			}
			if body == nil {
				return
			}
			allInstrs(body, func(x ssa.Instruction) {
				if d, ok := x.(*ssa.Defer); ok && isLife(&d.Call, "Done") && a.CGReaches(pipeline, fn) {
					spawners = append(spawners, fn)
				}
			})
		})
	}
	n := 0
	for _, ad := range adds {
		if ad.guard == nil {
			continue // the pipeline goroutine itself, started right below in Start
		}
		for _, sp := range spawners {
			n++
			g := ad.guard
			bad := a.mustCallOrExcuse(pipeline, sp, func(iff *ssa.If) (bool, bool) {
				c := iff.Cond
				pos := true
				for {
					if u, ok := c.(*ssa.UnOp); ok && u.Op == token.NOT {
						c, pos = u.X, !pos
						continue
					}
					break
				}
				if t := TermOf(c, nil); t.Kind == "field" && t.Field == g {
					return !pos, pos
				}
				return false, false
			}, 0)
			construct := fmt.Sprintf("%s#spawns-%s-when-%s", fname(pipeline), sp.Name(), g.Name())
			if bad == nil {
				a.Ok(construct, ad.in.Pos(), "every path of %s to a return starts the goroutine counted by Start under %s (via %s), or took the branch where %s is false", fname(pipeline), g.Name(), fname(sp), g.Name())
			} else {
				a.Bad(construct, bad.Pos(), "%s can return without having started the goroutine that Start counted in lifecycle under %s (spawned by %s): lifecycle.Done is never called for it, Stop waits out its grace period with nothing in flight and its watcher goroutine stays parked", fname(pipeline), g.Name(), fname(sp))
			}
		}
	}
	if n == 0 {
		a.Und("lifecycle-registered-spawns", start.Pos(), "no conditional lifecycle.Add / later spawn pair found (adds=%d spawners=%d)", len(adds), len(spawners))
	}
	return n
}


// closedOnGoroutineExit: ch is a struct field that some goroutine of the module closes in a deferred statement
// (`defer close(wm.loopDone)` at the top of the goroutine's function): a receive from it is a join on that
// goroutine, released when the goroutine returns - and the goroutine's own loop is judged by this rule
// (cancellable) where it is started. The wait is as bounded as the goroutine it waits for.
func (a *A) closedOnGoroutineExit(ch ssa.Value) bool {
	f := chanField(ch)
	if f == nil {
		return false
	}
	started := map[*ssa.Function]bool{}
	for _, fn := range a.ModFuncs {
		allInstrs(fn, func(in ssa.Instruction) {
			if g, ok := in.(*ssa.Go); ok {
				if cal := g.Call.StaticCallee(); cal != nil {
					started[cal] = true
				}
				if mc, ok := g.Call.Value.(*ssa.MakeClosure); ok {
					if lit, ok := mc.Fn.(*ssa.Function); ok {
						started[lit] = true
					}
				}
			}
		})
	}
	found := false
	for fn := range started {
		allInstrs(fn, func(in ssa.Instruction) {
			d, ok := in.(*ssa.Defer)
			if !ok {
				return
			}
			if b, isB := d.Call.Value.(*ssa.Builtin); isB && b.Name() == "close" && len(d.Call.Args) == 1 && chanField(d.Call.Args[0]) == f {
				found = true
			}
		})
	}
	return found
}


// smallConstInt: v is an integer constant, or a sum of such (`tracked := 1; tracked++` is 1 + 1 in SSA form).
func smallConstInt(v ssa.Value, d int) (int64, bool) {
	if d > 4 {
		return 0, false
	}
	switch x := v.(type) {
	case *ssa.Const:
		if x.Value != nil && x.Value.Kind() == constant.Int {
			return x.Int64(), true
		}
	case *ssa.BinOp:
		if x.Op == token.ADD {
			a, oka := smallConstInt(x.X, d+1)
			b, okb := smallConstInt(x.Y, d+1)
			if oka && okb {
				return a + b, true
			}
		}
	}
	return 0, false
}
