package main

// term.go — access paths ("terms") for SSA values. go/ssa performs no CSE, so
// "the same slot", "the same bound" are decided on structural access paths
// (receiver + field chain, call with equal argument terms), not on value identity.
// Pointer indirection is ignored: tw.currentSlot.End names the time value whether
// reached through pointers or struct copies.

import (
	"fmt"
	"go/constant"
	"go/token"
	"go/types"
	"strings"

	"golang.org/x/tools/go/ssa"
)

type Term struct {
	Kind  string // param, free, field, index, mapkey, mapval, call, const, global, phi, bin, un, alloc, extract, opaque, len, closure
	Base  *Term
	Field *types.Var
	Fn    *ssa.Function // call: static callee; param: owning function
	Name  string        // call: callee name for non-static; bin/un: operator; param: name
	Idx   int
	Args  []*Term
	Const constant.Value
	Val   ssa.Value
	Typ   types.Type
	Epoch int // field loads inside an ordtab walk: stores to the field passed before the load
}

func (t *Term) String() string {
	if t == nil {
		return "<nil>"
	}
	switch t.Kind {
	case "param":
		if t.Idx == 0 && t.Fn != nil && t.Fn.Signature.Recv() != nil {
			return "recv"
		}
		return fmt.Sprintf("p%d", t.Idx)
	case "free":
		return "free:" + t.Name
	case "field":
		if t.Epoch > 0 {
			return fmt.Sprintf("%s.%s@%d", t.Base.String(), t.Field.Name(), t.Epoch)
		}
		return t.Base.String() + "." + t.Field.Name()
	case "index":
		return t.Base.String() + "[]"
	case "mapkey":
		return "key(" + t.Base.String() + ")"
	case "mapval":
		return "val(" + t.Base.String() + ")"
	case "call":
		var as []string
		for _, a := range t.Args {
			as = append(as, a.String())
		}
		return t.Name + "(" + strings.Join(as, ",") + ")"
	case "const":
		if t.Const == nil {
			return "nil"
		}
		return t.Const.ExactString()
	case "global":
		return "global:" + t.Name
	case "bin":
		return "(" + t.Args[0].String() + t.Name + t.Args[1].String() + ")"
	case "un":
		return t.Name + t.Args[0].String()
	case "len":
		return "len(" + t.Base.String() + ")"
	case "extract":
		return fmt.Sprintf("%s#%d", t.Base.String(), t.Idx)
	case "phi":
		return fmt.Sprintf("phi@%s", t.Name)
	case "alloc":
		return "local:" + t.Name
	case "closure":
		return "closure:" + t.Name
	}
	return "opaque:" + t.Name
}

// LastField returns the field var and its owner struct's named type if the term is a field access.
func (t *Term) LastField() (owner string, field string) {
	if t == nil || t.Kind != "field" {
		return "", ""
	}
	return ownerName(t.Base.Typ), t.Field.Name()
}

func ownerName(t types.Type) string {
	for {
		switch tt := t.(type) {
		case *types.Pointer:
			t = tt.Elem()
			continue
		case *types.Named:
			if tt.Obj().Pkg() != nil {
				return relPath(tt.Obj().Pkg().Path()) + "." + tt.Obj().Name()
			}
			return tt.Obj().Name()
		}
		return ""
	}
}

// frame binds callee parameters to caller terms when a helper is inlined.
type frame struct {
	fn   *ssa.Function
	args []*Term
	free []*Term
}

type termer struct {
	depth   int
	memo    map[ssa.Value]*Term
	fr      *frame
	tagOf   func(v ssa.Value) int         // epoch of a field load (ordtab walker); nil outside walks
	phiOf   func(p *ssa.Phi) ssa.Value    // the edge a phi took on the current path (ordtab walker)
	localOf func(al *ssa.Alloc) ssa.Value // the value last stored into a local on the current path
}

func newTermer(fr *frame) *termer { return &termer{memo: map[ssa.Value]*Term{}, fr: fr} }

// TermOf computes the access path of v within function frame fr (fr may be nil: top level).
func TermOf(v ssa.Value, fr *frame) *Term {
	return newTermer(fr).of(v)
}

func (tm *termer) of(v ssa.Value) *Term {
	if v == nil {
		return &Term{Kind: "opaque", Name: "nil"}
	}
	if t, ok := tm.memo[v]; ok {
		if t == nil {
			return &Term{Kind: "phi", Name: v.Name(), Val: v, Typ: v.Type()}
		}
		return t
	}
	tm.memo[v] = nil // cycle guard
	tm.depth++
	t := tm.of1(v)
	tm.depth--
	if t.Typ == nil {
		t.Typ = v.Type()
	}
	if t.Val == nil {
		t.Val = v
	}
	tm.memo[v] = t
	return t
}

func (tm *termer) of1(v ssa.Value) *Term {
	if tm.depth > 40 {
		return &Term{Kind: "opaque", Name: v.Name()}
	}
	switch x := v.(type) {
	case *ssa.Parameter:
		fn := x.Parent()
		idx := -1
		for i, p := range fn.Params {
			if p == x {
				idx = i
			}
		}
		if tm.fr != nil && tm.fr.fn == fn && idx >= 0 && idx < len(tm.fr.args) && tm.fr.args[idx] != nil {
			return tm.fr.args[idx]
		}
		return &Term{Kind: "param", Idx: idx, Fn: fn, Name: x.Name()}
	case *ssa.FreeVar:
		fn := x.Parent()
		idx := -1
		for i, p := range fn.FreeVars {
			if p == x {
				idx = i
			}
		}
		if tm.fr != nil && tm.fr.fn == fn && idx >= 0 && idx < len(tm.fr.free) && tm.fr.free[idx] != nil {
			return tm.fr.free[idx]
		}
		// resolve through the MakeClosure in the parent
		if par := fn.Parent(); par != nil && idx >= 0 {
			for _, b := range par.Blocks {
				for _, in := range b.Instrs {
					if mc, ok := in.(*ssa.MakeClosure); ok && mc.Fn == fn && idx < len(mc.Bindings) {
						sub := newTermer(nil)
						return sub.of(mc.Bindings[idx])
					}
				}
			}
		}
		return &Term{Kind: "free", Name: x.Name(), Idx: idx, Fn: fn}
	case *ssa.Const:
		return &Term{Kind: "const", Const: x.Value}
	case *ssa.Global:
		return &Term{Kind: "global", Name: x.Name()}
	case *ssa.Function:
		return &Term{Kind: "closure", Name: fname(x), Fn: x}
	case *ssa.MakeClosure:
		return &Term{Kind: "closure", Name: fname(x.Fn.(*ssa.Function)), Fn: x.Fn.(*ssa.Function)}
	case *ssa.Alloc:
		// address of a local: the value last stored on the walked path, else its only whole store
		if tm.localOf != nil {
			if lv := tm.localOf(x); lv != nil {
				return tm.of(lv)
			}
		}
		if sv := singleStore(x); sv != nil {
			return tm.of(sv)
		}
		return &Term{Kind: "alloc", Name: allocName(x)}
	case *ssa.UnOp:
		switch x.Op {
		case token.MUL:
			if _, ok := x.X.(*ssa.FieldAddr); ok && tm.tagOf != nil {
				if e := tm.tagOf(x); e > 0 {
					b := *tm.of(x.X)
					b.Epoch = e
					b.Val = nil
					b.Typ = nil
					return &b
				}
			}
			return tm.of(x.X)
		case token.ARROW:
			return &Term{Kind: "call", Name: "recv", Args: []*Term{tm.of(x.X)}}
		default:
			return &Term{Kind: "un", Name: x.Op.String(), Args: []*Term{tm.of(x.X)}}
		}
	case *ssa.FieldAddr:
		base := tm.of(x.X)
		st := derefStruct(x.X.Type())
		if st == nil {
			return &Term{Kind: "opaque", Name: x.Name()}
		}
		return &Term{Kind: "field", Base: base, Field: st.Field(x.Field)}
	case *ssa.Field:
		base := tm.of(x.X)
		st := derefStruct(x.X.Type())
		if st == nil {
			return &Term{Kind: "opaque", Name: x.Name()}
		}
		return &Term{Kind: "field", Base: base, Field: st.Field(x.Field)}
	case *ssa.IndexAddr:
		return &Term{Kind: "index", Base: tm.of(x.X)}
	case *ssa.Index:
		return &Term{Kind: "index", Base: tm.of(x.X)}
	case *ssa.Lookup:
		return &Term{Kind: "index", Base: tm.of(x.X)}
	case *ssa.Slice:
		return tm.of(x.X)
	case *ssa.Convert:
		return tm.of(x.X)
	case *ssa.ChangeType:
		return tm.of(x.X)
	case *ssa.ChangeInterface:
		return tm.of(x.X)
	case *ssa.MakeInterface:
		return tm.of(x.X)
	case *ssa.TypeAssert:
		if x.CommaOk {
			// the (value, ok) tuple: its ok component depends on the asserted type
			return &Term{Kind: "call", Name: "assert<" + types.TypeString(x.AssertedType, nil) + ">", Args: []*Term{tm.of(x.X)}}
		}
		return tm.of(x.X)
	case *ssa.Extract:
		if nx, ok := x.Tuple.(*ssa.Next); ok {
			if rg, ok := nx.Iter.(*ssa.Range); ok {
				base := tm.of(rg.X)
				if x.Index == 1 {
					return &Term{Kind: "mapkey", Base: base}
				}
				if x.Index == 2 {
					return &Term{Kind: "mapval", Base: base}
				}
			}
		}
		if ta, ok := x.Tuple.(*ssa.TypeAssert); ok && x.Index == 0 {
			return tm.of(ta.X)
		}
		if lk, ok := x.Tuple.(*ssa.Lookup); ok && x.Index == 0 {
			return &Term{Kind: "index", Base: tm.of(lk.X)}
		}
		return &Term{Kind: "extract", Base: tm.of(x.Tuple), Idx: x.Index}
	case *ssa.BinOp:
		return &Term{Kind: "bin", Name: x.Op.String(), Args: []*Term{tm.of(x.X), tm.of(x.Y)}}
	case *ssa.Call:
		return tm.call(&x.Call, x)
	case *ssa.Phi:
		if tm.phiOf != nil {
			if pv := tm.phiOf(x); pv != nil && pv != v {
				return tm.of(pv)
			}
		}
		var first *Term
		same := true
		for _, e := range x.Edges {
			te := tm.of(e)
			if te.Kind == "phi" && te.Val == v {
				continue
			}
			if first == nil {
				first = te
			} else if first.String() != te.String() {
				same = false
			}
		}
		if same && first != nil {
			return first
		}
		return &Term{Kind: "phi", Name: x.Name()}
	}
	return &Term{Kind: "opaque", Name: v.Name()}
}

func (tm *termer) call(c *ssa.CallCommon, v ssa.Value) *Term {
	t := &Term{Kind: "call"}
	if b, ok := c.Value.(*ssa.Builtin); ok {
		if b.Name() == "len" && len(c.Args) == 1 {
			return &Term{Kind: "len", Base: tm.of(c.Args[0])}
		}
		t.Name = b.Name()
	} else if callee := c.StaticCallee(); callee != nil {
		t.Fn = callee
		t.Name = fname(callee)
	} else if c.IsInvoke() {
		t.Name = "invoke:" + c.Method.Name()
		t.Args = append(t.Args, tm.of(c.Value))
	} else {
		t.Name = "dyn:" + tm.of(c.Value).String()
	}
	for _, a := range c.Args {
		t.Args = append(t.Args, tm.of(a))
	}
	return t
}

func allocName(x *ssa.Alloc) string {
	if x.Comment != "" {
		return x.Comment
	}
	return x.Name()
}

// singleStore returns the value of the only whole-variable store to the alloc, or nil.
// Field/index stores through the alloc do not count (they refine a copy).
func singleStore(al *ssa.Alloc) ssa.Value {
	var found ssa.Value
	n := 0
	for _, r := range *al.Referrers() {
		if st, ok := r.(*ssa.Store); ok && st.Addr == al {
			n++
			found = st.Val
		}
	}
	if n == 1 {
		return found
	}
	return nil
}

func derefStruct(t types.Type) *types.Struct {
	if p, ok := t.Underlying().(*types.Pointer); ok {
		t = p.Elem()
	}
	st, _ := t.Underlying().(*types.Struct)
	return st
}

// isTimeTime reports whether t is time.Time or *time.Time.
func isTimeTime(t types.Type) bool {
	if p, ok := t.(*types.Pointer); ok {
		t = p.Elem()
	}
	n, ok := t.(*types.Named)
	return ok && n.Obj().Pkg() != nil && n.Obj().Pkg().Path() == "time" && n.Obj().Name() == "Time"
}
