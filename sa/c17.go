package main

import (
	"fmt"
	"go/constant"
	"go/token"
	"go/types"
	"sort"
	"strings"

	"golang.org/x/tools/go/ssa"
)

func init() {
	register(&Prop{
		ID:         "C17",
		Decided:    "(1) the group key encoder is uniquely decodable and NULL-distinct (keyenc); (2) in processRow the row is fed to the group's aggregates before the predicate is evaluated, delivery is reachable only on the true edge of shouldFire, and on every firing path the group is deleted (under its own key, while the lock is still held) before the lock is released for delivery — the group restarts empty and cannot fire twice; (3) each new group gets its own accumulators (prototype.New()), never the prototype; (3b) every aggregate reference of the predicate gets a placeholder numbered by its position (per-spec running aggregates cannot be shared and fed twice); (4) shouldFire binds each placeholder to exactly the aggregate of its spec (the output alias when reused, its own trigger aggregate otherwise); (5) every aggregate name recognised inside TRIGGER WHEN is registered as an aggregator; (6) only the Start goroutine receives from triggerChan; groups/stopped are accessed under gw.mu. Also: in the window's methods that send on its output channel, every receive from that channel (drop-oldest eviction) is followed on every path by an increment of droppedCount (flow/evicted-result-counted). Also: in processRow every path from feeding the row into the aggregates to a return passes the evaluation of TRIGGER WHEN (flow/trigger-evaluated-every-row). Also: newGroupState creates an instance of every output and every trigger-only aggregate (aggstate/fresh-group#instances-at-creation): an aggregate without input reports its empty value (COUNT = 0), not 'missing'.",
		NotDecided: "the textual rewriting of the predicate and its binding to SELECT aggregates (regex based), aggregate values, NULL inputs' effect on values.",
		Run:        runC17,
	})
}

func runC17(a *A) {
	a.Rule("keyenc/global", 1, func() { a.keyencRule("window", "GlobalWindow", "getKeyAndValues", keyencOpts{}) })
	a.Rule("flow/trigger-evaluated-every-row", 1, func() { a.ruleTriggerEvaluatedEveryRow() })
	a.Rule("flow/evicted-result-counted", 1, func() { a.ruleEvictedResultCounted(a.Named("window", "GlobalWindow")) })
	a.Rule("flow/fire-and-purge", 5, func() {
		entry := a.Method("window", "GlobalWindow", "processRow")
		W := a.Named("window", "GlobalWindow")
		groups := a.FieldOf(W, "groups")
		muF := a.FieldOf(W, "mu")
		sf := a.Method("window", "GlobalWindow", "shouldFire")
		deliver := a.Method("window", "GlobalWindow", "deliver")
		isCall := func(f *ssa.Function) func(ssa.Instruction) bool {
			return func(in ssa.Instruction) bool { return staticCallee(in) == f }
		}
		isFeed := func(in ssa.Instruction) bool {
			c := staticCallee(in)
			return c != nil && (c.Name() == "feedAggs" || c.Name() == "feedTriggerAggs")
		}
		direct := func(f *ssa.Function, pred func(ssa.Instruction) bool) []ssa.Instruction {
			var out []ssa.Instruction
			allInstrs(f, func(in ssa.Instruction) {
				if _, isDefer := in.(*ssa.Defer); !isDefer && pred(in) {
					out = append(out, in)
				}
			})
			return out
		}
		// the host of the locked update: processRow itself, or - when the update was moved into a frame of its
		// own that processRow calls (a helper unknown to the inventory, kept as a call because it defers the
		// unlock) - that helper
		fn := entry
		var hostCall *ssa.Call
		if len(direct(entry, isCall(sf))) == 0 {
			allInstrs(entry, func(in ssa.Instruction) {
				c, ok := in.(*ssa.Call)
				if !ok {
					return
				}
				if h := c.Call.StaticCallee(); h != nil && isNewFunc(h) && len(direct(h, isCall(sf))) > 0 {
					fn, hostCall = h, c
				}
			})
		}
		n := a.ruleDominatedBy(fn, fname(entry)+"#feed-before-test", isFeed, isCall(sf), "the row is fed to the group's aggregates before the predicate is evaluated", "shouldFire can run before the row was fed to the aggregates: the predicate would be evaluated on stale values")
		if n == 0 {
			a.Bad(fname(entry)+"#feed-before-test", entry.Pos(), "processRow does not call shouldFire")
		}
		// both feeds present
		cnt := len(direct(fn, isFeed))
		a.Check(cnt >= 2, fname(entry)+"#feeds", entry.Pos(), "output and trigger-only aggregates are both fed", "processRow no longer feeds both the output and the trigger-only aggregates")
		var gsKey ssa.Value
		allInstrs(fn, func(in ssa.Instruction) {
			if lk, ok := in.(*ssa.Lookup); ok {
				if t := TermOf(lk.X, nil); t.Kind == "field" && t.Field == groups {
					gsKey = lk.Index
				}
			}
			// or the group is looked up (and created) by a helper method that receives the key
			if c, ok := in.(*ssa.Call); ok && gsKey == nil {
				if h := c.Call.StaticCallee(); h != nil && h.Blocks != nil && h.Pkg == fn.Pkg {
					allInstrs(h, func(x ssa.Instruction) {
						lk, ok := x.(*ssa.Lookup)
						if !ok {
							return
						}
						if t := TermOf(lk.X, nil); t.Kind != "field" || t.Field != groups {
							return
						}
						for i, prm := range h.Params {
							if lk.Index == ssa.Value(prm) && i < len(c.Call.Args) {
								gsKey = c.Call.Args[i]
							}
						}
					})
				}
			}
		})
		isPurge := func(in ssa.Instruction) bool {
			c, ok := in.(*ssa.Call)
			if !ok {
				return false
			}
			cc, ok := isBuiltinCall(c, "delete")
			if !ok {
				return false
			}
			t := TermOf(cc.Args[0], nil)
			return t.Kind == "field" && t.Field == groups && cc.Args[1] == gsKey
		}
		// firedFlags: the boolean results of the host that are true only on the true edge of shouldFire and
		// only after the purge (every value the result can take: false, or true at a point that shouldFire's true
		// edge guards and the delete dominates)
		firedFlags := map[int]bool{}
		var purgeIn ssa.Instruction
		if hostCall != nil {
			for k := 0; k < fn.Signature.Results().Len(); k++ {
				if !isBool(fn.Signature.Results().At(k).Type()) {
					continue
				}
				ok, some := true, false
				judge := func(v ssa.Value, at *ssa.BasicBlock, atIn ssa.Instruction) {
					for _, l := range phiLeaves(v) {
						if b, isK := constBool(l); isK && !b {
							continue
						}
						some = true
						if b, isK := constBool(l); !isK || !b {
							ok = false
							continue
						}
						if !guardedByCall(at, func(f *ssa.Function) bool { return f == sf }, true) {
							ok = false
						}
						purged := false
						for _, pin := range direct(fn, isPurge) {
							if dominatesInstr(pin, atIn) {
								purged, purgeIn = true, pin
							}
						}
						if !purged {
							ok = false
						}
					}
				}
				for _, b := range fn.Blocks {
					ret, isRet := b.Instrs[len(b.Instrs)-1].(*ssa.Return)
					if !isRet || b == fn.Recover || k >= len(ret.Results) {
						continue
					}
					if ld, isLd := ret.Results[k].(*ssa.UnOp); isLd && ld.Op == token.MUL {
						if al, isAl := ld.X.(*ssa.Alloc); isAl {
							for _, ref := range *al.Referrers() {
								if st, isSt := ref.(*ssa.Store); isSt && st.Addr == ssa.Value(al) {
									judge(st.Val, st.Block(), st)
								}
							}
							continue
						}
					}
					judge(ret.Results[k], b, ret)
				}
				if ok && some {
					firedFlags[k] = true
				}
			}
		}
		for _, d := range direct(entry, isCall(deliver)) {
			if hostCall != nil {
				// delivered only where a fired flag of the host's call was found true
				okFlag := guardedByValue(d.Block(), func(v ssa.Value) bool {
					ex, isEx := v.(*ssa.Extract)
					return isEx && ex.Tuple == ssa.Value(hostCall) && firedFlags[ex.Index]
				}, true)
				a.Check(okFlag, fname(entry)+"#deliver-only-when-fired", d.Pos(),
					"a result is delivered only where "+fn.Name()+" reported a fired group, which it does only on the true edge of shouldFire", "a result can be delivered although the TRIGGER WHEN predicate is false")
				a.Check(okFlag && purgeIn != nil, fname(entry)+"#purge-before-deliver", d.Pos(), "the fired group is deleted (under the key it was looked up with) before "+fn.Name()+" reports it fired, hence before delivery", "delivery is not preceded by delete(gw.groups, key) with the group's own key: the group would keep its aggregates and fire again")
				continue
			}
			a.Check(guardedByCall(d.Block(), func(f *ssa.Function) bool { return f == sf }, true), fname(entry)+"#deliver-only-when-fired", d.Pos(),
				"a result is delivered only on the true edge of shouldFire", "a result can be delivered although the TRIGGER WHEN predicate is false")
			// a delete(gw.groups, key) dominates the deliver, with the group's own key, and precedes the unlock
			okDel := false
			for _, pin := range direct(fn, isPurge) {
				if dominatesInstr(pin, d) {
					okDel, purgeIn = true, pin
				}
			}
			a.Check(okDel, fname(entry)+"#purge-before-deliver", d.Pos(), "the fired group is deleted (under the key it was looked up with) before delivery", "delivery is not preceded by delete(gw.groups, key) with the group's own key: the group would keep its aggregates and fire again")
		}
		if purgeIn != nil && len(direct(fn, isCall(sf))) > 0 {
			delIn := purgeIn
			// no Unlock between shouldFire and the delete
			hit := reachableAfter(direct(fn, isCall(sf))[0], func(in ssa.Instruction) bool {
				c, ok := in.(*ssa.Call)
				if !ok {
					return false
				}
				cal := c.Call.StaticCallee()
				return cal != nil && cal.Name() == "Unlock" && len(c.Call.Args) > 0 && fieldAddrIs(c.Call.Args[0], muF)
			}, func(in ssa.Instruction) bool { return in == delIn || (staticCallee(in) == sf) })
			// paths that do not fire (return with deferred unlock) are fine: only explicit Unlock calls count
			a.Check(hit == nil, fname(entry)+"#purge-under-lock", delIn.Pos(), "the lock is not released between the predicate test and the purge", "the lock is released between shouldFire and delete(gw.groups,key): a concurrent row of the same group could be lost or the group fire twice")
		}
	})
	a.Rule("aggstate/fresh-group", 2, func() {
		fn := a.Func("window", "newGroupState")
		n := 0
		filled := map[string]bool{}
		allInstrs(fn, func(in ssa.Instruction) {
			mu, ok := in.(*ssa.MapUpdate)
			if !ok {
				return
			}
			t := TermOf(mu.Map, nil)
			if !(isFieldOf(t, "window.globalGroupState", "outputAggs") || isFieldOf(t, "window.globalGroupState", "triggerAggs")) {
				// the maps are fresh MakeMap stored into the struct; identify by value type
				if mt, ok := mu.Map.Type().Underlying().(*types.Map); !ok || !strings.Contains(mt.Elem().String(), "AggregatorFunction") {
					return
				}
			}
			n++
			// which of the two maps of the group: by the field, or by the field the fresh map is stored into
			kind := ""
			if t.Kind == "field" && t.Field != nil {
				kind = t.Field.Name()
			} else if mm, isMM := mu.Map.(*ssa.MakeMap); isMM {
				for _, r := range *mm.Referrers() {
					if st, isSt := r.(*ssa.Store); isSt && st.Val == ssa.Value(mm) {
						if fa, isFA := st.Addr.(*ssa.FieldAddr); isFA {
							kind = fieldVarOf(fa).Name()
						}
					}
				}
			}
			filled[kind] = true
			c, isCall := mu.Value.(*ssa.Call)
			ok2 := isCall && c.Call.IsInvoke() && c.Call.Method.Name() == "New"
			a.Check(ok2, fname(fn)+"#accumulator-is-new", in.Pos(), "each group accumulator is prototype.New()", "a group's accumulator is "+TermOf(mu.Value, nil).String()+", not a new instance: all groups would share the prototype's state")
		})
		if n == 0 {
			a.Und(fname(fn)+"#accumulator-is-new", fn.Pos(), "no accumulator map writes found")
		}
		// every group owns an instance of every aggregate from its first row on: an aggregate that is
		// created only when a row contributes a value reports "missing" where COUNT over no input is 0,
		// and TRIGGER WHEN COUNT(x) = 0 never holds
		for _, k := range []string{"outputAggs", "triggerAggs"} {
			a.Check(filled[k], fname(fn)+"#instances-at-creation:"+k, fn.Pos(), "newGroupState creates the group's "+k+" instances",
				"newGroupState does not create the instances of "+k+": an aggregate without input is missing (NULL) instead of its empty value (COUNT = 0), so a predicate over it is decided differently from the definition of the aggregate")
		}
	})
	a.Rule("shape/trigger-binding", 2, func() {
		fn := a.Method("window", "GlobalWindow", "shouldFire")
		n := 0
		// resultOfOwnAggregate: is v the Result() of an aggregator looked up with the spec's own alias in
		// outputAggs or with the spec's own placeholder in triggerAggs (nil allowed)? One level of module
		// helper taking the spec is followed.
		var own func(v ssa.Value, depth int) (bool, string)
		own = func(v ssa.Value, depth int) (bool, string) {
			kinds := map[string]bool{}
			for _, l := range phiLeaves(v) {
				if k, ok := l.(*ssa.Const); ok && k.Value == nil {
					continue
				}
				c, ok := l.(*ssa.Call)
				if !ok {
					return false, ""
				}
				if c.Call.IsInvoke() && c.Call.Method.Name() == "Result" {
					ok1 := false
					for _, agg := range phiLeaves(c.Call.Value) {
						var lk *ssa.Lookup
						switch x := agg.(type) {
						case *ssa.Lookup:
							lk = x
						case *ssa.Extract:
							lk, _ = x.Tuple.(*ssa.Lookup)
						}
						if lk == nil {
							return false, ""
						}
						// the map and the name may be chosen together first (`source, name := trig, ph; if alias != "" {
						// source, name = out, alias }; source[name]`): the pairs that arrive over the same edge
						xs, is := []ssa.Value{lk.X}, []ssa.Value{lk.Index}
						if px, isPx := lk.X.(*ssa.Phi); isPx {
							if pi, isPi := lk.Index.(*ssa.Phi); isPi && pi.Block() == px.Block() && len(pi.Edges) == len(px.Edges) {
								xs, is = px.Edges, pi.Edges
							}
						}
						for j := range xs {
							mt := TermOf(xs[j], nil).String()
							switch {
							case strings.Contains(mt, "outputAggs") && isFieldOf(TermOf(is[j], nil), "window.triggerSpec", "outputAlias"):
								kinds["output alias"] = true
								ok1 = true
							case strings.Contains(mt, "triggerAggs") && isFieldOf(TermOf(is[j], nil), "window.triggerSpec", "placeholder"):
								kinds["own trigger aggregate"] = true
								ok1 = true
							default:
								return false, ""
							}
						}
					}
					if !ok1 {
						return false, ""
					}
					continue
				}
				if callee := c.Call.StaticCallee(); callee != nil && a.fnInModule(callee) && depth < 1 {
					all := true
					a.calleeReturns(c, 0, func(rv ssa.Value, _ *ssa.Function) {
						ok2, k := own(rv, depth+1)
						if !ok2 {
							all = false
						}
						for _, kk := range strings.Split(k, "+") {
							if kk != "" {
								kinds[kk] = true
							}
						}
					}, func(string) { all = false })
					if !all {
						return false, ""
					}
					continue
				}
				return false, ""
			}
			var ks []string
			for k := range kinds {
				ks = append(ks, k)
			}
			sort.Strings(ks)
			return true, strings.Join(ks, "+")
		}
		seenKinds := map[string]bool{}
		allInstrs(fn, func(in ssa.Instruction) {
			mu, ok := in.(*ssa.MapUpdate)
			if !ok {
				return
			}
			n++
			kt := TermOf(mu.Key, nil)
			okKey := isFieldOf(kt, "window.triggerSpec", "placeholder")
			v := mu.Value
			if mi, isMI := v.(*ssa.MakeInterface); isMI {
				v = mi.X
			}
			okVal, which := own(v, 0)
			for _, k := range strings.Split(which, "+") {
				seenKinds[k] = true
			}
			a.Check(okKey && okVal, fmt.Sprintf("%s#binds-%s", fname(fn), strings.ReplaceAll(which, " ", "-")), in.Pos(), "env[spec.placeholder] = Result() of the spec's "+which,
				"the predicate environment binds "+kt.String()+" to "+TermOf(mu.Value, nil).String()+": a placeholder would read another spec's aggregate")
		})
		a.Check(seenKinds["output alias"] && seenKinds["own trigger aggregate"], fname(fn)+"#binds-both-kinds", fn.Pos(),
			"both kinds of trigger aggregate (reused SELECT output, trigger-only) are bound", fmt.Sprintf("bindings found: %d, kinds %v — a kind of trigger aggregate is never bound", n, seenKinds))
		// the environment is fresh per evaluation: a placeholder that is not written this time (NULL
		// aggregate) must not keep the value of an earlier row or of another group
		cond := a.FieldOf(a.Named("window", "GlobalWindow"), "triggerCond")
		allInstrs(fn, func(in ssa.Instruction) {
			c, ok := in.(*ssa.Call)
			if !ok || !c.Call.IsInvoke() || c.Call.Method.Name() != "Evaluate" {
				return
			}
			if t := TermOf(c.Call.Value, nil); t.Kind != "field" || t.Field != cond {
				return
			}
			arg := c.Call.Args[0]
			if mi, isMI := arg.(*ssa.MakeInterface); isMI {
				arg = mi.X
			}
			fresh := true
			for _, lf := range phiLeafEdges(arg) {
				if _, isMake := lf.v.(*ssa.MakeMap); isMake {
					continue
				}
				// a map kept across evaluations is as good as a fresh one when it is emptied first: a loop
				// over that very map that deletes every key (or clear(m)) lies on the way to the evaluation
				emptied := false
				at := c.Block()
				if lf.from != nil {
					at = lf.from
				}
				for _, ml := range mapRangeLoops(fn) {
					if !sameValue(ml.X, lf.v) || !(ml.Header == at || ml.Header.Dominates(at)) {
						continue
					}
					for b := range ml.Blocks {
						for _, x := range b.Instrs {
							if dc, ok := x.(*ssa.Call); ok {
								if cc, isDel := isBuiltinCall(dc, "delete"); isDel && sameValue(cc.Args[0], lf.v) {
									emptied = true
								}
							}
						}
					}
				}
				allInstrs(fn, func(x ssa.Instruction) {
					if dc, ok := x.(*ssa.Call); ok {
						if cc, isClr := isBuiltinCall(dc, "clear"); isClr && sameValue(cc.Args[0], lf.v) && (dc.Block() == at || dc.Block().Dominates(at)) {
							emptied = true
						}
					}
				})
				if !emptied {
					fresh = false
				}
			}
			a.Check(fresh, fname(fn)+"#fresh-environment", c.Pos(), "the predicate is evaluated on a map made (or emptied) for this evaluation",
				"the predicate is evaluated on "+TermOf(arg, nil).String()+", a map that outlives the evaluation: a placeholder not written this time (NULL aggregate) keeps the value of an earlier row or of another group, and the group fires on a false predicate")
		})
	})
	a.Rule("shape/unique-placeholders", 1, func() {
		// per-spec state (gs.triggerAggs[spec.placeholder]) is keyed by the placeholder: it must be unique per
		// spec by construction, i.e. derived from the position of the aggregate reference
		fn := a.Method("window", "GlobalWindow", "buildTrigger")
		ph := a.FieldOf(a.Named("window", "triggerSpec"), "placeholder")
		n := 0
		for _, st := range storesToField(fn, ph) {
			n++
			ok := false
			positional := func(v ssa.Value) bool {
				if !isIntType(v.Type()) {
					return false
				}
				if cv, isCv := v.(*ssa.Convert); isCv {
					v = cv.X
				}
				if bo, isB := v.(*ssa.BinOp); isB && bo.Op == token.ADD {
					return true
				}
				if _, isPhi := v.(*ssa.Phi); isPhi {
					return true
				}
				if lc, isCall := v.(*ssa.Call); isCall {
					if cc, isLen := isBuiltinCall(lc, "len"); isLen && isFieldOf(TermOf(cc.Args[0], nil), "window.GlobalWindow", "triggerSpecs") {
						return true
					}
				}
				return false
			}
			// "__trig_" + strconv.Itoa(i) + "__": the number rendered by strconv inside a concatenation
			var inConcat func(v ssa.Value, d int) bool
			inConcat = func(v ssa.Value, d int) bool {
				if d > 6 {
					return false
				}
				switch x := v.(type) {
				case *ssa.BinOp:
					return x.Op == token.ADD && (inConcat(x.X, d+1) || inConcat(x.Y, d+1))
				case *ssa.Call:
					if (isCallNamed(x, "strconv", "Itoa") || isCallNamed(x, "strconv", "FormatInt") || isCallNamed(x, "strconv", "FormatUint")) && len(x.Call.Args) > 0 {
						return positional(x.Call.Args[0])
					}
				}
				return false
			}
			for _, leaf := range phiLeaves(st.Val) {
				if inConcat(leaf, 0) {
					ok = true
				}
				c, isCall := leaf.(*ssa.Call)
				if !isCall || !isCallNamed(c, "fmt", "Sprintf") {
					continue
				}
				// a %d argument that is a loop index or counter
				if sl, isSl := c.Call.Args[1].(*ssa.Slice); isSl {
					if al, isAl := sl.X.(*ssa.Alloc); isAl {
						for _, r := range *al.Referrers() {
							if ia, isIA := r.(*ssa.IndexAddr); isIA {
								for _, rr := range *ia.Referrers() {
									if s2, isSt := rr.(*ssa.Store); isSt {
										v := s2.Val
										if mi, isMI := v.(*ssa.MakeInterface); isMI {
											v = mi.X
										}
										if isIntType(v.Type()) {
											if bo, isB := v.(*ssa.BinOp); isB && bo.Op == token.ADD {
												ok = true // rangeindex (phi + 1) or counter
											}
											if _, isPhi := v.(*ssa.Phi); isPhi {
												ok = true
											}
											// the number of specs created so far: unique for every spec that is appended
											if lc, isCall := v.(*ssa.Call); isCall {
												if cc, isLen := isBuiltinCall(lc, "len"); isLen && isFieldOf(TermOf(cc.Args[0], nil), "window.GlobalWindow", "triggerSpecs") {
													ok = true
												}
											}
										}
									}
								}
							}
						}
					}
				}
			}
			a.Check(ok, fname(fn)+"#placeholder-unique", st.Pos(), "each aggregate reference of TRIGGER WHEN gets a placeholder numbered by its position",
				"the placeholder of a TRIGGER WHEN aggregate reference is "+TermOf(st.Val, nil).String()+", not numbered by position: two references can share one placeholder and thus one running aggregate, which is then fed once per reference (a row counted twice) — the group fires on rows where the predicate is false")
		}
		if n == 0 {
			a.Und(fname(fn)+"#placeholder-unique", fn.Pos(), "no triggerSpec.placeholder assignment found")
		}
	})
	a.Rule("tables/trigger-aggregates", 9, func() {
		// keys of aggTriggerFuncNames
		p := a.Pkg("window")
		g, ok := p.Members["aggTriggerFuncNames"].(*ssa.Global)
		if !ok {
			a.anchorFail("window.aggTriggerFuncNames not found")
		}
		var names []string
		allInstrs(p.Func("init"), func(in ssa.Instruction) {
			mu, ok := in.(*ssa.MapUpdate)
			if !ok {
				return
			}
			if k, ok := mu.Key.(*ssa.Const); ok && k.Value != nil && k.Value.Kind() == constant.String {
				// belongs to the map stored into g
				for _, r := range *mu.Map.Referrers() {
					if st, ok := r.(*ssa.Store); ok && st.Addr == ssa.Value(g) {
						names = append(names, constant.StringVal(k.Value))
					}
				}
			}
		})
		sort.Strings(names)
		if len(names) == 0 {
			a.Und("aggTriggerFuncNames", token.NoPos, "cannot read the keys of aggTriggerFuncNames")
			return
		}
		reg := a.registeredAggregates()
		for _, n := range names {
			a.Check(reg[n], "trigger-aggregate:"+n, g.Pos(), "recognised in TRIGGER WHEN and registered as an aggregator", "TRIGGER WHEN recognises "+n+"(...) but no aggregator of that name is registered: the trigger aggregate cannot be built")
		}
	})
	a.Rule("whomay/consumers", 1, func() {
		W := a.Named("window", "GlobalWindow")
		trig := a.FieldOf(W, "triggerChan")
		st := a.startGoroutine(a.Method("window", "GlobalWindow", "Start"))
		for _, fn := range a.ModFuncs {
			allInstrs(fn, func(in ssa.Instruction) {
				sel, ok := in.(*ssa.Select)
				if ok {
					for _, s := range sel.States {
						if s.Dir == types.RecvOnly {
							if t := TermOf(s.Chan, nil); t.Kind == "field" && t.Field == trig {
								a.Check(fn == st, "recv(triggerChan)@"+fname(fn), in.Pos(), "the Start goroutine is the only receiver (rows are applied one at a time, in arrival order)", fname(fn)+" also receives from GlobalWindow.triggerChan")
							}
						}
					}
				}
				if u, ok := in.(*ssa.UnOp); ok && u.Op == token.ARROW {
					if t := TermOf(u.X, nil); t.Kind == "field" && t.Field == trig {
						a.Check(fn == st, "recv(triggerChan)@"+fname(fn), in.Pos(), "the Start goroutine is the only receiver", fname(fn)+" also receives from GlobalWindow.triggerChan")
					}
				}
			})
		}
	})
	a.Rule("locks/guarded-by", 2, func() { a.lockRules("window", "GlobalWindow") })
}

// lookupIndexedBy: v is Result() invoked on a map lookup whose index is field `field` of owner.
func lookupIndexedBy(v ssa.Value, owner, field string) bool {
	c, ok := v.(*ssa.Call)
	if !ok || !c.Call.IsInvoke() {
		return false
	}
	for _, l := range phiLeaves(c.Call.Value) {
		var lk *ssa.Lookup
		switch x := l.(type) {
		case *ssa.Lookup:
			lk = x
		case *ssa.Extract:
			lk, _ = x.Tuple.(*ssa.Lookup)
		}
		if lk != nil && isFieldOf(TermOf(lk.Index, nil), owner, field) {
			return true
		}
	}
	return false
}

// registeredAggregates: names registered by registerBuiltinFunctions with AggregatorFunction types.
func (a *A) registeredAggregates() map[string]bool {
	reg := a.Func("functions", "registerBuiltinFunctions")
	iface := a.Iface("functions", "AggregatorFunction")
	out := map[string]bool{}
	allInstrs(reg, func(in ssa.Instruction) {
		c, ok := in.(*ssa.Call)
		if !ok {
			return
		}
		for _, arg := range c.Call.Args {
			v := arg
			if mi, ok := v.(*ssa.MakeInterface); ok {
				v = mi.X
			}
			cc, ok := v.(*ssa.Call)
			if !ok {
				continue
			}
			ctor := cc.Call.StaticCallee()
			if ctor == nil || ctor.Blocks == nil || !typesImplements(ctor.Signature.Results().At(0).Type(), iface) {
				continue
			}
			allInstrs(ctor, func(x ssa.Instruction) {
				if bc, ok := x.(*ssa.Call); ok {
					if cal := bc.Call.StaticCallee(); cal != nil && strings.HasPrefix(cal.Name(), "NewBaseFunction") && len(bc.Call.Args) > 0 {
						if k, ok := bc.Call.Args[0].(*ssa.Const); ok && k.Value != nil && k.Value.Kind() == constant.String {
							out[constant.StringVal(k.Value)] = true
						}
					}
				}
			})
		}
	})
	return out
}

// ruleTriggerEvaluatedEveryRow: TRIGGER WHEN is evaluated "for every row" of a group, after the row
// has been fed into the running aggregates. In GlobalWindow.processRow every path from the feeding of
// the aggregates to a return passes the predicate evaluation (shouldFire): no shortcut decides from
// something else (a "nothing moved" flag, a cached verdict) that the predicate need not be looked at —
// COUNT(*) that appears only in TRIGGER WHEN moves on a row whose other aggregated columns are NULL.
func (a *A) ruleTriggerEvaluatedEveryRow() int {
	pr := a.Method("window", "GlobalWindow", "processRow")
	sf := a.Method("window", "GlobalWindow", "shouldFire")
	feed := a.Func("window", "feedTriggerAggs")
	n := 0
	for _, c := range callsTo(pr, feed) {
		n++
		bad := pathToExitAvoiding(c, func(x ssa.Instruction) bool {
			cc := callCommon(x)
			return cc != nil && cc.StaticCallee() == sf
		}, false)
		pos := c.Pos()
		if bad != nil {
			pos = bad.Pos()
		}
		a.Check(bad == nil, fname(pr)+"#trigger-evaluated-every-row", pos,
			"after a row was fed into the aggregates the trigger predicate is evaluated on every path",
			"processRow can return after feeding a row into the aggregates without evaluating TRIGGER WHEN: a row that makes the predicate true (through an aggregate the shortcut does not look at) does not fire, and the group's result later covers extra rows")
	}
	if n == 0 {
		a.anchorFail("processRow does not call feedTriggerAggs")
	}
	return n
}
