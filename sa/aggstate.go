package main

// aggstate.go — E7: accumulator state discipline of aggregator / analytic-state implementations.

import (
	"fmt"
	"go/token"
	"go/types"
	"sort"
	"strings"

	"golang.org/x/tools/go/ssa"
)

// recvFieldWrites: fields of the receiver's struct that fn (and same-receiver methods it calls,
// depth<=2) writes: Store to FieldAddr(recv, f), in-place map/slice mutation of a loaded field.
// Also reports writes to package-level state.
func (a *A) recvFieldWrites(fn *ssa.Function, depth int, seen map[*ssa.Function]bool) (fields map[*types.Var]token.Pos, globals []string) {
	fields = map[*types.Var]token.Pos{}
	if fn == nil || fn.Blocks == nil || seen[fn] || depth > 2 || len(fn.Params) == 0 {
		return
	}
	seen[fn] = true
	recv := fn.Params[0]
	isRecvField := func(v ssa.Value) *types.Var {
		fa, ok := v.(*ssa.FieldAddr)
		if !ok {
			return nil
		}
		if fa.X == ssa.Value(recv) {
			return fieldVarOf(fa)
		}
		return nil
	}
	allInstrs(fn, func(in ssa.Instruction) {
		switch x := in.(type) {
		case *ssa.Store:
			if f := isRecvField(x.Addr); f != nil {
				fields[f] = x.Pos()
			}
			if g, ok := x.Addr.(*ssa.Global); ok {
				globals = append(globals, g.Name())
			}
			if ia, ok := x.Addr.(*ssa.IndexAddr); ok {
				if ld, ok := ia.X.(*ssa.UnOp); ok {
					if f := isRecvField(ld.X); f != nil {
						fields[f] = x.Pos()
					}
					if g, ok := ld.X.(*ssa.Global); ok {
						globals = append(globals, g.Name())
					}
				}
			}
		case *ssa.MapUpdate:
			if ld, ok := x.Map.(*ssa.UnOp); ok {
				if f := isRecvField(ld.X); f != nil {
					fields[f] = x.Pos()
				}
				if g, ok := ld.X.(*ssa.Global); ok {
					globals = append(globals, g.Name())
				}
			}
		case *ssa.Call:
			if cal := x.Call.StaticCallee(); cal != nil && len(x.Call.Args) > 0 && x.Call.Args[0] == ssa.Value(recv) && cal.Signature.Recv() != nil && a.fnInModule(cal) {
				f2, g2 := a.recvFieldWrites(cal, depth+1, seen)
				for f, p := range f2 {
					fields[f] = p
				}
				globals = append(globals, g2...)
			}
		}
	})
	return
}

func isRefType(t types.Type) bool {
	switch t.Underlying().(type) {
	case *types.Slice, *types.Map, *types.Pointer, *types.Chan:
		return true
	}
	return false
}

// ruleFreshNew checks that the constructor method ctor (New / NewState / Clone-less) of type T
// returns a newly allocated object that shares no reference-typed accumulator state with the receiver.
// accFields are the accumulator fields (written by Add/Apply).
func (a *A) ruleFreshNew(T *types.Named, ctor *ssa.Function, accFields map[*types.Var]token.Pos, what string) {
	construct := fmt.Sprintf("%s.%s#fresh", qual(T), ctor.Name())
	if ctor.Blocks == nil || len(ctor.Params) == 0 {
		a.Und(construct, ctor.Pos(), "no body")
		return
	}
	recv := ctor.Params[0]
	var problems []string
	nret := 0
	for _, b := range ctor.Blocks {
		ret, ok := b.Instrs[len(b.Instrs)-1].(*ssa.Return)
		if !ok || len(ret.Results) == 0 {
			continue
		}
		nret++
		for _, leaf := range phiLeaves(ret.Results[0]) {
			v := leaf
			for {
				if mi, ok := v.(*ssa.MakeInterface); ok {
					v = mi.X
					continue
				}
				if ct, ok := v.(*ssa.ChangeType); ok {
					v = ct.X
					continue
				}
				break
			}
			if v == ssa.Value(recv) {
				problems = append(problems, "returns the receiver itself: every group would share one "+what)
				continue
			}
			al, ok := v.(*ssa.Alloc)
			if !ok {
				if c, ok := v.(*ssa.Call); ok {
					// delegation to another constructor of the same type (e.g. New calling newX())
					if cal := c.Call.StaticCallee(); cal != nil && a.fnInModule(cal) {
						continue
					}
				}
				if k, ok := v.(*ssa.Const); ok && k.Value == nil {
					continue
				}
				problems = append(problems, fmt.Sprintf("returns %s, which is not a new allocation", TermOf(v, nil)))
				continue
			}
			// fields of the new object that are given a value of their own (not the receiver's)
			own := map[*types.Var]bool{}
			for _, r := range *al.Referrers() {
				if fa, ok := r.(*ssa.FieldAddr); ok {
					for _, rr := range *fa.Referrers() {
						if st, ok := rr.(*ssa.Store); ok && st.Addr == ssa.Value(fa) {
							fromRecv := false
							if ld, ok := st.Val.(*ssa.UnOp); ok {
								if rfa, ok := ld.X.(*ssa.FieldAddr); ok && rfa.X == ssa.Value(recv) {
									fromRecv = true
								}
							}
							if !fromRecv {
								own[fieldVarOf(fa)] = true
							}
						}
					}
				}
			}
			// stores into the new object
			for _, r := range *al.Referrers() {
				switch u := r.(type) {
				case *ssa.Store:
					if u.Addr == ssa.Value(al) {
						// whole-struct copy *new = *recv: fine for fields that are re-initialised afterwards
						if ld, ok := u.Val.(*ssa.UnOp); ok && ld.X == ssa.Value(recv) {
							for f := range accFields {
								if isRefType(f.Type()) && !own[f] {
									problems = append(problems, fmt.Sprintf("copies the whole receiver and does not re-initialise the reference-typed accumulator field %s, which stays shared with the prototype", f.Name()))
								}
							}
						}
					}
				case *ssa.FieldAddr:
					f := fieldVarOf(u)
					if _, isAcc := accFields[f]; !isAcc || !isRefType(f.Type()) {
						continue
					}
					for _, rr := range *u.Referrers() {
						st, ok := rr.(*ssa.Store)
						if !ok || st.Addr != ssa.Value(u) {
							continue
						}
						if ld, ok := st.Val.(*ssa.UnOp); ok {
							if fa, ok := ld.X.(*ssa.FieldAddr); ok && fa.X == ssa.Value(recv) && fieldVarOf(fa) == f {
								problems = append(problems, fmt.Sprintf("the new object's accumulator field %s is the receiver's own %s (shared backing store)", f.Name(), f.Name()))
							}
						}
					}
				}
			}
		}
	}
	if nret == 0 {
		a.Und(construct, ctor.Pos(), "no return found")
		return
	}
	if len(problems) == 0 {
		var names []string
		for f := range accFields {
			names = append(names, f.Name())
		}
		sort.Strings(names)
		o := a.Ok(construct, ctor.Pos(), "returns a new object; accumulator fields {%s} are not shared with the receiver", strings.Join(names, ","))
		if len(accFields) == 0 {
			o.Trivial = true
		}
		return
	}
	a.Bad(construct, ctor.Pos(), "%s.%s(): %s — state would leak between groups/batches", T.Obj().Name(), ctor.Name(), strings.Join(problems, "; "))
}

// ruleConfinedWrites: method m of T (Add/Apply) writes only the receiver's own fields.
func (a *A) ruleConfinedWrites(T *types.Named, m *ssa.Function) map[*types.Var]token.Pos {
	construct := fmt.Sprintf("%s.%s#confined", qual(T), m.Name())
	fields, globals := a.recvFieldWrites(m, 0, map[*ssa.Function]bool{})
	if len(globals) > 0 {
		a.Bad(construct, m.Pos(), "%s.%s writes package-level state %v: accumulators of different groups/instances would influence each other", T.Obj().Name(), m.Name(), globals)
	} else {
		o := a.Ok(construct, m.Pos(), "writes only %d field(s) of its receiver", len(fields))
		if len(fields) == 0 {
			o.Trivial = true
		}
	}
	return fields
}
