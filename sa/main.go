package main

import (
	"encoding/json"
	"flag"
	"fmt"
	"os"
	"sort"
	"strconv"
	"strings"
	"time"
)

func main() {
	propID := flag.String("prop", "", "property id (C01..C20)")
	tier := flag.String("tier", "quick", "quick|thorough")
	repo := flag.String("repo", envOr("VERIF_REPO", "/repo"), "repository under analysis")
	verifDir := flag.String("verif", envOr("VERIF_DIR", "/verif"), "verif directory (known findings, evidence, reports)")
	overlayArg := flag.String("overlay", "", "comma separated repo-relative-file=replacement-file pairs (checker self-test controls)")
	tags := flag.String("tags", os.Getenv("VERIF_TAGS"), "build tags")
	list := flag.Bool("list", false, "list properties")
	noEvidence := flag.Bool("no-evidence", false, "do not write evidence/report (used by control runs)")
	survey := flag.String("survey-locks", "", "pkg.Type: print field accesses with locksets")
	dump := flag.Bool("dump", false, "print the canonical obligation list (rule, construct, verdict) and exit 0")
	extra := flag.String("extra", "", "JSON file with extra coverage info produced by the thorough driver (controls, N-version comparison)")
	writeInv := flag.Bool("write-inventory", false, "write sa/inventory.txt from the repository's current function declarations")
	describe := flag.Bool("describe", false, "print the registered properties with their decided / not decided clauses as JSON")
	flag.Parse()
	if *writeInv {
		if err := writeInventory(*repo, inventoryPath()); err != nil {
			fmt.Println(err)
			os.Exit(2)
		}
		return
	}
	if *describe {
		out := map[string]map[string]string{}
		for id, p := range props {
			out[id] = map[string]string{"decided": p.Decided, "not_decided": p.NotDecided, "technique": p.Technique}
		}
		b, _ := json.MarshalIndent(out, "", " ")
		fmt.Println(string(b))
		return
	}
	if *list {
		var ids []string
		for id := range props {
			ids = append(ids, id)
		}
		sort.Strings(ids)
		fmt.Println(strings.Join(ids, " "))
		return
	}
	multi := strings.Split(*propID, ",")
	if len(multi) > 1 {
		if !*noEvidence {
			fmt.Println("several properties in one run are supported in control mode (-no-evidence) only")
			os.Exit(2)
		}
		*propID = multi[0]
	}
	p := props[*propID]
	if p == nil {
		fmt.Printf("unknown property %q\n", *propID)
		os.Exit(2)
	}
	seed, _ := strconv.ParseInt(os.Getenv("VERIF_SEED"), 10, 64)
	start := time.Now()
	var overlay map[string][]byte
	if *overlayArg != "" {
		overlay = map[string][]byte{}
		for _, kv := range strings.Split(*overlayArg, ",") {
			parts := strings.SplitN(kv, "=", 2)
			b, err := os.ReadFile(parts[1])
			if err != nil {
				fmt.Println("overlay:", err)
				os.Exit(2)
			}
			overlay[*repo+"/"+parts[0]] = b
		}
	}
	a, err := load(*repo, overlay, *tags)
	if err != nil {
		// the analyzer must not be silently blind on a tree it cannot load
		fmt.Printf("checker-integrity: cannot load %s: %v\n", *repo, err)
		if !*noEvidence {
			writeLoadFailure(*verifDir, p, *tier, seed, start, err)
		}
		fmt.Printf("VIOLATION property=%s replay=%s/reports/%s-%s.txt\n", p.ID, *verifDir, p.ID, *tier)
		os.Exit(1)
	}
	a.Tier = *tier
	a.prop = p
	if a.turned > 0 {
		a.Info("comparisons_turned_round", map[string]any{"count": a.turned, "note": "comparisons written with the constant on the left were rewritten constant-right before the analysis (same program)"})
	}
	if a.norm != nil {
		a.Info("helper_normalisation", map[string]any{"functions_not_in_inventory": a.norm.NewFuncs, "inlined": a.norm.Inlined,
			"removed": a.norm.Removed, "left_alone": a.norm.Skipped,
			"note": "calls of functions unknown to the rule tables were inlined (x/tools inliner, semantics-preserving) before the analysis; see DESIGN 9.9"})
		if d := os.Getenv("VERIF_NORM_DUMP"); d != "" {
			for f, b := range a.norm.Overlay {
				if _, changed := a.lineMaps[f]; changed {
					dst := d + "/" + strings.TrimPrefix(f, *repo+"/")
					os.MkdirAll(dst[:strings.LastIndex(dst, "/")], 0o755)
					os.WriteFile(dst, b, 0o644)
				}
			}
			fmt.Fprintf(os.Stderr, "normalisation: inlined %d, removed %d, skipped %d\n  %s\n  skipped: %s\n", len(a.norm.Inlined), len(a.norm.Removed), len(a.norm.Skipped),
				strings.Join(a.norm.Inlined, "\n  "), strings.Join(a.norm.Skipped, "\n  "))
		}
	}
	if *survey == "allocs" {
		a.Rule("survey", 0, func() { a.surveyAllocSizes() })
		return
	}
	if *survey != "" {
		parts := strings.SplitN(*survey, ".", 2)
		a.Rule("survey", 0, func() {
			if *tier == "compact" {
				for _, s := range strings.Split(*survey, ",") {
					pp := strings.SplitN(s, ".", 2)
					a.SurveyLocksCompact(a.Named(pp[0], pp[1]))
				}
				return
			}
			a.SurveyLocks(a.Named(parts[0], parts[1]))
		})
		for _, o := range a.obs {
			fmt.Println(o.Verdict, o.Detail)
		}
		return
	}
	if len(multi) > 1 {
		// control mode over several properties: the program is loaded once, every property's rules run on a
		// fresh obligation list; lines are prefixed with the property
		for _, id := range multi {
			q := props[id]
			if q == nil {
				fmt.Printf("unknown property %q\n", id)
				os.Exit(2)
			}
			a.obs, a.floors, a.info, a.seenKeys, a.curRule, a.prop = nil, map[string]int{}, map[string]any{}, map[string]int{}, "", q
			q.Run(a)
			n := 0
			for _, o := range a.obs {
				if o.Verdict != Discharged {
					fmt.Printf("[%s] CONTROL-FAIL rule=%s construct=%s verdict=%s %s\n", id, o.Rule, o.Construct, o.Verdict, firstLine(o.Detail))
					n++
				}
			}
			for _, o := range a.floorFailures() {
				fmt.Printf("[%s] CONTROL-FLOOR construct=%s %s\n", id, o.Construct, firstLine(o.Detail))
			}
			fmt.Printf("[%s] CONTROL-SUMMARY failing=%d total=%d\n", id, n, len(a.obs))
		}
		return
	}
	p.Run(a)
	if *dump {
		var lines []string
		for _, o := range a.obs {
			lines = append(lines, fmt.Sprintf("%s\t%s\t%s", o.Rule, o.Construct, o.Verdict))
		}
		sort.Strings(lines)
		fmt.Println(strings.Join(lines, "\n"))
		return
	}
	if *noEvidence {
		// control mode: print failing obligations only
		n := 0
		for _, o := range a.obs {
			if o.Verdict != Discharged {
				fmt.Printf("CONTROL-FAIL rule=%s construct=%s verdict=%s %s\n", o.Rule, o.Construct, o.Verdict, firstLine(o.Detail))
				n++
			}
		}
		// floors are reported separately: a control counts as caught only by a rule that names the construct
		for _, o := range a.floorFailures() {
			fmt.Printf("CONTROL-FLOOR construct=%s %s\n", o.Construct, firstLine(o.Detail))
		}
		fmt.Printf("CONTROL-SUMMARY failing=%d total=%d\n", n, len(a.obs))
		return
	}
	var extraInfo map[string]any
	if *extra != "" {
		if b, err := os.ReadFile(*extra); err == nil {
			json.Unmarshal(b, &extraInfo)
		}
		if fails, ok := extraInfo["integrity_failures"].([]any); ok {
			for _, f := range fails {
				a.add(&Ob{Rule: "checker-integrity", Construct: fmt.Sprint(f), Verdict: Undecided, Detail: "thorough driver: " + fmt.Sprint(f)})
			}
		}
	}
	os.Exit(a.finish(p, *verifDir, seed, start, extraInfo))
}

func envOr(k, d string) string {
	if v := os.Getenv(k); v != "" {
		return v
	}
	return d
}

func writeLoadFailure(verifDir string, p *Prop, tier string, seed int64, start time.Time, err error) {
	os.MkdirAll(verifDir+"/reports", 0o755)
	os.MkdirAll(verifDir+"/evidence", 0o755)
	os.WriteFile(fmt.Sprintf("%s/reports/%s-%s.txt", verifDir, p.ID, tier),
		[]byte("FAIL [undecided] rule=checker-integrity construct=load\n    "+err.Error()+"\n"), 0o644)
	ev := fmt.Sprintf(`{"property_id":%q,"tier":%q,"seed":%d,"level":"other","coverage":{"explanation":"the repository could not be loaded/type-checked; nothing was analysed: %s","obligations":1,"discharged":0},"wall_s":%f,"violations":1}`,
		p.ID, tier, seed, strings.ReplaceAll(strings.ReplaceAll(firstLine(err.Error()), `\`, `/`), `"`, `'`), time.Since(start).Seconds())
	os.WriteFile(fmt.Sprintf("%s/evidence/%s.json", verifDir, p.ID), []byte(ev), 0o644)
}
