package main

import (
	"fmt"
	"go/constant"
	"go/token"
	"go/types"
	"sort"
	"strings"

	"golang.org/x/tools/go/ssa"
)

func init() {
	register(&Prop{
		ID:          "C06",
		Decided:     "(1) operator tables: every case of expr.compareFloats/compareStrings denotes its relation under all orderings (NaN unordered); every operator the property names (+ - * /, the six comparisons with aliases, AND/OR/NOT, LIKE, IS) is accepted by the tokenizer's tables and has a case in each evaluator switch of its kind; (2) NULL discipline: in evaluateOperatorValue no arithmetic is reachable once an operand is NULL and the result is then NULL; in compareValues a NULL operand yields false for every non-IS operator before any numeric/string comparison; (3) built-in functions cannot take the caller down: every call of Function.Execute outside its own package is dominated by a successful Validate of the same function and arguments, or runs inside a frame that converts panics to errors, or is the one reviewed exception; in every Execute body a constant index args[k] is below the lower bound of len(args) implied by the constructor's minArgs (when Validate checks the count) and by dominating len(args) tests; argument-derived type assertions are comma-ok; (4) history independence, structural part: the mutated fields of the process-wide ExprBridge and FunctionRegistry are exactly the reviewed caches (a new process-wide cache fails); (5) both evaluators and the stream resolve functions only through the registry (the registry map is touched only by registry methods). Also: a process-wide cache stores the result of a fallible computation only after its error was found nil; the direct function-call path cuts an argument list only out of text that is one whole call. Also: in package functions a failing run of a program obtained from the bridge's process-wide compile cache (compiled against another row's value types) is always followed by the evaluation against the row itself (expr.Eval) before an error is returned (flow/cached-program-failure-falls-back). Also: the key of every Load/Store on a text-keyed sync.Map memo in package functions is the function's own text parameter, unmodified (or a concatenation containing it): two different expressions never share an entry of a process-wide cache (flow/memo-key-is-the-input). Also: no struct type and no package-level variable of the module holds an expr-lang vm.VM (ownmap/no-retained-vm): the run-time state of one evaluation is never kept in an object shared by concurrent evaluations or by all instances of the process.",
		NotDecided:  "arithmetic, precedence, CASE branch selection, every function's documented value, agreement of the three evaluators on values, independence from the process-wide program cache (expr-lang internals), dynamic indices and slices inside Execute bodies.",
		Assumptions: []string{"expr-lang's vm.Run converts a panic of a called function into an error (read in the module cache, vm.go: defer/recover in Run)"},
		Run:         runC06,
	})
}

// opCases: string constants that fn compares (==) with its operator value: a parameter of type
// string, strings.ToUpper of it, or the Value field of an ExprNode.
func opCases(fn *ssa.Function) []string {
	set := map[string]bool{}
	isOpValue := func(v ssa.Value) bool {
		t := TermOf(v, nil)
		s := t.String()
		if t.Kind == "param" && isStringType(v.Type()) {
			return true
		}
		if strings.HasPrefix(s, "strings.ToUpper(") || strings.HasPrefix(s, "strings.ToLower(") {
			return true
		}
		return isFieldOf(t, "expr.ExprNode", "Value")
	}
	allInstrs(fn, func(in ssa.Instruction) {
		bo, ok := in.(*ssa.BinOp)
		if !ok || bo.Op != token.EQL {
			return
		}
		if k, ok := bo.Y.(*ssa.Const); ok && k.Value != nil && k.Value.Kind() == constant.String && isOpValue(bo.X) {
			set[constant.StringVal(k.Value)] = true
		}
	})
	var out []string
	for s := range set {
		out = append(out, s)
	}
	sort.Strings(out)
	return out
}

// strSliceConsts: the string constants stored into a local []string literal of fn.
func strConstsIn(fn *ssa.Function) map[string]bool {
	out := map[string]bool{}
	allInstrs(fn, func(in ssa.Instruction) {
		if st, ok := in.(*ssa.Store); ok {
			if k, ok := st.Val.(*ssa.Const); ok && k.Value != nil && k.Value.Kind() == constant.String {
				out[constant.StringVal(k.Value)] = true
			}
		}
	})
	return out
}

func runC06(a *A) {
	a.Rule("ordtab/compare-tables", 16, func() {
		rel := map[string]func(x, y int) bool{
			">": func(x, y int) bool { return x > y }, ">=": func(x, y int) bool { return x >= y },
			"<": func(x, y int) bool { return x < y }, "<=": func(x, y int) bool { return x <= y },
			"=": func(x, y int) bool { return x == y }, "==": func(x, y int) bool { return x == y },
			"!=": func(x, y int) bool { return x != y }, "<>": func(x, y int) bool { return x != y },
		}
		for _, name := range []string{"compareFloats", "compareStrings"} {
			fn := a.Func("expr", name)
			for _, op := range opCases(fn) {
				want, ok := rel[op]
				if !ok {
					continue // LIKE etc.: not an order relation
				}
				flags := []string{}
				if name == "compareFloats" {
					flags = []string{"nan:a"}
				}
				opc := op
				a.OrdTable("expr."+name+"["+op+"]", fn.Pos(), fmt.Sprintf("case %q decides a %s b", op, op), OrdSpec{
					Roles: []string{"a", "b"}, Flags: flags,
					Expect: func(r map[string]int, f map[string]bool) (bool, bool) {
						if f["nan:a"] {
							return opc == "!=" || opc == "<>", true
						}
						return want(r["a"], r["b"]), true
					},
					Role: func(t *Term) string {
						if t.Kind == "param" && t.Idx == 0 {
							return "a"
						}
						if t.Kind == "param" && t.Idx == 1 {
							return "b"
						}
						return ""
					},
					Assume: func(t *Term, v ssa.Value) Tri {
						if bo, ok := v.(*ssa.BinOp); ok && bo.Op == token.EQL {
							if k, ok := bo.Y.(*ssa.Const); ok && k.Value != nil && k.Value.Kind() == constant.String {
								return tri(constant.StringVal(k.Value) == opc)
							}
						}
						return U
					},
					Eval: func(env *Env) (Tri, string) { return evalFuncRet(env, fn, nil) },
				})
			}
		}
	})
	a.Rule("tables/operator-coverage", 9, func() {
		tok := strConstsIn(a.Func("expr", "isOperator"))
		cmpTok := strConstsIn(a.Func("expr", "isComparisonOperator"))
		arith := []string{"+", "-", "*", "/"}
		cmp := []string{"==", "=", "!=", "<>", ">", "<", ">=", "<="}
		for _, op := range append(append(append([]string{}, arith...), cmp...), "AND", "OR", "NOT", "LIKE", "IS") {
			a.Check(tok[op], "tokenizer-accepts:"+op, a.Func("expr", "isOperator").Pos(), "accepted by the tokenizer", "the operator "+op+" named by the property is not in the tokenizer's operator table")
		}
		for _, op := range append(append([]string{}, cmp...), "LIKE", "IS") {
			a.Check(cmpTok[op], "comparison-table:"+op, a.Func("expr", "isComparisonOperator").Pos(), "classified as a comparison operator", op+" is not classified as a comparison operator: it would be evaluated as arithmetic")
		}
		need := func(fn string, ops []string) {
			f := a.Func("expr", fn)
			have := map[string]bool{}
			for _, c := range opCases(f) {
				have[c] = true
			}
			// the operator switch may sit in a same-package helper the function hands the operator to
			for _, h := range a.helpersOf(f) {
				for _, c := range opCases(h) {
					have[c] = true
				}
			}
			var missing []string
			for _, o := range ops {
				if !have[o] {
					missing = append(missing, o)
				}
			}
			a.Check(len(missing) == 0, "switch:"+fn, f.Pos(), fmt.Sprintf("handles %v", ops), fmt.Sprintf("%s has no case for %v: these operators evaluate to an error or another operator's result on this evaluation path", fn, missing))
		}
		for _, fn := range []string{"evaluateOperatorNode", "evaluateOperatorValue", "evaluateNodeWithNull"} {
			if a.FuncOpt("expr", fn) != nil {
				need(fn, arith)
			}
		}
		need("compareFloats", cmp)
		need("compareStrings", append(append([]string{}, cmp...), "LIKE"))
		need("evaluateBoolOperator", []string{"AND", "OR"})
		need("compareValues", []string{"IS", "IS NOT"})
	})
	a.Rule("flow/null-discipline", 2, func() {
		// arithmetic unreachable with a NULL operand, result NULL
		fn := a.Func("expr", "evaluateOperatorValue")
		var nullFlags []ssa.Value
		allInstrs(fn, func(in ssa.Instruction) {
			if ex, ok := in.(*ssa.Extract); ok && ex.Index == 1 && isBool(ex.Type()) {
				if c, ok := ex.Tuple.(*ssa.Call); ok && c.Call.StaticCallee() != nil && c.Call.StaticCallee().Name() == "evaluateNodeValueWithNull" {
					nullFlags = append(nullFlags, ex)
				}
			}
		})
		if len(nullFlags) != 2 {
			a.Und(fname(fn)+"#null-propagates", fn.Pos(), "expected the isNull results of both operands, found %d", len(nullFlags))
		} else {
			for i, side := range []string{"left", "right"} {
				bad := ""
				allInstrs(fn, func(in ssa.Instruction) {
					bo, ok := in.(*ssa.BinOp)
					if !ok || !(bo.Op == token.ADD || bo.Op == token.SUB || bo.Op == token.MUL || bo.Op == token.QUO) {
						return
					}
					if b, ok := bo.Type().Underlying().(*types.Basic); !ok || b.Info()&types.IsFloat == 0 {
						return
					}
					if reachUnder(fn, in, func(v ssa.Value) Tri {
						if v == nullFlags[i] {
							return T
						}
						return U
					}) {
						bad = a.pos(in.Pos())
					}
				})
				a.Check(bad == "", fname(fn)+"#null-propagates-"+side, fn.Pos(), "no arithmetic is reachable when the "+side+" operand is NULL", "arithmetic at "+bad+" is reachable although the "+side+" operand is NULL: NULL would be computed with as a number")
			}
		}
		cv := a.Func("expr", "compareValues")
		for i, side := range []string{"left", "right"} {
			env := &Env{a: a, Rank: map[string]int{}, Flags: map[string]bool{}, Assume: func(t *Term, v ssa.Value) Tri {
				if bo, ok := v.(*ssa.BinOp); ok && bo.Op == token.EQL {
					if k, ok := bo.Y.(*ssa.Const); ok && k.Value == nil {
						if bo.X == ssa.Value(cv.Params[i]) {
							return T
						}
					}
					if k, ok := bo.Y.(*ssa.Const); ok && k.Value != nil && k.Value.Kind() == constant.String {
						return F // operator is neither IS nor IS NOT
					}
				}
				return U
			}}
			r, why := evalFuncRet(env, cv, nil)
			a.Check(r == F, fname(cv)+"#null-"+side+"-is-not-true", cv.Pos(), "a NULL "+side+" operand makes every non-IS comparison false", "a comparison with a NULL "+side+" operand is not decided false: "+why)
		}
	})
	a.Rule("fnsafe/execute-guarded", 5, func() { a.ruleExecuteGuarded() })
	a.Rule("fnsafe/arg-index", 100, func() { a.ruleArgIndex() })
	a.Rule("ownmap/singleton-state", 3, func() { a.ruleSingletonState() })
	a.Rule("ownmap/shared-state", 5, func() { a.ruleSharedState() })
	a.Rule("flow/pooled-map-cleared", 1, func() { a.rulePooledMapsModule() })
	a.Rule("flow/cache-stores-success-only", 2, func() { a.ruleCacheStoresSuccessOnly() })
	a.Rule("ownmap/no-retained-vm", 1, func() { a.ruleNoRetainedVM() })
	a.Rule("flow/memo-key-is-the-input", 4, func() { a.ruleMemoKeyIsTheInput() })
	a.Rule("flow/cached-program-failure-falls-back", 1, func() { a.ruleCachedProgramFailureFallsBack() })
	a.Rule("tables/null-safe-predicates", 2, func() { a.ruleNullSafePredicates() })
	a.Rule("shape/whole-call-slice", 1, func() { a.ruleWholeCallSlice("stream") })
	a.Rule("fnsafe/slice-bound-overflow", 1, func() { a.ruleSliceBoundOverflow("functions") })
	a.Rule("whomay/registry", 2, func() {
		R := a.Named("functions", "FunctionRegistry")
		fm := a.FieldOf(R, "functions")
		seen := map[string]token.Pos{}
		for _, ac := range a.fieldAccesses(fm) {
			if _, ok := seen[fname(ac.Fn)]; !ok {
				seen[fname(ac.Fn)] = ac.In.Pos()
			}
		}
		var fs []string
		for f := range seen {
			fs = append(fs, f)
		}
		sort.Strings(fs)
		for _, f := range fs {
			ok := strings.HasPrefix(f, "(*functions.FunctionRegistry).") || f == "functions.NewFunctionRegistry"
			a.Check(ok, "registry.functions@"+f, seen[f], "registry method", f+" reads or writes the registry map directly: function dispatch must go through the registry's Get/ListAll/Register")
		}
	})
}

// ruleExecuteGuarded: calls of Function.Execute.
func (a *A) ruleExecuteGuarded() {
	iface := a.Named("functions", "Function")
	reviewed := map[string]string{
		"(*stream.Stream).executeFunction": "simple-field function specs are always shadowed by a FieldExpression built by the parser; triage could not reach this call with missing arguments (DESIGN section 4 C06)",
	}
	n := 0
	for _, fn := range a.ModFuncs {
		if fn.Pkg != nil && strings.Contains(fn.Pkg.Pkg.Path(), "/examples/") {
			continue
		}
		allInstrs(fn, func(in ssa.Instruction) {
			c, ok := in.(*ssa.Call)
			if !ok || !c.Call.IsInvoke() || c.Call.Method.Name() != "Execute" || !types.Identical(c.Call.Value.Type(), iface) {
				return
			}
			n++
			construct := "Execute@" + fname(fn)
			// (1) dominated by a successful Validate on the same function value and the same args
			okVal := false
			allInstrs(fn, func(x ssa.Instruction) {
				v, ok := x.(*ssa.Call)
				if !ok || !v.Call.IsInvoke() || v.Call.Method.Name() != "Validate" || v.Call.Value != c.Call.Value {
					return
				}
				if len(v.Call.Args) == 1 && len(c.Call.Args) == 2 && v.Call.Args[0] == c.Call.Args[1] && dominatesInstr(v, c) {
					// the error result must have been tested: Execute on the err == nil edge
					if guardedByValue(c.Block(), func(g ssa.Value) bool {
						bo, ok := g.(*ssa.BinOp)
						return ok && bo.Op == token.NEQ && bo.X == ssa.Value(v)
					}, false) {
						okVal = true
					}
				}
			})
			if okVal {
				a.Ok(construct, in.Pos(), "dominated by a successful Validate of the same function and arguments")
				return
			}
			// (2) inside a closure handed to expr-lang (the VM recovers panics), i.e. a variadic func(params ...any)(any, error)
			if fn.Parent() != nil && fn.Signature.Variadic() && fn.Signature.Results().Len() == 2 {
				a.Ok(construct, in.Pos(), "runs inside an expr-lang function closure: vm.Run converts a panic into an error")
				return
			}
			if why, ok := reviewed[fname(fn)]; ok {
				a.Ok(construct, in.Pos(), "reviewed exception: %s", why)
				return
			}
			a.Bad(construct, in.Pos(), "%s calls Execute without a dominating successful Validate of the same arguments and outside any panic-converting frame: a call with too few arguments panics in the caller's goroutine", fname(fn))
		})
	}
	if n == 0 {
		a.Und("Execute", token.NoPos, "no call of Function.Execute found")
	}
}

// ruleArgIndex: constant indices into args in every Execute body.
func (a *A) ruleArgIndex() {
	iface := a.Iface("functions", "Function")
	impls := a.Implementers(iface)
	a.Info("function_implementations", len(impls))
	// constructor minima
	minOf := map[string]int{}
	for _, fn := range a.ModFuncs {
		if fn.Pkg == nil || fn.Pkg.Pkg.Path() != modPath+"/functions" || fn.Signature.Results().Len() != 1 {
			continue
		}
		rt := fn.Signature.Results().At(0).Type()
		p, ok := rt.(*types.Pointer)
		if !ok {
			continue
		}
		n, ok := p.Elem().(*types.Named)
		if !ok {
			continue
		}
		allInstrs(fn, func(in ssa.Instruction) {
			c, ok := in.(*ssa.Call)
			if !ok || c.Call.StaticCallee() == nil || !strings.HasPrefix(c.Call.StaticCallee().Name(), "NewBaseFunction") || len(c.Call.Args) < 6 {
				return
			}
			if k, ok := c.Call.Args[4].(*ssa.Const); ok && k.Value != nil {
				m := int(k.Int64())
				if old, seen := minOf[qual(n)]; !seen || m < old {
					minOf[qual(n)] = m
				}
			}
		})
	}
	for _, T := range impls {
		if T.Obj().Pkg().Path() != modPath+"/functions" {
			continue
		}
		ex := a.methodOf(T, "Execute")
		if ex == nil || ex.Blocks == nil || len(ex.Params) < 3 {
			continue
		}
		args := ex.Params[2]
		// does Validate check the count?
		lb := 0
		if v := a.methodOf(T, "Validate"); v != nil && v.Blocks != nil {
			checks := false
			allInstrs(v, func(in ssa.Instruction) {
				if cal := staticCallee(in); cal != nil && cal.Name() == "ValidateArgCount" {
					checks = true
				}
			})
			if m, ok := minOf[qual(T)]; ok && checks {
				lb = m
			}
		}
		construct := qual(T) + ".Execute#args-index"
		var problems []string
		nIdx := 0
		allInstrs(ex, func(in ssa.Instruction) {
			var idx ssa.Value
			var low ssa.Value
			switch x := in.(type) {
			case *ssa.IndexAddr:
				if x.X == ssa.Value(args) {
					idx = x.Index
				}
			case *ssa.Index:
				if x.X == ssa.Value(args) {
					idx = x.Index
				}
			case *ssa.Slice:
				if x.X == ssa.Value(args) && x.Low != nil {
					low = x.Low
				}
			}
			var k int64 = -1
			need := int64(0)
			if idx != nil {
				if c, ok := idx.(*ssa.Const); ok {
					k = c.Int64()
					need = k + 1
				} else {
					return // dynamic index: not decided
				}
			} else if low != nil {
				if c, ok := low.(*ssa.Const); ok {
					k = c.Int64()
					need = k
				} else {
					return
				}
			} else {
				return
			}
			nIdx++
			bound := int64(lb)
			for _, g := range guardsOf(in.Block()) {
				bo, ok := g.Cond.(*ssa.BinOp)
				if !ok {
					continue
				}
				l, lok := bo.X.(*ssa.Call)
				c, cok := bo.Y.(*ssa.Const)
				if !lok || !cok {
					continue
				}
				if cc, ok := isBuiltinCall(l, "len"); !ok || cc.Args[0] != ssa.Value(args) {
					continue
				}
				cv := c.Int64()
				var nb int64 = -1
				switch {
				case bo.Op == token.GTR && g.Sense:
					nb = cv + 1
				case bo.Op == token.GEQ && g.Sense:
					nb = cv
				case bo.Op == token.LSS && !g.Sense:
					nb = cv
				case bo.Op == token.LEQ && !g.Sense:
					nb = cv + 1
				case bo.Op == token.EQL && g.Sense:
					nb = cv
				case bo.Op == token.NEQ && !g.Sense:
					nb = cv
				}
				if nb > bound {
					bound = nb
				}
			}
			// len(args) == c excluded on this path with c equal to the bound: the bound rises
			for changed := true; changed; {
				changed = false
				for _, g := range guardsOf(in.Block()) {
					bo, ok := g.Cond.(*ssa.BinOp)
					if !ok {
						continue
					}
					l, lok := bo.X.(*ssa.Call)
					c, cok := bo.Y.(*ssa.Const)
					if !lok || !cok {
						continue
					}
					if cc, ok := isBuiltinCall(l, "len"); !ok || cc.Args[0] != ssa.Value(args) {
						continue
					}
					if ((bo.Op == token.EQL && !g.Sense) || (bo.Op == token.NEQ && g.Sense)) && c.Int64() == bound {
						bound++
						changed = true
					}
				}
			}
			if need > bound {
				problems = append(problems, fmt.Sprintf("args[%d] at %s with len(args) only known to be >= %d", k, a.pos(in.Pos()), bound))
			}
		})
		if len(problems) == 0 {
			o := a.Ok(construct, ex.Pos(), "%d constant index/slice expression(s) on args are within the lower bound of len(args) (minArgs=%d)", nIdx, lb)
			if nIdx == 0 {
				o.Trivial = true
			}
		} else {
			a.Bad(construct, ex.Pos(), "%s: an argument list accepted by Validate (or reaching Execute through a path without Validate) makes Execute index out of range — a panic instead of an error", strings.Join(problems, "; "))
		}
		// (c) single-value type assertions on argument-derived values
		var asserts []string
		allInstrs(ex, func(in ssa.Instruction) {
			ta, ok := in.(*ssa.TypeAssert)
			if !ok || ta.CommaOk {
				return
			}
			if strings.HasPrefix(TermOf(ta.X, nil).String(), "p2[]") || strings.HasPrefix(TermOf(ta.X, nil).String(), "p2") {
				if a.validatedAssert(T, ex, ta) {
					return
				}
				asserts = append(asserts, a.pos(in.Pos()))
			}
		})
		if len(asserts) > 0 {
			a.Bad(qual(T)+".Execute#assert", ex.Pos(), "single-value type assertion on an argument at %v: an argument of another type panics instead of returning an error", asserts)
		}
	}
}

// validatedAssert: the single-value assertion args[k].(X) in Execute is preceded by a successful
// call of the type's own Validate(args), and that Validate tests args[k].(X) with comma-ok.
func (a *A) validatedAssert(T *types.Named, ex *ssa.Function, ta *ssa.TypeAssert) bool {
	v := a.methodOf(T, "Validate")
	if v == nil || v.Blocks == nil {
		return false
	}
	idxOf := func(x ssa.Value) int64 {
		for i := 0; i < 4; i++ {
			switch y := x.(type) {
			case *ssa.UnOp:
				x = y.X
			case *ssa.IndexAddr:
				if c, ok := y.Index.(*ssa.Const); ok {
					return c.Int64()
				}
				return -1
			default:
				return -1
			}
		}
		return -1
	}
	k := idxOf(ta.X)
	if k < 0 {
		return false
	}
	tested := false
	allInstrs(v, func(in ssa.Instruction) {
		if t2, ok := in.(*ssa.TypeAssert); ok && t2.CommaOk && types.Identical(t2.AssertedType, ta.AssertedType) && idxOf(t2.X) == k {
			tested = true
		}
	})
	if !tested {
		return false
	}
	// dominated by the success edge of Validate(args) in Execute
	ok := false
	allInstrs(ex, func(in ssa.Instruction) {
		c, isCall := in.(*ssa.Call)
		if !isCall || c.Call.StaticCallee() != v || !dominatesInstr(c, ta) {
			return
		}
		if guardedByValue(ta.Block(), func(g ssa.Value) bool {
			bo, isB := g.(*ssa.BinOp)
			return isB && bo.Op == token.NEQ && bo.X == ssa.Value(c)
		}, false) {
			ok = true
		}
	})
	return ok
}

// ruleCacheStoresSuccessOnly: a process-wide cache entry must be a function of its key. The outcome
// of a fallible computation (v, err := f(...)) depends on more than the key whenever f also looks at
// the row (expr.Compile type-checks against the value types of the row in hand), so only a success
// may be stored: every Store into a sync.Map field of a process-wide singleton whose stored value
// contains the value result of a call that also returns an error is dominated by err == nil.
func (a *A) ruleCacheStoresSuccessOnly() {
	for _, fn := range a.ModFuncs {
		allInstrs(fn, func(in ssa.Instruction) {
			cc := callCommon(in)
			if cc == nil {
				return
			}
			callee := cc.StaticCallee()
			if callee == nil || callee.Name() != "Store" && callee.Name() != "LoadOrStore" || callee.Signature.Recv() == nil ||
				!isNamedType(callee.Signature.Recv().Type(), "sync", "Map") || len(cc.Args) < 3 {
				return
			}
			fa, ok := cc.Args[0].(*ssa.FieldAddr)
			if !ok {
				return
			}
			fld := fieldVarOf(fa)
			// value results of fallible calls contained in the stored value
			type fsrc struct {
				ex *ssa.Extract
				at *ssa.BasicBlock // where the value is committed to the stored value: the store, or the phi edge it arrives by
			}
			var srcs []fsrc
			seen := map[ssa.Value]bool{}
			at := in.Block()
			var walk func(v ssa.Value, d int)
			walk = func(v ssa.Value, d int) {
				if v == nil || seen[v] || d > 8 {
					return
				}
				seen[v] = true
				switch x := v.(type) {
				case *ssa.MakeInterface:
					walk(x.X, d+1)
				case *ssa.ChangeType:
					walk(x.X, d+1)
				case *ssa.Phi:
					saved := at
					for i, e := range x.Edges {
						at = x.Block().Preds[i]
						walk(e, d+1)
					}
					at = saved
				case *ssa.Alloc:
					for _, r := range *x.Referrers() {
						switch y := r.(type) {
						case *ssa.FieldAddr:
							for _, rr := range *y.Referrers() {
								if st, ok := rr.(*ssa.Store); ok && st.Addr == ssa.Value(y) {
									walk(st.Val, d+1)
								}
							}
						case *ssa.Store:
							if y.Addr == ssa.Value(x) {
								walk(y.Val, d+1)
							}
						}
					}
				case *ssa.Extract:
					if c, ok := x.Tuple.(*ssa.Call); ok {
						res := c.Call.Signature().Results()
						if res.Len() >= 2 && x.Index < res.Len()-1 && isErrorType(res.At(res.Len()-1).Type()) {
							srcs = append(srcs, fsrc{x, at})
						}
					}
				}
			}
			walk(cc.Args[2], 0)
			for _, src := range srcs {
				ex := src.ex
				call := ex.Tuple.(*ssa.Call)
				errIdx := call.Call.Signature().Results().Len() - 1
				construct := fmt.Sprintf("%s#store-%s", fname(fn), fld.Name())
				okGuard := guardedByValue(src.at, func(v ssa.Value) bool {
					bo, ok := v.(*ssa.BinOp)
					if !ok || bo.Op != token.EQL {
						return false
					}
					return isErrOf(bo.X, call, errIdx) && isNilConst(bo.Y) || isErrOf(bo.Y, call, errIdx) && isNilConst(bo.X)
				}, true) || guardedByValue(src.at, func(v ssa.Value) bool {
					bo, ok := v.(*ssa.BinOp)
					if !ok || bo.Op != token.NEQ {
						return false
					}
					return isErrOf(bo.X, call, errIdx) && isNilConst(bo.Y) || isErrOf(bo.Y, call, errIdx) && isNilConst(bo.X)
				}, false)
				a.Check(okGuard, construct, in.Pos(),
					"the result of "+calleeName(call)+" is cached only after its error was found nil",
					"the result of "+calleeName(call)+" is stored in the process-wide cache "+fld.Name()+" on a path where its error may be non-nil: the failure depends on the row it was computed for, yet is replayed for every later row with the same key")
			}
		})
	}
}

func isErrOf(v ssa.Value, call *ssa.Call, idx int) bool {
	ex, ok := v.(*ssa.Extract)
	return ok && ex.Tuple == ssa.Value(call) && ex.Index == idx
}

func isNilConst(v ssa.Value) bool {
	k, ok := v.(*ssa.Const)
	return ok && k.Value == nil
}

func isErrorType(t types.Type) bool {
	return types.Identical(t, types.Universe.Lookup("error").Type())
}

func calleeName(c *ssa.Call) string {
	if f := c.Call.StaticCallee(); f != nil {
		return fname(f)
	}
	return c.Call.Value.Name()
}

// ruleSliceBoundOverflow: a slice bound computed as x + y from two run-time integers (a start and a
// length taken from the arguments) must be formed only after one addend was compared with the room
// left (y < len - x): clamping the sum afterwards does not help, because the sum wraps around for a
// huge addend, passes the clamp as a negative number and panics as a slice bound.
func (a *A) ruleSliceBoundOverflow(pkgs ...string) int {
	inPkgs := map[*ssa.Package]bool{}
	for _, p := range pkgs {
		inPkgs[a.Pkg(p)] = true
	}
	n := 0
	for _, fn := range a.ModFuncs {
		if fn.Pkg == nil || !inPkgs[fn.Pkg] {
			continue
		}
		allInstrs(fn, func(in ssa.Instruction) {
			sl, ok := in.(*ssa.Slice)
			if !ok {
				return
			}
			for _, bound := range []ssa.Value{sl.Low, sl.High} {
				if bound == nil {
					continue
				}
				for _, l := range phiLeaves(bound) {
					add, ok := l.(*ssa.BinOp)
					if !ok || add.Op != token.ADD || !isIntType(add.Type()) {
						continue
					}
					if _, isK := add.X.(*ssa.Const); isK {
						continue
					}
					if _, isK := add.Y.(*ssa.Const); isK {
						continue
					}
					// both addends 64-bit run-time values (len()+… of ints cannot overflow in practice)
					if bt, ok := add.Type().Underlying().(*types.Basic); !ok || bt.Kind() != types.Int64 {
						continue
					}
					n++
					guarded := false
					// len(x) + y with y known negative cannot wrap (a negative offset counted from the end)
					isLen := func(v ssa.Value) bool {
						if cv, ok := v.(*ssa.Convert); ok {
							v = cv.X
						}
						c, ok := v.(*ssa.Call)
						if !ok {
							return false
						}
						_, ok = isBuiltinCall(c, "len")
						return ok
					}
					for _, pair := range [][2]ssa.Value{{add.X, add.Y}, {add.Y, add.X}} {
						if !isLen(pair[0]) {
							continue
						}
						other := pair[1]
						if guardedByValue(add.Block(), func(v ssa.Value) bool {
							c, ok := v.(*ssa.BinOp)
							return ok && c.Op == token.LSS && c.X == other && isZeroConst(c.Y)
						}, true) {
							guarded = true
						}
					}
					for _, g := range guardsOf(add.Block()) {
						c, ok := g.Cond.(*ssa.BinOp)
						if !ok {
							continue
						}
						switch c.Op {
						case token.LSS, token.LEQ, token.GTR, token.GEQ:
						default:
							continue
						}
						for _, pair := range [][2]ssa.Value{{c.X, c.Y}, {c.Y, c.X}} {
							sub, ok := pair[1].(*ssa.BinOp)
							if !ok || sub.Op != token.SUB {
								continue
							}
							if (pair[0] == add.X && sub.Y == add.Y) || (pair[0] == add.Y && sub.Y == add.X) {
								guarded = true
							}
						}
					}
					a.Check(guarded, fname(fn)+"#slice-bound-sum", add.Pos(),
						"the sum used as a slice bound is formed only after one addend was compared with the room left",
						"the slice bound "+TermOf(add, nil).String()+" adds two run-time 64-bit integers without first comparing one of them with the room left: for a huge addend the sum wraps around, passes a later clamp as a negative number and the slice expression panics")
				}
			}
		})
	}
	return n
}

// ruleCachedProgramFailureFallsBack: the bridge caches compiled programs process-wide by expression
// text, and expr-lang specialises operators on the value types of the row the program was compiled
// against. A cached program that fails on the current row (other types than the first row's) says
// nothing about the row: the verdict must come from the evaluation against the row itself (expr.Eval
// on the env path). In every function of package functions that runs a program obtained from the
// bridge's compile-and-cache entry point, no return that hands out a non-nil error is reachable from
// the expr.Run call without passing expr.Eval.
func (a *A) ruleCachedProgramFailureFallsBack() int {
	compile := a.Method("functions", "ExprBridge", "CompileExpressionWithStreamSQLFunctions")
	isExprCall := func(in ssa.Instruction, name string) bool {
		c, ok := in.(*ssa.Call)
		if !ok {
			return false
		}
		sc := c.Call.StaticCallee()
		return sc != nil && sc.Pkg != nil && sc.Pkg.Pkg.Path() == "github.com/expr-lang/expr" && sc.Name() == name
	}
	n := 0
	for _, fn := range a.ModFuncs {
		if fn.Pkg != a.Pkg("functions") || fn.Blocks == nil {
			continue
		}
		allInstrs(fn, func(in ssa.Instruction) {
			c, isCall := in.(*ssa.Call)
			if !isCall {
				return
			}
			var progArg ssa.Value
			if isExprCall(in, "Run") {
				progArg = c.Call.Args[0]
			} else if sc := c.Call.StaticCallee(); sc != nil && sc.Name() == "Run" && sc.Pkg != nil && sc.Pkg.Pkg.Path() == "github.com/expr-lang/expr/vm" && len(c.Call.Args) >= 2 {
				progArg = c.Call.Args[1] // (*vm.VM).Run(program, env)
			} else {
				return
			}
			// the program comes from the compile-and-cache entry point
			cached := false
			for x := range sliceThroughLocals(progArg, fn, 8) {
				if cc, ok := x.(*ssa.Call); ok && cc.Call.StaticCallee() == compile {
					cached = true
				}
			}
			if !cached {
				return
			}
			n++
			pass := func(x ssa.Instruction) bool {
				if isExprCall(x, "Eval") {
					return true
				}
				if r, ok := x.(*ssa.Return); ok && len(r.Results) > 0 {
					last := r.Results[len(r.Results)-1]
					if isErrorType(last.Type()) && isNilConst(last) {
						return true // a success return
					}
				}
				return false
			}
			// a helper that reports failure through a flag instead of an error ((value, ok)) hands the
			// decision to its callers: judged from each call site
			starts := []ssa.Instruction{c}
			hasErr := false
			if res := fn.Signature.Results(); res.Len() > 0 && isErrorType(res.At(res.Len()-1).Type()) {
				hasErr = true
			}
			if !hasErr {
				starts = nil
				if node := a.CG().Nodes[fn]; node != nil {
					for _, e := range node.In {
						if a.fnInModule(e.Caller.Func) {
							starts = append(starts, e.Site)
						}
					}
				}
			}
			var bad ssa.Instruction
			for _, st := range starts {
				if b := pathToExitAvoiding(st, pass, false); b != nil {
					bad = b
				}
			}
			if len(starts) == 0 {
				bad = c
			}
			pos := c.Pos()
			if bad != nil {
				pos = bad.Pos()
			}
			a.Check(bad == nil, fname(fn)+"#cached-program-failure-falls-back", pos,
				"a failing run of the cached program is followed by the evaluation against the row itself (expr.Eval) before any error is returned",
				"an error can be returned after the cached program failed, without evaluating the expression against the row itself: the program was compiled against another row's value types (process-wide cache keyed by text), so the result of a row depends on the rows seen before it")
		})
	}
	if n == 0 {
		a.anchorFail("no expr.Run of a cached program found in package functions")
	}
	return n
}

// ruleMemoKeyIsTheInput: the bridge memoizes per expression text (preprocessed text, compiled
// program) in process-wide sync.Maps. A memo is only right if distinct inputs have distinct keys: the
// key of every Load/Store/LoadOrStore on a sync.Map field in package functions is the function's own
// string parameter, unmodified — a key computed from the text (case- or whitespace-folded, trimmed,
// hashed) lets two different expressions share one entry, and the answer depends on which was seen
// first (`'  '` and `' '` inside a literal differ only in whitespace).
func (a *A) ruleMemoKeyIsTheInput() int {
	n := 0
	for _, fn := range a.ModFuncs {
		if fn.Pkg != a.Pkg("functions") || fn.Blocks == nil {
			continue
		}
		allInstrs(fn, func(in ssa.Instruction) {
			cc := callCommon(in)
			if cc == nil {
				return
			}
			callee := cc.StaticCallee()
			if callee == nil || callee.Signature.Recv() == nil || !isNamedType(callee.Signature.Recv().Type(), "sync", "Map") || len(cc.Args) < 2 {
				return
			}
			switch callee.Name() {
			case "Load", "Store", "LoadOrStore", "LoadAndDelete", "Delete":
			default:
				return
			}
			if _, ok := cc.Args[0].(*ssa.FieldAddr); !ok {
				return
			}
			key := cc.Args[1]
			if mi, ok := key.(*ssa.MakeInterface); ok {
				key = mi.X
			}
			if b, ok := key.Type().Underlying().(*types.Basic); !ok || b.Kind() != types.String {
				return // not a text-keyed memo
			}
			n++
			// the text itself, or a concatenation that contains it unmodified (a type tag in front of it)
			var hasParam func(v ssa.Value, d int) bool
			hasParam = func(v ssa.Value, d int) bool {
				if _, ok := v.(*ssa.Parameter); ok {
					return true
				}
				if bo, ok := v.(*ssa.BinOp); ok && bo.Op == token.ADD && d < 4 {
					return hasParam(bo.X, d+1) || hasParam(bo.Y, d+1)
				}
				return false
			}
			isParam := hasParam(key, 0)
			a.Check(isParam, fmt.Sprintf("%s#%s(%s)-key", fname(fn), callee.Name(), TermOf(cc.Args[0], nil).String()), in.Pos(),
				"the memo key is the function's text parameter itself",
				"the memo key is "+TermOf(key, nil).String()+", computed from the text instead of being the text: two different expressions can share one entry of the process-wide cache, and which answer a query gets depends on what was evaluated before")
		})
	}
	return n
}
