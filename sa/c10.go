package main

import (
	"fmt"
	"go/token"
	"go/types"
	"strings"

	"golang.org/x/tools/go/ssa"
)

func init() {
	register(&Prop{
		ID:         "C10",
		Decided:    "(1) the session key encoder is injective and NULL-distinct (keyenc); (2) end = last activity + timeout wherever lastActive is stored, a new session is [ts, ts+timeout), and the last activity of an open session only moves forward (an accepted out-of-order event does not rewind it, so last+timeout never falls behind the end); (3) a session is marked expired only under time >= its end, the late policy of Add discards only late rows, allowance entries expire only at end+AllowedLateness; (4) gap split: on the branch of Add where a session for the key already exists, the append to that session is unreachable when ts >= that session's end (otherwise the split depends on the expiry goroutine's schedule); (5) sessionMap/triggeredSessions/callback are accessed only under sw.mu; (6) a late row is appended only to a fired session of its own group, and the keys under which gap-closed and fired sessions are kept are numbered by a counter (unique per session). Also: every time.Now() in the window's Add (the processing-time stamp of the row) is executed with the window lock held exclusively, so no Trigger can deliver the stamped interval between the clock read and the placement (locks/clock-read-under-lock). Also: in the methods of SessionWindow no Unlock of mu lies between a call that decides which sessions are expired and a later removal from sessionMap (locks/expiry-decision-atomic): a concurrent Add cannot swap the session under a key between the decision and the firing. Also: in the window's methods that send on its output channel, every receive from that channel (drop-oldest eviction) is followed on every path by an increment of droppedCount (flow/evicted-result-counted). Also: sessions own their row buffers: every value stored into session.data is a fresh slice or grows from that session's own buffer, or - where buffers are recycled - no path connects the release of a session's buffer with the retention of that session in triggeredSessions/sessionMap (shape/session-buffer-own).",
		NotDecided: "that each event is in exactly one reported session under all schedules; window_start as the earliest accepted timestamp under out-of-order input; aggregate values.",
		Run:        runC10,
	})
}

func runC10(a *A) {
	a.Rule("keyenc/session-key", 1, func() { a.keyencRule("window", "", "extractSessionCompositeKey", keyencOpts{}) })
	a.Rule("shape/end-is-last-plus-timeout", 2, func() {
		add := a.Method("window", "SessionWindow", "Add")
		sess := a.Named("window", "session")
		la := a.FieldOf(sess, "lastActive")
		n := 0
		// sessions are built and extended in Add or in a method of SessionWindow it calls (one level)
		hosts := []*ssa.Function{add}
		for _, h := range a.helpersOf(add) {
			if r := h.Signature.Recv(); r != nil && types.Identical(derefT(r.Type()), types.Type(a.Named("window", "SessionWindow"))) {
				hosts = append(hosts, h)
			}
		}
		for _, host := range hosts {
			host := host
			for _, st := range storesToField(host, la) {
				n++
				v := TermOf(st.Val, nil).String()
				// an End with term Add(v, recv.timeout) must be set together with this store: the End-setting
				// instruction dominates the store or is dominated by it
				found := false
				allInstrs(host, func(in ssa.Instruction) {
					var cand *Term
					switch x := in.(type) {
					case *ssa.Store:
						if fa, ok := x.Addr.(*ssa.FieldAddr); ok {
							if s := derefStruct(fa.X.Type()); s != nil && s.Field(fa.Field).Name() == "End" && isNamedType(fa.X.Type(), typesPkg, "TimeSlot") {
								cand = TermOf(x.Val, nil)
							}
						}
					case *ssa.Call:
						if cal := x.Call.StaticCallee(); cal != nil && cal.Name() == "NewTimeSlot" && len(x.Call.Args) == 2 {
							cand = TermOf(x.Call.Args[1], nil)
						}
					}
					if cand != nil && isAddOf(cand, v, "window.SessionWindow", "timeout") && (dominatesInstr(in, st) || dominatesInstr(st, in)) {
						found = true
					}
				})
				a.Check(found, fname(add)+"#end=last+timeout", st.Pos(),
					"lastActive = "+v+" and the slot end is set to "+v+".Add(timeout)",
					"lastActive is set to "+v+" but no slot End = "+v+".Add(timeout) is stored: window_end and expiry would not follow the last event")
			}
		}
		if n == 0 {
			a.Und(fname(add)+"#end=last+timeout", add.Pos(), "no store to session.lastActive in Add")
		}
	})
	a.Rule("ordtab/last-activity-monotone", 1, func() {
		add := a.Method("window", "SessionWindow", "Add")
		la := a.FieldOf(a.Named("window", "session"), "lastActive")
		n := 0
		for _, st := range storesToField(add, la) {
			if isFreshObject(st.Addr.(*ssa.FieldAddr)) {
				continue // a session created in this call
			}
			n++
			a.storeOnlyIfGreater(add, st, la, false)
		}
		if n == 0 {
			a.Und(fname(add)+"#store-lastActive", add.Pos(), "no update of an existing session's lastActive found")
		}
	})
	a.Rule("ordtab/expiry-guard", 1, func() { a.ruleSessionExpiry() })
	a.Rule("flow/late-policy", 2, func() {
		a.ruleLatePolicy(a.Named("window", "SessionWindow"), a.Method("window", "SessionWindow", "Add"))
	})
	a.Rule("flow/late-row-own-group", 2, func() { a.ruleLateRowOwnGroup() })
	a.Rule("ordtab/gap-split", 1, func() { a.ruleGapSplit() })
	a.Rule("locks/guarded-by", 5, func() { a.lockRules("window", "SessionWindow") })
	a.Rule("locks/expiry-decision-atomic", 2, func() { a.ruleExpiryDecisionAtomic() })
	a.Rule("locks/clock-read-under-lock", 1, func() { a.ruleClockReadUnderLock(a.Named("window", "SessionWindow")) })
	a.Rule("flow/evicted-result-counted", 1, func() { a.ruleEvictedResultCounted(a.Named("window", "SessionWindow")) })
	a.Rule("shape/session-buffer-own", 2, func() { a.ruleSessionBufferOwn() })
}

// ruleGapSplit: in Add, the row may be appended to the session found in sessionMap only when
// ts <= that session's end (slot.End or lastActive+timeout).
func (a *A) ruleGapSplit() {
	add := a.Method("window", "SessionWindow", "Add")
	W := a.Named("window", "SessionWindow")
	smap := a.FieldOf(W, "sessionMap")
	construct := fname(add) + "#gap-split"
	// the looked-up session: Lookup(commaok) on recv.sessionMap
	var lk *ssa.Lookup
	allInstrs(add, func(in ssa.Instruction) {
		if l, ok := in.(*ssa.Lookup); ok && l.CommaOk {
			if t := TermOf(l.X, nil); t.Kind == "field" && t.Field == smap {
				lk = l
			}
		}
	})
	// or a plain lookup whose result is tested for nil (`s := sw.sessionMap[key]; if s != nil`): existence is
	// "the looked-up pointer is not nil"
	plain := false
	if lk == nil {
		allInstrs(add, func(in ssa.Instruction) {
			if l, ok := in.(*ssa.Lookup); ok && !l.CommaOk {
				if t := TermOf(l.X, nil); t.Kind == "field" && t.Field == smap {
					lk, plain = l, true
				}
			}
		})
	}
	if lk == nil {
		a.Und(construct, add.Pos(), "no comma-ok lookup in sessionMap found in Add")
		return
	}
	var existsV ssa.Value
	for _, r := range *lk.Referrers() {
		if ex, ok := r.(*ssa.Extract); ok && ex.Index == 1 {
			existsV = ex
		}
	}
	// targets: stores to session.data whose session is the looked-up one, in blocks where exists is
	// known true or on a phi-merged session (s = phi[new, existing])
	sess := a.Named("window", "session")
	dataF := a.FieldOf(sess, "data")
	var targets []ssa.Instruction
	for _, st := range storesToField(add, dataF) {
		targets = append(targets, st)
	}
	if len(targets) == 0 {
		a.Und(construct, add.Pos(), "no store to session.data in Add")
		return
	}
	tset := map[ssa.Instruction]bool{}
	for _, t := range targets {
		tset[t] = true
	}
	spec := OrdSpec{Roles: []string{"ts", "E"},
		Role: func(t *Term) string {
			if t.Kind == "extract" && t.Idx == 0 && t.Base.Kind == "call" && t.Base.Name == "window.extractTimestamp" {
				return "ts"
			}
			if t.Kind == "call" && t.Name == "time.Now" {
				return "ts" // processing-time fallback stamp of the arriving row
			}
			if f, base := slotField(t); f == "End" && isFieldOf(base, "window.session", "slot") {
				return "E"
			}
			if t.Kind == "call" && t.Name == "(time.Time).Add" && len(t.Args) == 2 &&
				isFieldOf(t.Args[0], "window.session", "lastActive") && isFieldOf(t.Args[1], "window.SessionWindow", "timeout") {
				return "E"
			}
			return ""
		},
		Assume: func(t *Term, v ssa.Value) Tri {
			if v == existsV && existsV != nil {
				return T // the branch under test: a session for the key exists
			}
			if plain {
				if x, nilWhenTrue, ok := nilTest(v); ok && x == ssa.Value(lk) {
					return tri(!nilWhenTrue) // the looked-up session is not nil
				}
			}
			return U
		}}
	a.OnlyIf(construct, lk.Pos(), "an event at or beyond the end of the key's open session does not join it (the session fires as soon as the watermark reaches its end: a row at exactly the end would join or not depending on whether the expiry ran first)", spec,
		add.Blocks[0], nil, nil,
		func(in ssa.Instruction, w *Walker) bool {
			if !tset[in] {
				return false
			}
			// only an append to the session that was found in the map counts (a session created on
			// this path is a new one)
			st := in.(*ssa.Store)
			base := w.Term(st.Addr.(*ssa.FieldAddr).X)
			return base.Kind == "index" && base.Base.Kind == "field" && base.Base.Field == smap
		},
		func(r map[string]int, _ map[string]bool) bool { return r["ts"] < r["E"] })
	_ = token.NoPos
	_ = types.Typ
}

// ruleLateRowOwnGroup: with ALLOWEDLATENESS a late row may update a session that has already been
// delivered — but only a session of its own group, and every delivered session has to stay findable
// until its allowance ends:
//
//	(a) in handleLateData the append of the row to a fired session is guarded by a comparison that
//	    involves the row's group key (extractSessionCompositeKey of the row);
//	(b) the key under which a fired session is stored in triggeredSessions involves a counter unique to
//	    the firing (else the group's next fired session overwrites one that is still open).
func (a *A) ruleLateRowOwnGroup() {
	W := a.Named("window", "SessionWindow")
	h := a.Method("window", "SessionWindow", "handleLateData")
	keyFn := a.Func("window", "extractSessionCompositeKey")
	// (a)
	fromRowKey := func(v ssa.Value) bool {
		for x := range backwardSlice(v, 6) {
			if c, ok := x.(*ssa.Call); ok && c.Call.StaticCallee() == keyFn {
				return true
			}
		}
		return false
	}
	n := 0
	allInstrs(h, func(in ssa.Instruction) {
		c, ok := in.(*ssa.Call)
		if !ok {
			return
		}
		if _, isApp := isBuiltinCall(c, "append"); !isApp {
			return
		}
		n++
		compared := func(gs []Guard) bool {
			for _, g := range gs {
				if bo, isB := g.Cond.(*ssa.BinOp); isB && (bo.Op == token.EQL || bo.Op == token.NEQ) && (fromRowKey(bo.X) || fromRowKey(bo.Y)) {
					return true
				}
			}
			return false
		}
		ok2 := compared(guardsOf(c.Block()))
		if !ok2 {
			// the session was picked by a search and carried in a variable (`target = info.session; break` …
			// `append(target.data, row)`): the comparison held where each candidate was chosen
			if ld, isLd := c.Call.Args[0].(*ssa.UnOp); isLd && ld.Op == token.MUL {
				if fa, isFa := ld.X.(*ssa.FieldAddr); isFa {
					if phi, isPhi := fa.X.(*ssa.Phi); isPhi {
						all, some := true, false
						for _, el := range phiLeafEdges(phi) {
							if k, isK := el.v.(*ssa.Const); isK && k.Value == nil {
								continue
							}
							some = true
							if el.from == nil || !compared(guardsOf(el.from)) {
								all = false
							}
						}
						ok2 = all && some
					}
				}
			}
		}
		a.Check(ok2, fname(h)+"#own-group", c.Pos(), "a late row is appended to a fired session only after its group key was compared with the session's",
			"a late row is appended to the first fired session whose bounds contain its timestamp, whatever group it belongs to: device B's late row re-delivers device A's session")
	})
	if n == 0 {
		a.Und(fname(h)+"#own-group", h.Pos(), "no append found in handleLateData")
	}
	// (b)
	trig := a.FieldOf(W, "triggeredSessions")
	seq := a.FieldOf(W, "parkedSeq")
	m := 0
	for _, fn := range a.ModFuncs {
		allInstrs(fn, func(in ssa.Instruction) {
			mu, ok := in.(*ssa.MapUpdate)
			if !ok {
				return
			}
			if t := TermOf(mu.Map, nil); t.Kind != "field" || t.Field != trig {
				return
			}
			m++
			unique := false
			unique = a.sliceInvolvesField(mu.Key, seq, 2)
			a.Check(unique, fname(fn)+"#fired-session-key-unique", mu.Pos(), "each fired session is stored under a key numbered by the firing",
				"a fired session is stored under "+TermOf(mu.Key, nil).String()+", which is the same for every session of the group: the next fired session of the group evicts one that is still open for late rows")
		})
	}
	if m == 0 {
		a.Und("triggeredSessions#fired-session-key-unique", token.NoPos, "no store into triggeredSessions found")
	}
	// (c) a session closed by a gap is parked in sessionMap under a reserved key until it is delivered;
	// that key, too, has to be unique per parking (two gap-closed sessions of one key can be pending at
	// once when the watermark lags): it involves the parking counter, not a property of the session
	// such as its start time, which two sessions can share after rounding.
	smap := a.FieldOf(W, "sessionMap")
	for _, fn := range a.ModFuncs {
		allInstrs(fn, func(in ssa.Instruction) {
			mu, ok := in.(*ssa.MapUpdate)
			if !ok {
				return
			}
			if t := TermOf(mu.Map, nil); t.Kind != "field" || t.Field != smap {
				return
			}
			// the plain group key (result of extractSessionCompositeKey) is the key of the group's open
			// session; any other key is a derived one, i.e. a parked session
			parked := true
			for _, l := range phiLeaves(mu.Key) {
				if c, ok := l.(*ssa.Call); ok && c.Call.StaticCallee() == keyFn {
					parked = false
				}
			}
			if !parked {
				return
			}
			_ = strings.HasPrefix
			unique := false
			unique = a.sliceInvolvesField(mu.Key, seq, 2)
			a.Check(unique, fname(fn)+"#parked-session-key-unique", mu.Pos(), "each gap-closed session is parked under a key numbered by the parking",
				"a gap-closed session is parked under "+TermOf(mu.Key, nil).String()+", which two pending sessions of one key can share: the later one overwrites the earlier, whose events are never reported")
		})
	}
}

// sliceInvolvesField: v is computed from field f - directly, or through the result of a helper the change
// introduced (its returned values are followed, `hops` helpers deep).
func (a *A) sliceInvolvesField(v ssa.Value, f *types.Var, hops int) bool {
	for x := range backwardSlice(v, 8) {
		if t := TermOf(x, nil); t.Kind == "field" && t.Field == f {
			return true
		}
		if c, ok := x.(*ssa.Call); ok && hops > 0 {
			if h := c.Call.StaticCallee(); h != nil && h.Blocks != nil && a.fnInModule(h) && isNewFunc(h) && h.Signature.Results().Len() == 1 {
				for _, l := range returnLeaves(h, 0) {
					if a.sliceInvolvesField(l, f, hops-1) {
						return true
					}
				}
			}
		}
	}
	return false
}

// backwardSlice: the values v is computed from (operands, transitively, bounded depth).
func backwardSlice(v ssa.Value, depth int) map[ssa.Value]bool {
	out := map[ssa.Value]bool{}
	var walk func(x ssa.Value, d int)
	walk = func(x ssa.Value, d int) {
		if x == nil || out[x] || d > depth {
			return
		}
		out[x] = true
		if in, ok := x.(ssa.Instruction); ok {
			for _, op := range in.Operands(nil) {
				if *op != nil {
					walk(*op, d+1)
				}
			}
		}
	}
	walk(v, 0)
	return out
}

// ruleExpiryDecisionAtomic: that a session has expired is decided by looking at it under the
// window lock (watermark >= its end), and a concurrent Add may at any time replace the session stored
// under a key by a fresh one. The decision and the removal of the session from sessionMap therefore
// belong to one critical section: in the methods of SessionWindow no Unlock of mu lies between a call
// that decides which sessions are expired (a function looping over sessionMap with a time comparison)
// and a later removal from sessionMap. Otherwise the stale key fires the fresh session before the
// watermark has reached its end, and the key's next row starts yet another session.
func (a *A) ruleExpiryDecisionAtomic() int {
	W := a.Named("window", "SessionWindow")
	smap := a.FieldOf(W, "sessionMap")
	isMethodOfW := func(fn *ssa.Function) bool {
		root := fn
		for root.Parent() != nil {
			root = root.Parent()
		}
		r := root.Signature.Recv()
		return r != nil && types.Identical(derefT(r.Type()), W)
	}
	decides := map[*ssa.Function]bool{}
	removes := map[*ssa.Function]bool{}
	decidesHere := map[ssa.Instruction]bool{} // the time comparisons of a scan over sessionMap: the decision itself
	var methods []*ssa.Function
	for _, fn := range a.ModFuncs {
		if fn.Blocks == nil || !isMethodOfW(fn) {
			continue
		}
		methods = append(methods, fn)
		for _, l := range mapRangeLoops(fn) {
			if t := TermOf(l.X, nil); t.Kind != "field" || t.Field != smap {
				continue
			}
			for b := range l.Blocks {
				for _, in := range b.Instrs {
					if c, ok := in.(*ssa.Call); ok {
						switch timeMethod(&c.Call) {
						case "Before", "After", "Equal", "Compare":
							decides[fn] = true
							decidesHere[in] = true
						}
					}
				}
			}
		}
		allInstrs(fn, func(in ssa.Instruction) {
			if c, ok := in.(*ssa.Call); ok {
				if cc, ok := isBuiltinCall(c, "delete"); ok {
					if t := TermOf(cc.Args[0], nil); t.Kind == "field" && t.Field == smap {
						removes[fn] = true
					}
				}
			}
		})
	}
	// one level up: a method that calls a deciding / removing method
	callsInto := func(in ssa.Instruction, set map[*ssa.Function]bool) bool {
		if _, isGo := in.(*ssa.Go); isGo {
			return false
		}
		callee := staticCallee(in)
		return callee != nil && set[callee]
	}
	key := lockKey{ownerName(types.NewPointer(W)), "mu"}
	isUnlock := func(in ssa.Instruction) bool {
		cc := callCommon(in)
		if cc == nil {
			return false
		}
		if _, isDefer := in.(*ssa.Defer); isDefer {
			return false
		}
		k, op, ok := lockOp(cc)
		return ok && k == key && (op == "Unlock" || op == "RUnlock")
	}
	n := 0
	for _, fn := range methods {
		// the decision is a call of a deciding method, or the scan written out in this very method
		isDecision := func(in ssa.Instruction) bool { return callsInto(in, decides) || decidesHere[in] }
		isRemoval := func(in ssa.Instruction) bool {
			if callsInto(in, removes) {
				return true
			}
			if c, ok := in.(*ssa.Call); ok {
				if cc, ok := isBuiltinCall(c, "delete"); ok {
					if t := TermOf(cc.Args[0], nil); t.Kind == "field" && t.Field == smap {
						return true
					}
				}
			}
			return false
		}
		var decisions []ssa.Instruction
		allInstrs(fn, func(in ssa.Instruction) {
			if isDecision(in) {
				decisions = append(decisions, in)
			}
		})
		for _, d := range decisions {
			n++
			var bad ssa.Instruction
			// an unlock reachable after the decision, from which a removal is reachable
			seenU := map[ssa.Instruction]bool{}
			from := d
			for {
				u := reachableAfter(from, func(x ssa.Instruction) bool { return isUnlock(x) && !seenU[x] }, nil)
				if u == nil {
					break
				}
				seenU[u] = true
				if r := reachableAfter(u, isRemoval, func(x ssa.Instruction) bool { return isDecision(x) }); r != nil {
					bad = r
					break
				}
			}
			pos := d.Pos()
			if bad != nil {
				pos = bad.Pos()
			}
			a.Check(bad == nil, fmt.Sprintf("%s#expiry-decision-atomic", fname(fn)), pos,
				"no Unlock of "+key.String()+" lies between the decision which sessions are expired and the removal of a session from sessionMap",
				"sessions are removed from sessionMap at "+a.pos(pos)+" after the lock was released since the decision which of them are expired ("+a.pos(d.Pos())+"): an Add in between can park the expired session and store a fresh one under the same key, which is then fired before the watermark reaches its end")
		}
	}
	if n == 0 {
		a.anchorFail("no method of SessionWindow calls a function that decides session expiry")
	}
	return n
}

// ruleSessionBufferOwn: "each event is in exactly one session" needs every session to own its row
// buffer: a fired session kept for late data (triggeredSessions) and a parked one still refer to
// theirs. Decided in two steps. (1) Every value stored into session.data is a fresh slice (a literal,
// make, nil) or the result of appending to that same session's buffer: then nothing can be shared.
// (2) Otherwise buffers are recycled (a free list): at every place where a session's buffer is put
// into a field of the window, that session must not also be retained - no feasible path in the
// function connects the instruction that stores the session into sessionInfo / triggeredSessions /
// sessionMap with the one that releases its buffer. (A free list fed only with buffers of sessions
// that are gone is fine; one that is fed with the buffer of a session kept for late rows hands that
// session's rows to the next session that is opened.)
// freshSliceChain: every way v came about is a slice made in this function (make, nil, a composite literal) or such a
// slice grown by append: its backing array is referenced by nothing that existed before.
func freshSliceChain(v ssa.Value, seen map[ssa.Value]bool) bool {
	if seen[v] {
		return true // loop-carried: judged by the other edges
	}
	seen[v] = true
	switch x := v.(type) {
	case *ssa.MakeSlice:
		return true
	case *ssa.Const:
		return x.Value == nil
	case *ssa.Slice:
		if al, ok := x.X.(*ssa.Alloc); ok && al.Comment == "slicelit" {
			return true
		}
		return freshSliceChain(x.X, seen) && isZeroOrNil(x.Low)
	case *ssa.Phi:
		for _, e := range x.Edges {
			if !freshSliceChain(e, seen) {
				return false
			}
		}
		return true
	case *ssa.Call:
		if cc, ok := isBuiltinCall(x, "append"); ok {
			return freshSliceChain(cc.Args[0], seen)
		}
	}
	return false
}

func isZeroOrNil(v ssa.Value) bool { return v == nil || isZeroConst(v) }

func (a *A) ruleSessionBufferOwn() int {
	S := a.Named("window", "session")
	W := a.Named("window", "SessionWindow")
	dataF := a.FieldOf(S, "data")
	n := 0
	recycled := false
	for _, fn := range a.ModFuncs {
		if ssaPkgOf(fn) != a.Pkg("window") || fn.Blocks == nil {
			continue
		}
		for _, st := range storesToField(fn, dataF) {
			n++
			fa := st.Addr.(*ssa.FieldAddr)
			foreign := ""
			for _, l := range phiLeaves(st.Val) {
				switch x := l.(type) {
				case *ssa.MakeSlice:
					continue
				case *ssa.Const:
					if x.Value == nil {
						continue
					}
				case *ssa.Slice:
					if _, isAlloc := x.X.(*ssa.Alloc); isAlloc {
						continue // composite literal []types.Row{...}
					}
				case *ssa.Call:
					if cc, isAp := isBuiltinCall(x, "append"); isAp {
						// growth of this very session's buffer
						if t := TermOf(cc.Args[0], nil); t.Kind == "field" && t.Field == dataF && t.Base != nil && t.Base.String() == TermOf(fa.X, nil).String() {
							continue
						}
						if freshSliceChain(cc.Args[0], map[ssa.Value]bool{}) {
							continue // built element by element in a slice made here
						}
					}
				}
				foreign = TermOf(l, nil).String()
			}
			if foreign != "" {
				recycled = true
				a.Ok(fmt.Sprintf("session.data<-%s", fname(fn)), st.Pos(), "the session's row buffer is taken from %s: buffers are recycled, the release sites are checked", foreign).Trivial = true
			} else {
				a.Ok(fmt.Sprintf("session.data<-%s", fname(fn)), st.Pos(), "the session's row buffer is a fresh slice or grows from its own")
			}
		}
	}
	if n == 0 {
		a.anchorFail("no store to window.session.data found")
	}
	if !recycled {
		return n
	}
	// (2) release sites: a value derived from <s>.data stored into / appended to a field of the window
	derivedFromData := func(v ssa.Value) ssa.Value { // returns the *session value s, or nil
		for i := 0; i < 6; i++ {
			switch x := v.(type) {
			case *ssa.Slice:
				v = x.X
				continue
			case *ssa.UnOp:
				if x.Op == token.MUL {
					if fa, ok := x.X.(*ssa.FieldAddr); ok && fieldVarOf(fa) == dataF {
						return fa.X
					}
				}
			}
			return nil
		}
		return nil
	}
	releases := 0
	for _, fn := range a.ModFuncs {
		if ssaPkgOf(fn) != a.Pkg("window") || fn.Blocks == nil {
			continue
		}
		fn := fn
		allInstrs(fn, func(in ssa.Instruction) {
			var sess ssa.Value
			switch x := in.(type) {
			case *ssa.Store:
				if fa, ok := x.Addr.(*ssa.FieldAddr); ok && isNamedType(derefT(fa.X.Type()), W.Obj().Pkg().Path(), W.Obj().Name()) {
					for _, l := range phiLeaves(x.Val) {
						if c, isCall := l.(*ssa.Call); isCall {
							if cc, isAp := isBuiltinCall(c, "append"); isAp {
								for _, e := range appendedElems(cc) {
									if s := derivedFromData(e); s != nil {
										sess = s
									}
								}
							}
						}
						if s := derivedFromData(l); s != nil {
							sess = s
						}
					}
				}
			}
			if sess == nil {
				return
			}
			releases++
			// retain sites of the same session value in this function
			sessT := TermOf(sess, nil).String()
			var retains []ssa.Instruction
			allInstrs(fn, func(y ssa.Instruction) {
				switch r := y.(type) {
				case *ssa.Store:
					if TermOf(r.Val, nil).String() == sessT && r.Val.Type() == sess.Type() {
						if fa, ok := r.Addr.(*ssa.FieldAddr); ok && fieldVarOf(fa) != nil && fieldVarOf(fa).Name() == "session" {
							retains = append(retains, y)
						}
					}
				case *ssa.MapUpdate:
					if TermOf(r.Value, nil).String() == sessT && r.Value.Type() == sess.Type() {
						retains = append(retains, y)
					}
				}
			})
			bad := ""
			for _, r := range retains {
				r := r
				if pathFromTo(r, func(x ssa.Instruction) bool { return x == in }, nil, nil) ||
					pathFromTo(in, func(x ssa.Instruction) bool { return x == r }, nil, nil) {
					bad = a.pos(r.Pos())
				}
			}
			a.Check(bad == "", fmt.Sprintf("release(session.data)@%s", fname(fn)), in.Pos(),
				"the buffer put on the free list belongs to a session that is not retained on any path",
				"the row buffer of a session is released for reuse although the same session is retained (stored at "+bad+", reachable on one path with the release): the next session opened overwrites the rows of a session that can still be re-delivered - events appear in a session they do not belong to and vanish from their own")
		})
	}
	if releases == 0 {
		a.Und("release(session.data)", token.NoPos, "session buffers are taken from a shared place but no release site was recognised")
	}
	return n
}
