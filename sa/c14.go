package main

func init() {
	register(&Prop{ID: "C14", Decided: "wip", NotDecided: "wip", Run: func(a *A) {
		a.Rule("keyenc/partition", 1, func() { a.keyencRule("stream", "analyticFieldEngine", "partitionKey", keyencOpts{}) })
		a.Rule("keyenc/cep", 1, func() { a.keyencRule("stream", "cepRunner", "partitionKey", keyencOpts{}) })
		a.Rule("keyenc/table", 1, func() { a.keyencRule("stream", "", "encodeKey", keyencOpts{TypeTags: true}) })
	}})
}
