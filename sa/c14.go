package main

import (
	"go/constant"
	"fmt"
	"go/token"
	"strings"

	"golang.org/x/tools/go/ssa"
)

func init() {
	register(&Prop{
		ID:         "C14",
		Decided:    "(1) evaluation order relative to WHERE in the function both API paths share: with a WHERE free of analytic calls the predicate is evaluated first and a rejected row never reaches the analytic engine (state not advanced); with analytic calls in WHERE the engine runs before the predicate; (2) the partition key encoder is typed and length-prefixed (uniquely decodable, NULL distinct), and the PARTITION BY value is resolved by exact name, then as a path, the bare-suffix heuristic only as a fallback; (3) WHEN gating: on the false edge of the WHEN predicate no state is looked up or advanced; (4) LRU eviction is reachable only when the number of live partitions exceeds the cap, and it removes the oldest entry together with its last result; (5) every AnalyticState implementation: NewState returns a new object sharing no reference-typed state with the prototype, Apply writes only its receiver; (6) partitions/lru/lastResults/noPart/wrapperParsed are accessed only under fe.mu. Also: analytic placeholder columns are written only into a map created by the writing function (never into a row other fields of the same event read). Also: in every analytic state machine's Apply, with all optional arguments present, every path to a return evaluates each boolean condition argument (acc_xxx start/reset, ignoreNull) or leaves through the branch on which an earlier condition argument held (flow/condition-args-every-row): a NULL main value cannot skip a start/reset. Also: the loop that applies the analytic calls of a wrapper field to a row has no exit other than the exhausted call list (flow/all-calls-applied): a NULL result of one call cannot keep later calls from seeing the row.",
		NotDecided: "each function's definition (offsets, defaults, NULL skipping, start/reset arguments), wrapper-expression values, behaviour above the partition cap beyond 'the oldest goes'.",
		Run:        runC14,
	})
}

func runC14(a *A) {
	a.Rule("flow/where-order", 3, func() {
		fn := a.Method("stream", "Stream", "applyWhereAndAnalytic")
		evalAn := a.Method("stream", "Stream", "evalAnalytic")
		// a boolean helper that wraps the predicate (passesWhere): its call is the predicate evaluation
		filterHelper := map[*ssa.Function]bool{}
		for _, h := range a.helpersOf(fn) {
			if res := h.Signature.Results(); res.Len() != 1 || !isBool(res.At(0).Type()) {
				continue
			}
			allInstrs(h, func(in ssa.Instruction) {
				if c := callCommon(in); isPredicateEvalCall(c) {
					filterHelper[h] = true
				}
			})
		}
		for _, cs := range []struct {
			whereUses, pass bool
			want            string
			what            string
		}{
			{false, false, "F", "WHERE without analytic calls, row rejected: the analytic engine is not run (state not advanced)"},
			{false, true, "FA", "WHERE without analytic calls, row accepted: predicate first, then the analytic engine"},
			{true, true, "AF", "WHERE with analytic calls: the analytic engine runs before the predicate"},
			{true, false, "AF", "WHERE with analytic calls, row rejected: the engine has still run first"},
		} {
			env := &Env{a: a, Rank: map[string]int{}, Flags: map[string]bool{},
				Assume: func(t *Term, v ssa.Value) Tri {
					if predicateVerdict(v) {
						return tri(cs.pass)
					}
					if c, ok := v.(*ssa.Call); ok && c.Call.StaticCallee() != nil && filterHelper[c.Call.StaticCallee()] {
						return tri(cs.pass)
					}
					// a predicate that held was evaluated without error (the variant that reports the error returns
					// false with it)
					if x, nilWhenTrue, ok := nilTest(v); ok && cs.pass {
						if ex, isEx := x.(*ssa.Extract); isEx && ex.Index == 1 {
							if c, isCall := ex.Tuple.(*ssa.Call); isCall && isPredicateEvalCall(&c.Call) {
								return tri(nilWhenTrue)
							}
						}
					}
					if bo, ok := v.(*ssa.BinOp); ok {
						if (bo.Op == token.NEQ || bo.Op == token.EQL) && isFieldOf(TermOf(bo.X, nil), "stream.Stream", "filter") {
							return tri(bo.Op == token.NEQ)
						}
						// len(WhereAnalyticCalls) compared with 0, whichever way it is written
						if t := TermOf(bo.X, nil); t.Kind == "len" && isFieldOf(t.Base, "types.Config", "WhereAnalyticCalls") && isZeroConst(bo.Y) {
							switch bo.Op {
							case token.GTR, token.NEQ:
								return tri(cs.whereUses)
							case token.EQL, token.LEQ:
								return tri(!cs.whereUses)
							}
						}
					}
					return U
				}}
			w := NewWalker(env, nil)
			w.RetIdx = -1
			seq := map[*pstate]string{}
			w.Target = func(in ssa.Instruction, w *Walker) bool {
				// the sequence is carried in the path state itself (a fork copies it)
				_ = seq
				if staticCallee(in) == evalAn {
					w.Tag(w.cur.tag + "A")
				}
				if c := callCommon(in); isPredicateEvalCall(c) {
					w.Tag(w.cur.tag + "F")
				}
				if callee := staticCallee(in); callee != nil && filterHelper[callee] {
					w.Tag(w.cur.tag + "F")
				}
				return false
			}
			outs := w.Run(fn.Blocks[0], nil)
			construct := fmt.Sprintf("%s#order[whereUsesAnalytic=%v,pass=%v]", fname(fn), cs.whereUses, cs.pass)
			bad := ""
			for _, o := range outs {
				if o.Tag != cs.want {
					bad = fmt.Sprintf("observed call sequence %q (A = analytic engine, F = WHERE predicate), expected %q", o.Tag, cs.want)
				}
			}
			// conditions that have nothing to do with the order (a nil test of a metrics counter, a debug
			// switch) fork the walk; every resulting path must show the expected sequence
			if len(outs) == 0 {
				bad = "no path through the function under the fixed conditions"
			}
			for _, o := range outs {
				if o.Ended == "overflow" {
					bad = "path budget exceeded"
				}
			}
			a.Check(bad == "", construct, fn.Pos(), cs.what, cs.what+" — "+bad)
		}
	})
	a.Rule("keyenc/partition", 1, func() { a.keyencRule("stream", "analyticFieldEngine", "partitionKey", keyencOpts{}) })
	a.Rule("flow/partition-field-resolution", 1, func() {
		fn := a.Func("stream", "resolvePartitionField")
		isNested := func(in ssa.Instruction) bool { return isCallNamed(in, modPath+"/utils/fieldpath", "GetNestedField") }
		isSuffix := func(in ssa.Instruction) bool {
			cal := staticCallee(in)
			return cal != nil && cal.Name() == "lookupRowField"
		}
		a.ruleStageOrder(fn, []stage{
			{name: "exact/nested path lookup", match: isNested},
			{name: "bare-suffix fallback", match: isSuffix, optional: true},
		})
		// the direct row[key] lookup comes first of all
		var direct ssa.Instruction
		allInstrs(fn, func(in ssa.Instruction) {
			if lk, ok := in.(*ssa.Lookup); ok && direct == nil {
				if _, isP := lk.X.(*ssa.Parameter); isP {
					direct = in
				}
			}
		})
		ok := direct != nil
		if ok {
			allInstrs(fn, func(in ssa.Instruction) {
				if (isNested(in) || isSuffix(in)) && !dominatesInstr(direct, in) {
					ok = false
				}
			})
		}
		a.Check(ok, fname(fn)+"#exact-first", fn.Pos(), "the PARTITION BY key is looked up by its exact name first, then as a path; the suffix heuristic is only a fallback",
			"a PARTITION BY column is not resolved by exact name / path before the bare-suffix fallback: a qualified column (m.location) can be taken from another column with the same suffix, merging or splitting partitions")
	})
	a.Rule("flow/when-gating", 1, func() {
		fn := a.Method("stream", "analyticFieldEngine", "evaluate")
		n := 0
		allInstrs(fn, func(in ssa.Instruction) {
			c, ok := in.(*ssa.Call)
			if !ok {
				return
			}
			isState := false
			if cal := c.Call.StaticCallee(); cal != nil && (cal.Name() == "getStateLocked" || cal.Name() == "applyCall") {
				isState = true
			}
			if c.Call.IsInvoke() && strings.HasPrefix(c.Call.Method.Name(), "Apply") {
				isState = true
			}
			if !isState {
				return
			}
			n++
			hit := reachUnder(fn, in, func(v ssa.Value) Tri {
				if predicateVerdict(v) {
					return F
				}
				if bo, ok := v.(*ssa.BinOp); ok && (bo.Op == token.NEQ || bo.Op == token.EQL) && isFieldOf(TermOf(bo.X, nil), "stream.analyticFieldEngine", "whenCond") {
					return tri(bo.Op == token.NEQ)
				}
				if isFieldOf(TermOf(v, nil), "types.AnalyticField", "MultiColumn") {
					return F
				}
				return U
			})
			a.Check(!hit, fname(fn)+"#when-gates-state", in.Pos(), "unreachable when the WHEN predicate is false", "state is looked up / advanced although the WHEN predicate is false for this row")
		})
		if n == 0 {
			a.Und(fname(fn)+"#when-gates-state", fn.Pos(), "no state access found in evaluate")
		}
	})
	a.Rule("ordtab/lru-eviction", 2, func() {
		// the eviction lives in the method of analyticFieldEngine that deletes from fe.partitions
		// (getStateLocked, or a helper it calls)
		fn := a.Method("stream", "analyticFieldEngine", "getStateLocked")
		partsF := a.FieldOf(a.Named("stream", "analyticFieldEngine"), "partitions")
		for _, h := range append([]*ssa.Function{fn}, a.helpersOf(fn)...) {
			has := false
			allInstrs(h, func(in ssa.Instruction) {
				if c, ok := in.(*ssa.Call); ok {
					if cc, ok := isBuiltinCall(c, "delete"); ok {
						if t := TermOf(cc.Args[0], nil); t.Kind == "field" && t.Field == partsF {
							has = true
						}
					}
				}
			})
			if has {
				fn = h
				break
			}
		}
		spec := OrdSpec{Roles: []string{"len", "cap"},
			Role: func(t *Term) string {
				if t.Kind == "call" && t.Name == "(*container/list.List).Len" {
					return "len"
				}
				if isFieldOf(t, "stream.analyticFieldEngine", "maxPartitions") {
					return "cap"
				}
				return ""
			}}
		var delKeys []string
		var firstDel ssa.Instruction
		allInstrs(fn, func(in ssa.Instruction) {
			if c, ok := in.(*ssa.Call); ok {
				if cc, ok := isBuiltinCall(c, "delete"); ok {
					delKeys = append(delKeys, TermOf(cc.Args[0], nil).String()+"["+TermOf(cc.Args[1], nil).String()+"]")
					if firstDel == nil {
						firstDel = in
					}
				}
			}
		})
		if firstDel == nil {
			a.Und(fname(fn)+"#evict-only-above-cap", fn.Pos(), "no eviction (delete) found")
			return
		}
		a.OnlyIf(fname(fn)+"#evict-only-above-cap", firstDel.Pos(), "a partition's state is evicted only when the number of live partitions exceeds the cap", spec,
			fn.Blocks[0], nil, nil,
			func(in ssa.Instruction, _ *Walker) bool {
				c, ok := in.(*ssa.Call)
				if !ok {
					return false
				}
				if _, ok := isBuiltinCall(c, "delete"); ok {
					return true
				}
				return calleeFull(&c.Call) == "(*container/list.List).Remove"
			},
			func(r map[string]int, _ map[string]bool) bool { return r["len"] > r["cap"] })
		// the evicted entry: lru.Back(); partitions and lastResults deleted under the same key
		okKeys := len(delKeys) == 2 && strings.Contains(delKeys[0], "partitions") && strings.Contains(delKeys[1], "lastResults") &&
			delKeys[0][strings.Index(delKeys[0], "["):] == delKeys[1][strings.Index(delKeys[1], "["):]
		back := false
		allInstrs(fn, func(in ssa.Instruction) {
			if c, ok := in.(*ssa.Call); ok && calleeFull(&c.Call) == "(*container/list.List).Remove" {
				if t := TermOf(c.Call.Args[1], nil); t.Kind == "call" && t.Name == "(*container/list.List).Back" {
					back = true
				}
			}
		})
		a.Check(okKeys && back, fname(fn)+"#evicts-oldest-with-result", firstDel.Pos(), "the least recently used entry (lru.Back()) is removed together with its lastResults entry, same key",
			fmt.Sprintf("eviction does not remove lru.Back() with both its partitions and lastResults entries under one key (deletes: %v, removesBack=%v)", delKeys, back))
	})
	a.Rule("aggstate/analytic-states", 6, func() {
		iface := a.Iface("functions", "AnalyticState")
		sa := a.Iface("functions", "StatefulAnalytic")
		impls := a.Implementers(iface)
		accOf := map[string]map[string]bool{}
		for _, T := range impls {
			ap := a.methodOf(T, "Apply")
			if ap == nil {
				continue
			}
			acc := a.ruleConfinedWrites(T, ap)
			m := map[string]bool{}
			for f := range acc {
				m[f.Name()] = true
			}
			accOf[qual(T)] = m
		}
		// NewState of every StatefulAnalytic returns a fresh state
		for _, T := range a.Implementers(sa) {
			ns := a.methodOf(T, "NewState")
			if ns == nil || ns.Blocks == nil {
				continue
			}
			construct := qual(T) + ".NewState#fresh"
			bad := ""
			for _, b := range ns.Blocks {
				ret, ok := b.Instrs[len(b.Instrs)-1].(*ssa.Return)
				if !ok {
					continue
				}
				for _, leaf := range phiLeaves(ret.Results[0]) {
					v := leaf
					if mi, ok := v.(*ssa.MakeInterface); ok {
						v = mi.X
					}
					switch x := v.(type) {
					case *ssa.Alloc:
					case *ssa.Call:
						if cal := x.Call.StaticCallee(); cal == nil || !a.fnInModule(cal) {
							bad = "returns the result of an unknown call"
						}
					default:
						bad = fmt.Sprintf("returns %s, not a new state object: all partitions would share one state", TermOf(v, nil))
					}
				}
			}
			a.Check(bad == "", construct, ns.Pos(), "NewState allocates a new state per partition", bad)
		}
		a.Info("analytic_state_implementations", len(impls))
	})
	a.Rule("locks/guarded-by", 5, func() { a.lockRules("stream", "analyticFieldEngine") })
	a.Rule("ownmap/placeholder-private", 1, func() { a.rulePlaceholderPrivate() })
	a.Rule("flow/condition-args-every-row", 5, func() { a.ruleConditionArgsEveryRow() })
	a.Rule("flow/all-calls-applied", 1, func() { a.ruleAllCallsApplied() })
}

// rulePlaceholderPrivate: the placeholder columns through which an analytic call's value is handed to
// its wrapper expression (__analytic_self__, __analytic_N__) are engine-internal. They may only be
// written into a map created by the function that writes them (a per-field, per-event private copy):
// written into a row that other fields of the same event also read, a whole-row call evaluated later
// (had_changed(x, *), changed_cols(p, x, *)) sees them as extra columns of the row.
func (a *A) rulePlaceholderPrivate() int {
	tokN := a.Func("types", "AnalyticSelfTokenN")
	n := 0
	for _, fn := range a.ModFuncs {
		if fn.Pkg == nil || fn.Pkg != a.Pkg("stream") {
			continue
		}
		allInstrs(fn, func(in ssa.Instruction) {
			mu, ok := in.(*ssa.MapUpdate)
			if !ok {
				return
			}
			isPlaceholder := false
			for _, l := range phiLeaves(mu.Key) {
				if c, ok := l.(*ssa.Call); ok && c.Call.StaticCallee() == tokN {
					isPlaceholder = true
				}
				if strings.HasPrefix(constText(l), "__analytic") {
					isPlaceholder = true
				}
				if bo, ok := l.(*ssa.BinOp); ok && strings.HasPrefix(constText(bo.X), "__analytic") {
					isPlaceholder = true
				}
			}
			if !isPlaceholder {
				return
			}
			n++
			construct := fname(fn) + "#placeholder-target"
			private := true
			var other string
			var judge func(v ssa.Value, d int)
			judge = func(v ssa.Value, d int) {
				for _, l := range phiLeaves(v) {
					if _, ok := l.(*ssa.MakeMap); ok {
						continue
					}
					// a module helper all of whose returns are maps it made itself (copyRow-style)
					if c, ok := l.(*ssa.Call); ok {
						allFresh, any := true, false
						a.calleeReturns(c, 0, func(rv ssa.Value, _ *ssa.Function) {
							any = true
							for _, rl := range phiLeaves(rv) {
								if _, ok := rl.(*ssa.MakeMap); !ok {
									allFresh = false
								}
							}
						}, func(string) { allFresh = false })
						if any && allFresh {
							continue
						}
					}
					// a parameter: the map every caller passes (a helper that fills the caller's private copy)
					if prm, ok := l.(*ssa.Parameter); ok && d < 2 {
						f := prm.Parent()
						idx := -1
						for i, q := range f.Params {
							if q == prm {
								idx = i
							}
						}
						if node := a.CG().Nodes[f]; node != nil && len(node.In) > 0 && idx >= 0 {
							for _, e := range node.In {
								cc := e.Site.Common()
								args := cc.Args
								if cc.IsInvoke() {
									args = append([]ssa.Value{cc.Value}, args...)
								}
								if idx < len(args) {
									judge(args[idx], d+1)
								} else {
									private = false
								}
							}
							continue
						}
					}
					private = false
					other = TermOf(l, nil).String()
				}
			}
			judge(mu.Map, 0)
			a.Check(private, construct, mu.Pos(),
				"placeholder columns are written into a map created in this function",
				"a placeholder column is written into "+other+", a map this function did not create: other fields evaluated for the same event (whole-row calls with a * argument, WHERE) see it as a column of the row")
		})
	}
	return n
}

// mustPassUnder: does every path from fn's entry to a return execute an instruction accepted by pass,
// when branches decided by assume follow only the decided edge and the edges accepted by excuse count
// as passing? Returns the offending return, or nil.
func mustPassUnder(fn *ssa.Function, pass func(ssa.Instruction) bool, assume func(v ssa.Value) Tri, excuse func(cond ssa.Value) (onTrue, onFalse bool)) ssa.Instruction {
	type st struct {
		b, pred *ssa.BasicBlock
		ok      bool
	}
	var eval func(v ssa.Value) Tri
	eval = func(v ssa.Value) Tri {
		if u, ok := v.(*ssa.UnOp); ok && u.Op == token.NOT {
			return eval(u.X).not()
		}
		if k, ok := v.(*ssa.Const); ok && k.Value != nil && k.Value.Kind() == constant.Bool {
			return tri(constant.BoolVal(k.Value))
		}
		return assume(v)
	}
	seen := map[st]bool{}
	var bad ssa.Instruction
	var dfs func(b, pred *ssa.BasicBlock, ok bool)
	dfs = func(b, pred *ssa.BasicBlock, ok bool) {
		if bad != nil || seen[st{b, pred, ok}] {
			return
		}
		seen[st{b, pred, ok}] = true
		for _, in := range b.Instrs {
			if pass(in) {
				ok = true
			}
			if r, isRet := in.(*ssa.Return); isRet && !ok {
				bad = r
				return
			}
		}
		if iff, isIf := b.Instrs[len(b.Instrs)-1].(*ssa.If); isIf {
			// a named boolean (`c := A && B; if c {`) arrives as a phi of this block: on this path it is
			// the value contributed by the edge the path came in by
			cond, neg := iff.Cond, false
			for {
				if u, ok := cond.(*ssa.UnOp); ok && u.Op == token.NOT {
					cond, neg = u.X, !neg
					continue
				}
				if phi, ok := cond.(*ssa.Phi); ok && phi.Block() == b && pred != nil {
					moved := false
					for i, p := range b.Preds {
						if p == pred {
							cond, moved = phi.Edges[i], true
							break
						}
					}
					if moved {
						continue
					}
				}
				break
			}
			onT, onF := excuse(cond)
			t := eval(cond)
			if neg {
				onT, onF = onF, onT
				t = t.not()
			}
			switch t {
			case T:
				dfs(b.Succs[0], b, ok || onT)
			case F:
				dfs(b.Succs[1], b, ok || onF)
			default:
				dfs(b.Succs[0], b, ok || onT)
				dfs(b.Succs[1], b, ok || onF)
			}
			return
		}
		for _, s := range b.Succs {
			dfs(s, b, ok)
		}
	}
	dfs(fn.Blocks[0], nil, false)
	return bad
}

// ruleConditionArgsEveryRow: the boolean arguments of an analytic function (acc_xxx start/reset,
// ignoreNull of had_changed/changed_col(s)/lag) are part of the function's definition on every row: a
// reset row resets, a start row starts, whatever the row's main value is (NULL included). In every
// state machine's Apply, with all optional arguments present, every path to a return evaluates each
// condition argument — or leaves through the branch on which an earlier condition argument held
// (reset fired: nothing else is looked at).
func (a *A) ruleConditionArgsEveryRow() int {
	toBool := a.Func("functions", "AnalyticToBool")
	n := 0
	for _, fn := range a.ModFuncs {
		if fn.Pkg != a.Pkg("functions") || fn.Name() != "Apply" || fn.Blocks == nil || len(fn.Params) != 2 {
			continue
		}
		args := fn.Params[1]
		argIndex := func(v ssa.Value) (int64, bool) {
			u, ok := v.(*ssa.UnOp)
			if !ok || u.Op != token.MUL {
				return 0, false
			}
			ia, ok := u.X.(*ssa.IndexAddr)
			if !ok || ia.X != ssa.Value(args) {
				return 0, false
			}
			k, ok := ia.Index.(*ssa.Const)
			if !ok {
				return 0, false
			}
			return k.Int64(), true
		}
		var conds []*ssa.Call
		allInstrs(fn, func(in ssa.Instruction) {
			if c, ok := in.(*ssa.Call); ok && c.Call.StaticCallee() == toBool {
				if _, ok := argIndex(c.Call.Args[0]); ok {
					conds = append(conds, c)
				}
			}
		})
		// len(args) is at least 8: every optional argument is present
		assume := func(v ssa.Value) Tri {
			bo, ok := v.(*ssa.BinOp)
			if !ok {
				return U
			}
			lc, ok := bo.X.(*ssa.Call)
			if !ok {
				return U
			}
			if b, ok := lc.Call.Value.(*ssa.Builtin); !ok || b.Name() != "len" || lc.Call.Args[0] != ssa.Value(args) {
				return U
			}
			k, ok := bo.Y.(*ssa.Const)
			if !ok {
				return U
			}
			c := k.Int64()
			switch bo.Op {
			case token.GEQ:
				if c <= 8 {
					return T
				}
			case token.GTR:
				if c < 8 {
					return T
				}
			case token.LSS:
				if c <= 8 {
					return F
				}
			case token.LEQ:
				if c < 8 {
					return F
				}
			case token.EQL:
				if c < 8 {
					return F
				}
			case token.NEQ:
				if c < 8 {
					return T
				}
			}
			return U
		}
		for _, c := range conds {
			c := c
			k, _ := argIndex(c.Call.Args[0])
			n++
			bad := mustPassUnder(fn, func(in ssa.Instruction) bool { return in == ssa.Instruction(c) }, assume,
				func(cond ssa.Value) (bool, bool) {
					for _, o := range conds {
						if o != c && cond == ssa.Value(o) {
							return true, false
						}
					}
					return false, false
				})
			pos := c.Pos()
			if bad != nil {
				pos = bad.Pos()
			}
			a.Check(bad == nil, fmt.Sprintf("%s#args[%d]", fname(fn), k), pos,
				"the condition argument is evaluated on every path to a return (all optional arguments present), or an earlier condition argument held",
				fmt.Sprintf("a return is reachable without evaluating the condition argument args[%d]: a row that takes this path (for example a NULL main value) does not start/reset/apply its flag", k))
		}
	}
	return n
}

// ruleAllCallsApplied: a wrapper field (lag(v) + acc_sum(v), acc_max(a) - acc_min(b)) holds several
// analytic calls, each with its own per-partition state, and every one of them sees every row of its
// partition. The loop that applies the calls of a field to a row runs to the end of the call list: it
// has no exit other than the exhausted range (no return, break or goto out of it), so a NULL result of
// one call cannot keep the calls after it from advancing their state.
func (a *A) ruleAllCallsApplied() int {
	apply := a.Method("stream", "analyticFieldEngine", "applyCall")
	n := 0
	for _, fn := range a.ModFuncs {
		if fn.Pkg != a.Pkg("stream") || fn.Blocks == nil {
			continue
		}
		for _, l := range rangeLoops(fn) {
			has := false
			for b := range l.Blocks {
				for _, in := range b.Instrs {
					if c, ok := in.(*ssa.Call); ok && c.Call.StaticCallee() == apply {
						has = true
					}
				}
			}
			if !has {
				continue
			}
			n++
			bad := loopEarlyExit(l, nil)
			pos := l.Header.Instrs[0].Pos()
			if bad != nil {
				pos = bad.Pos()
			}
			a.Check(bad == nil, fname(fn)+"#all-calls-applied", pos,
				"the loop that applies a field's analytic calls to the row leaves only when the call list is exhausted",
				"the loop that applies a field's analytic calls to the row can be left early ("+a.pos(pos)+"): the calls after that point do not see the row, and their per-partition state (acc_sum, lag history, …) silently skips it")
		}
	}
	if n == 0 {
		a.anchorFail("no loop applying analyticFieldEngine.applyCall found")
	}
	return n
}

// loopEarlyExit: an instruction at which one iteration of range loop l can leave the loop other than
// through the exhausted header - a break, a return, a goto out of the body. Exits accepted by
// excuse (for example `return err` of a failing call) are not counted. nil when there is none.
func loopEarlyExit(l *RLoop, excuse func(exit *ssa.BasicBlock) bool) ssa.Instruction {
	// the natural loop of the header: the header plus every block from which a latch (a predecessor
	// of the header that the header dominates) can be reached without passing through the header.
	// (Not "every block that can get back to the header": inside an enclosing loop that is everything.)
	inLoop := map[*ssa.BasicBlock]bool{l.Header: true}
	var work []*ssa.BasicBlock
	for _, p := range l.Header.Preds {
		if l.Header.Dominates(p) {
			work = append(work, p)
		}
	}
	for len(work) > 0 {
		b := work[len(work)-1]
		work = work[:len(work)-1]
		if inLoop[b] {
			continue
		}
		inLoop[b] = true
		work = append(work, b.Preds...)
	}
	var bad ssa.Instruction
	for b := range inLoop {
		if b == l.Header {
			continue // leaving through the exhausted header is the regular end
		}
		for _, s := range b.Succs {
			if !inLoop[s] {
				if excuse != nil && excuse(s) {
					continue
				}
				bad = b.Instrs[len(b.Instrs)-1]
			}
		}
	}
	return bad
}
