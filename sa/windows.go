package main

// windows.go — rule instances shared by the time-window properties (C01, C02, C08, C10).

import (
	"fmt"
	"go/constant"
	"go/token"
	"go/types"
	"sort"
	"strings"

	"golang.org/x/tools/go/ssa"
)

const typesPkg = modPath + "/types"
const windowPkg = modPath + "/window"

// slotField: is t a Start/End field of a types.TimeSlot? returns the field name and the slot term.
func slotField(t *Term) (string, *Term) {
	if t == nil || t.Kind != "field" {
		return "", nil
	}
	if o, f := t.LastField(); o == "types.TimeSlot" && (f == "Start" || f == "End") {
		return f, t.Base
	}
	return "", nil
}

func isRowTimestamp(t *Term) bool {
	o, f := t.LastField()
	return o == "types.Row" && f == "Timestamp"
}

func isFieldOf(t *Term, owner, field string) bool {
	o, f := t.LastField()
	return o == owner && f == field
}

// slotNormalizer rewrites Field(Call(fn,args),Start|End) where fn is a module function that
// returns types.NewTimeSlot(a,b) into the term of a / b in the frame of the call — this is how
// "the next slot starts at the current end" is used by the tables without assuming it.
func (a *A) slotNormalizer() func(*Term) *Term {
	var norm func(t *Term) *Term
	norm = func(t *Term) *Term {
		if t == nil {
			return t
		}
		if f, base := slotField(t); f != "" && base.Kind == "call" && base.Fn != nil && a.fnInModule(base.Fn) {
			if st, en := a.slotCtorArgs(base.Fn, base.Args); st != nil {
				if f == "Start" {
					return norm(st)
				}
				return norm(en)
			}
		}
		if t.Kind == "call" && len(t.Args) > 0 {
			c := *t
			c.Args = make([]*Term, len(t.Args))
			for i, x := range t.Args {
				c.Args[i] = norm(x)
			}
			return &c
		}
		return t
	}
	return norm
}

// slotCtorArgs: if every return of fn that returns a non-nil value returns
// types.NewTimeSlot(s, e) (or &TimeSlot{Start:s,End:e}), give the terms of s and e with
// fn's parameters bound to args.
func (a *A) slotCtorArgs(fn *ssa.Function, args []*Term) (*Term, *Term) {
	if fn.Blocks == nil {
		return nil, nil
	}
	fr := &frame{fn: fn, args: args}
	tm := newTermer(fr)
	var st, en *Term
	n := 0
	for _, b := range fn.Blocks {
		ret, ok := b.Instrs[len(b.Instrs)-1].(*ssa.Return)
		if !ok || len(ret.Results) != 1 {
			continue
		}
		if c, ok := ret.Results[0].(*ssa.Const); ok && c.Value == nil {
			continue // return nil
		}
		call, ok := ret.Results[0].(*ssa.Call)
		if !ok {
			return nil, nil
		}
		callee := call.Call.StaticCallee()
		var s, e *Term
		if callee != nil && callee != fn && a.fnInModule(callee) && callee.Pkg == fn.Pkg && callee.Name() != "NewTimeSlot" && len(args) < 8 {
			// the slot is built by another constructor of the package (createSlot delegating to
			// createSlotFromStart): its start/end in terms of this function's values
			var sub []*Term
			for _, av := range call.Call.Args {
				sub = append(sub, tm.of(av))
			}
			for len(sub) < 8 {
				sub = append(sub, nil) // depth marker: at most one level of delegation
			}
			s, e = a.slotCtorArgs(callee, sub)
			if s == nil {
				return nil, nil
			}
		} else {
			if callee == nil || callee.Name() != "NewTimeSlot" || callee.Pkg == nil || callee.Pkg.Pkg.Path() != typesPkg {
				return nil, nil
			}
			s, e = tm.of(call.Call.Args[0]), tm.of(call.Call.Args[1])
		}
		if n > 0 && (s.String() != st.String() || e.String() != en.String()) {
			return nil, nil
		}
		st, en = s, e
		n++
	}
	return st, en
}

// ---------------------------------------------------------------- half-open membership

func (a *A) ruleContains() {
	fn := a.Method("types", "TimeSlot", "Contains")
	a.OrdTable("types.TimeSlot.Contains", fn.Pos(), "half-open membership Start <= t < End", OrdSpec{
		Roles:     []string{"t", "S", "E"},
		Invariant: func(r map[string]int, _ map[string]bool) bool { return r["S"] < r["E"] },
		Expect: func(r map[string]int, _ map[string]bool) (bool, bool) {
			return r["S"] <= r["t"] && r["t"] < r["E"], true
		},
		Role: func(t *Term) string {
			if f, _ := slotField(t); f == "Start" {
				return "S"
			} else if f == "End" {
				return "E"
			}
			if t.Kind == "param" && isTimeTime(t.Typ) {
				return "t"
			}
			return ""
		},
		Eval: func(env *Env) (Tri, string) { return evalFuncRet(env, fn, nil) },
	})
}

// ---------------------------------------------------------------- take / keep tables

type tkSpec struct {
	// take: membership exact. keep: what the property needs of the retained set.
	slide bool // sliding window: keep required for t >= Start+slide
}

// ruleTakeKeep checks, for every loop over W.data in fn that appends the loop element,
// the predicate under which the row is taken (flows to the returned/delivered batch) and the
// predicate under which it is kept (flows back into W.data).
// Returns the number of take/keep sites found.
func (a *A) ruleTakeKeep(W *types.Named, fn *ssa.Function, sp tkSpec) int {
	dataF := a.FieldOf(W, "data")
	norm := a.slotNormalizer()
	n := 0
	for _, l := range rangeLoops(fn) {
		if l.X == nil {
			continue
		}
		xt := TermOf(l.X, nil)
		if xt.Kind != "field" || xt.Field != dataF {
			continue
		}
		type cut struct {
			at   ssa.Instruction
			kind string
		}
		var cuts []cut
		for _, c := range l.elemAppends() {
			si := sinksOf(c)
			if si.StoredField[dataF] {
				cuts = append(cuts, cut{c, "keep"})
			} else if si.Returned || len(si.PassedTo) > 0 {
				cuts = append(cuts, cut{c, "take"})
			}
		}
		// the in-place compaction keeps a row by storing it at the write cursor: buf[kept] = row; kept++
		isBufLoad := func(v ssa.Value) bool {
			ld, ok := v.(*ssa.UnOp)
			return ok && ld.Op == token.MUL && fieldAddrIs(ld.X, dataF)
		}
		for b := range l.Blocks {
			for _, in := range b.Instrs {
				st, ok := in.(*ssa.Store)
				if !ok {
					continue
				}
				if ia, ok := st.Addr.(*ssa.IndexAddr); ok && isBufLoad(ia.X) && compactionCursor(ia.Index, []*RLoop{l}, isBufLoad) {
					cuts = append(cuts, cut{st, "keep"})
				}
			}
		}
		for _, ct := range cuts {
			c, kind := ct.at, ct.kind
			n++
			construct := fmt.Sprintf("%s#%s-append", fname(fn), kind)
			roles := []string{"t", "S", "E"}
			if sp.slide && kind == "keep" {
				roles = []string{"t", "S", "N"}
			}
			if sp.slide && kind == "take" {
				// the next interval's start may take part in the decision (a single-pass extraction that
				// compares with Start+slide): with slide > size it lies beyond End
				roles = []string{"t", "S", "E", "N"}
			}
			var slotBase string
			spec := OrdSpec{
				Roles: roles,
				Norm:  norm,
				Invariant: func(r map[string]int, _ map[string]bool) bool {
					if _, ok := r["N"]; ok {
						if _, hasE := r["E"]; hasE {
							return r["S"] < r["N"] && r["S"] < r["E"]
						}
						return r["S"] < r["N"]
					}
					return r["S"] < r["E"]
				},
				Role: func(t *Term) string {
					if isRowTimestamp(t) {
						return "t"
					}
					if f, base := slotField(t); f != "" {
						if slotBase == "" {
							slotBase = base.String()
						}
						if base.String() != slotBase {
							return ""
						}
						if f == "Start" {
							return "S"
						}
						return "E"
					}
					// Start.Add(slide)
					if t.Kind == "call" && t.Name == "(time.Time).Add" && len(t.Args) == 2 {
						if f, _ := slotField(t.Args[0]); f == "Start" && isFieldOf(t.Args[1], qual(W), "slide") {
							return "N"
						}
					}
					return ""
				},
				Eval: func(env *Env) (Tri, string) {
					return evalReach(env, nil, l.Body, l.Header,
						func(b *ssa.BasicBlock) bool { return b == l.Header },
						func(in ssa.Instruction, _ *Walker) bool { return in == c })
				},
			}
			switch {
			case kind == "take":
				spec.Expect = func(r map[string]int, _ map[string]bool) (bool, bool) {
					return r["S"] <= r["t"] && r["t"] < r["E"], true
				}
				a.OrdTable(construct, c.Pos(), "a buffered row is taken into the fired batch iff Start <= ts < End of the fired slot", spec)
			case sp.slide:
				spec.Expect = func(r map[string]int, _ map[string]bool) (bool, bool) {
					if r["t"] >= r["N"] {
						return true, true // still needed by a later interval
					}
					return false, false
				}
				a.OrdTable(construct, c.Pos(), "a row with ts >= Start+slide (needed by a later interval) is retained", spec)
			default:
				spec.Expect = func(r map[string]int, _ map[string]bool) (bool, bool) {
					if r["S"] <= r["t"] && r["t"] < r["E"] {
						return false, true // taken rows leave the buffer
					}
					if r["t"] >= r["E"] {
						return true, true // rows of later intervals stay
					}
					return false, false
				}
				a.OrdTable(construct, c.Pos(), "a taken row leaves the buffer and a row of a later interval stays", spec)
			}
		}
	}
	return n
}

// ruleSlotStamp: every take-append stores the slot whose Contains selected the row into the row's Slot field.
func (a *A) ruleSlotStamp(W *types.Named, fn *ssa.Function) {
	dataF := a.FieldOf(W, "data")
	for _, l := range rangeLoops(fn) {
		if l.X == nil {
			continue
		}
		xt := TermOf(l.X, nil)
		if xt.Kind != "field" || xt.Field != dataF {
			continue
		}
		for _, c := range l.elemAppends() {
			si := sinksOf(c)
			if si.StoredField[dataF] || !(si.Returned || len(si.PassedTo) > 0) {
				continue
			}
			construct := fname(fn) + "#take-slot-stamp"
			// guard slot: receiver of the Contains call guarding the append
			var guardSlot *Term
			for _, g := range guardsOf(c.Block()) {
				if call, ok := g.Cond.(*ssa.Call); ok && g.Sense {
					if cal := call.Call.StaticCallee(); cal != nil && cal.Name() == "Contains" && len(call.Call.Args) == 2 {
						guardSlot = TermOf(call.Call.Args[0], nil)
					}
				}
			}
			if guardSlot == nil {
				a.Und(construct, c.Pos(), "no Contains guard recognised for this take")
				continue
			}
			// store to elem.Slot dominating the append
			var stamped *Term
			if l.ElemAl != nil {
				for _, r := range *l.ElemAl.Referrers() {
					fa, ok := r.(*ssa.FieldAddr)
					if !ok {
						continue
					}
					st := derefStruct(fa.X.Type())
					if st == nil || st.Field(fa.Field).Name() != "Slot" {
						continue
					}
					for _, rr := range *fa.Referrers() {
						if s, ok := rr.(*ssa.Store); ok && s.Addr == fa && dominatesInstr(s, c) && l.Blocks[s.Block()] {
							stamped = TermOf(s.Val, nil)
						}
					}
				}
			}
			if stamped == nil {
				// the row appended is a copy written out as a literal with its Slot field set in the literal
				if cc, isApp := isBuiltinCall(c, "append"); isApp {
					for _, e := range appendedElems(cc) {
						ld, isLd := e.(*ssa.UnOp)
						if !isLd || ld.Op != token.MUL {
							continue
						}
						al, isAl := ld.X.(*ssa.Alloc)
						if !isAl || !l.literalCopy(al) {
							continue
						}
						for _, r := range *al.Referrers() {
							if fa, isFA := r.(*ssa.FieldAddr); isFA && fieldVarOf(fa).Name() == "Slot" {
								for _, rr := range *fa.Referrers() {
									if st, isSt := rr.(*ssa.Store); isSt && st.Addr == ssa.Value(fa) {
										stamped = TermOf(st.Val, nil)
									}
								}
							}
						}
					}
				}
			}
			if stamped == nil {
				// stamped afterwards: once the rows are collected, a full scan of the batch sets every row's Slot
				// (`for i := range batch { batch[i].Slot = slot }`), before any return hands the batch out
				for _, l2 := range rangeLoops(fn) {
					if l2 == l || l2.X == nil {
						continue
					}
					isBatch := false
					for _, lf := range phiLeaves(l2.X) {
						if lf == ssa.Value(c) {
							isBatch = true
						}
					}
					if !isBatch {
						continue
					}
					full := true
					for b := range l2.Blocks {
						for _, sc := range b.Succs {
							if !l2.Blocks[sc] && sc != l2.Header {
								full = false // left early
							}
						}
					}
					var val *Term
					for _, in := range l2.Body.Instrs {
						st, ok := in.(*ssa.Store)
						if !ok {
							continue
						}
						fa, ok := st.Addr.(*ssa.FieldAddr)
						if !ok || fieldVarOf(fa).Name() != "Slot" {
							continue
						}
						if ia, ok := fa.X.(*ssa.IndexAddr); ok && ia.X == l2.X {
							val = TermOf(st.Val, nil)
						}
					}
					// every place the batch leaves the function from (returned, handed to a call, stored, sent) comes
					// after the scan
					before := true
					isBatchVal := func(v ssa.Value) bool {
						for _, lf := range phiLeaves(v) {
							if lf == ssa.Value(c) {
								return true
							}
						}
						return false
					}
					allInstrs(fn, func(in ssa.Instruction) {
						if in.Parent() != fn || l.Blocks[in.Block()] || l2.Blocks[in.Block()] || in.Block() == l2.Header || in.Block() == l.Header {
							return
						}
						leaves := false
						switch x := in.(type) {
						case *ssa.Return:
							for _, r := range x.Results {
								leaves = leaves || isBatchVal(r)
							}
						case *ssa.Store:
							leaves = isBatchVal(x.Val)
						case *ssa.Send:
							leaves = isBatchVal(x.X)
						case *ssa.MapUpdate:
							leaves = isBatchVal(x.Value)
						case *ssa.MakeClosure:
							for _, bnd := range x.Bindings {
								leaves = leaves || isBatchVal(bnd)
							}
						default:
							if cc := callCommon(in); cc != nil {
								if _, isBuiltin := cc.Value.(*ssa.Builtin); !isBuiltin {
									for _, arg := range cc.Args {
										leaves = leaves || isBatchVal(arg)
									}
								}
							}
						}
						if leaves && !l2.Header.Dominates(in.Block()) {
							before = false
						}
					})
					if full && val != nil && before {
						stamped = val
					}
				}
			}
			if stamped == nil {
				a.Bad(construct, c.Pos(), "the taken row's Slot is not set before it is appended: window_start/window_end would not be the fired interval")
				continue
			}
			a.Check(stamped.String() == guardSlot.String(), construct, c.Pos(),
				fmt.Sprintf("row.Slot = %s, the slot whose Contains selected the row", stamped),
				fmt.Sprintf("row.Slot is set to %s but the row was selected by %s.Contains", stamped, guardSlot))
		}
	}
}

// ---------------------------------------------------------------- slot shape

// ruleSlotShape checks the (start,end) terms of a slot constructor against expectations.
func (a *A) ruleSlotShape(fn *ssa.Function, wantStart, wantEnd func(start, end *Term) (bool, string)) {
	construct := fname(fn) + "#slot-shape"
	st, en := a.slotCtorArgs(fn, nil)
	if st == nil {
		a.Und(construct, fn.Pos(), "cannot recover NewTimeSlot(start,end) from every non-nil return")
		return
	}
	ok1, d1 := wantStart(st, en)
	ok2, d2 := wantEnd(st, en)
	if ok1 && ok2 {
		a.Ok(construct, fn.Pos(), "start=%s end=%s", st, en)
	} else {
		a.Bad(construct, fn.Pos(), "start=%s end=%s: %s %s", st, en, d1, d2)
	}
}

func isAddOf(t *Term, base string, durOwner, durField string) bool {
	if t.Kind != "call" || t.Name != "(time.Time).Add" || len(t.Args) != 2 {
		return false
	}
	return t.Args[0].String() == base && isFieldOf(t.Args[1], durOwner, durField)
}

// ---------------------------------------------------------------- extraction summaries

// slotSrc says which slot a method extracts rows for: "recv" (recv.currentSlot), "p<i>" or "".
func (a *A) extractionSlot(W *types.Named, fn *ssa.Function, depth int) string {
	if fn == nil || fn.Blocks == nil || depth > 3 {
		return ""
	}
	dataF := a.FieldOf(W, "data")
	for _, l := range rangeLoops(fn) {
		if l.X == nil {
			continue
		}
		xt := TermOf(l.X, nil)
		if xt.Kind != "field" || xt.Field != dataF {
			continue
		}
		for _, c := range l.elemAppends() {
			si := sinksOf(c)
			if si.StoredField[dataF] || !(si.Returned || len(si.PassedTo) > 0) {
				continue
			}
			for _, g := range guardsOf(c.Block()) {
				if call, ok := g.Cond.(*ssa.Call); ok && g.Sense {
					if cal := call.Call.StaticCallee(); cal != nil && cal.Name() == "Contains" && len(call.Call.Args) == 2 {
						t := TermOf(call.Call.Args[0], nil)
						if t.Kind == "param" {
							return fmt.Sprintf("p%d", t.Idx)
						}
						if isFieldOf(t, qual(W), "currentSlot") {
							return "recv"
						}
					}
				}
			}
		}
	}
	// delegation
	res := ""
	allInstrs(fn, func(in ssa.Instruction) {
		if res != "" {
			return
		}
		c, ok := in.(*ssa.Call)
		if !ok {
			return
		}
		callee := c.Call.StaticCallee()
		if callee == nil || callee == fn || callee.Signature.Recv() == nil || !isNamedType(callee.Signature.Recv().Type(), W.Obj().Pkg().Path(), W.Obj().Name()) {
			return
		}
		s := a.extractionSlot(W, callee, depth+1)
		if s == "recv" {
			res = "recv"
		} else if strings.HasPrefix(s, "p") {
			var idx int
			fmt.Sscanf(s, "p%d", &idx)
			t := TermOf(c.Call.Args[idx], nil)
			if t.Kind == "param" {
				res = fmt.Sprintf("p%d", t.Idx)
			} else if isFieldOf(t, qual(W), "currentSlot") {
				res = "recv"
			}
		}
	})
	return res
}

// ---------------------------------------------------------------- fire guard (no early firing)

// ruleFireGuard: in fn (watermark handler of W, watermark = its time.Time parameter), every
// extraction of a slot's rows is reached only under orderings with watermark >= that slot's End.
func (a *A) ruleFireGuard(W *types.Named, fn *ssa.Function) {
	curF := a.FieldOf(W, "currentSlot")
	construct := fname(fn) + "#fire-guard"
	// extraction call sites
	type site struct {
		in   *ssa.Call
		slot string
	}
	var sites []site
	allInstrs(fn, func(in ssa.Instruction) {
		c, ok := in.(*ssa.Call)
		if !ok {
			return
		}
		callee := c.Call.StaticCallee()
		if callee == nil || callee.Signature.Recv() == nil || !isNamedType(callee.Signature.Recv().Type(), W.Obj().Pkg().Path(), W.Obj().Name()) {
			return
		}
		if s := a.extractionSlot(W, callee, 0); s != "" {
			sites = append(sites, site{c, s})
		}
	})
	// rows may also be taken out of the buffer in the handler itself: a loop over W.data whose rows
	// are appended to a batch (not back into the buffer) under slot.Contains(row.Timestamp)
	type inlineSite struct {
		contains *ssa.Call
	}
	var inl []inlineSite
	dataF := a.FieldOf(W, "data")
	for _, l := range rangeLoops(fn) {
		if l.X == nil {
			continue
		}
		if xt := TermOf(l.X, nil); xt.Kind != "field" || xt.Field != dataF {
			continue
		}
		for _, c := range l.elemAppends() {
			si := sinksOf(c)
			if si.StoredField[dataF] {
				continue // the keep side
			}
			for _, g := range guardsOf(c.Block()) {
				if call, ok := g.Cond.(*ssa.Call); ok && g.Sense {
					if cal := call.Call.StaticCallee(); cal != nil && cal.Name() == "Contains" && len(call.Call.Args) == 2 {
						inl = append(inl, inlineSite{call})
					}
				}
			}
		}
	}
	if len(sites) == 0 && len(inl) == 0 {
		a.Und(construct, fn.Pos(), "no extraction site (a call of a method that takes rows out of %s.data, or a loop that does) found in the watermark handler", W.Obj().Name())
		return
	}
	const maxEpoch = 3
	roles := []string{"W"}
	for k := 0; k < maxEpoch; k++ {
		roles = append(roles, fmt.Sprintf("E%d", k))
	}
	ords := weakOrderings(roles)
	checked := 0
	for _, r := range ords {
		env := &Env{a: a, Rank: r, Flags: map[string]bool{}, Norm: a.slotNormalizer(),
			Role: func(t *Term) string {
				if t.Kind == "param" && isTimeTime(t.Typ) {
					return "W"
				}
				if f, base := slotField(t); f == "End" && base.Kind == "field" && base.Field == curF {
					if base.Epoch >= maxEpoch {
						return ""
					}
					return fmt.Sprintf("E%d", base.Epoch)
				}
				return ""
			},
			Assume: func(t *Term, v ssa.Value) Tri { return U },
		}
		w := NewWalker(env, nil)
		w.RetIdx = -1
		var bad string
		w.Target = func(in ssa.Instruction, w *Walker) bool {
			for _, s := range inl {
				if in != ssa.Instruction(s.contains) {
					continue
				}
				ep := -1
				if t := w.Term(s.contains.Call.Args[0]); t.Kind == "field" && t.Field == curF {
					ep = t.Epoch
				}
				if ep < 0 || ep >= maxEpoch {
					bad = fmt.Sprintf("the rows taken at %s are selected by a slot that is not a load of %s.currentSlot (cannot relate it to the guard)", a.pos(in.Pos()), W.Obj().Name())
					return true
				}
				if r["W"] < r[fmt.Sprintf("E%d", ep)] {
					bad = fmt.Sprintf("rows are taken at %s with watermark < End of the slot that selects them (ordering %s; slot version %d)", a.pos(in.Pos()), fmtOrdering(r, nil), ep)
				}
				return false
			}
			for _, s := range sites {
				if in != ssa.Instruction(s.in) {
					continue
				}
				ep := -1
				if s.slot == "recv" {
					ep = w.Epoch(curF)
				} else {
					var idx int
					fmt.Sscanf(s.slot, "p%d", &idx)
					t := w.Term(s.in.Call.Args[idx])
					if t.Kind == "field" && t.Field == curF {
						ep = t.Epoch
					}
				}
				if ep < 0 || ep >= maxEpoch {
					bad = fmt.Sprintf("extraction at %s takes a slot that is not a load of %s.currentSlot (cannot relate it to the guard)", a.pos(in.Pos()), W.Obj().Name())
					return true
				}
				if r["W"] < r[fmt.Sprintf("E%d", ep)] {
					bad = fmt.Sprintf("extraction at %s is reached with watermark < End of the extracted slot (ordering %s; slot version %d)", a.pos(in.Pos()), fmtOrdering(r, nil), ep)
				}
				return true
			}
			return false
		}
		outs := w.Run(fn.Blocks[0], nil)
		for _, o := range outs {
			if o.Ended == "overflow" {
				a.Und(construct, fn.Pos(), "path budget exceeded")
				return
			}
		}
		checked++
		if bad != "" {
			a.Bad(construct, fn.Pos(), "a window can fire before the watermark reached its end: %s", bad)
			return
		}
	}
	o := a.Ok(construct, fn.Pos(), "under all %d orderings of watermark vs slot ends, %d extraction site(s) are reached only with watermark >= End of the extracted slot", checked, len(sites)+len(inl))
	o.Extra = map[string]any{"exhaustive": true}
}

// ---------------------------------------------------------------- helpers on conditions

// condMentions: does boolean value v (through !, phi, &&/|| lowering is handled by guardsOf) call fn?
func isCallOf(v ssa.Value, pred func(*ssa.Function) bool) bool {
	c, ok := v.(*ssa.Call)
	if !ok {
		return false
	}
	callee := c.Call.StaticCallee()
	return callee != nil && pred(callee)
}

// guardedByCall: block b is dominated by an edge on which a call satisfying pred returned `sense`.
func guardedByCall(b *ssa.BasicBlock, pred func(*ssa.Function) bool, sense bool) bool {
	for _, g := range guardsOf(b) {
		v := g.Cond
		s := g.Sense
		for {
			if u, ok := v.(*ssa.UnOp); ok && u.Op == token.NOT {
				v = u.X
				s = !s
				continue
			}
			break
		}
		if isCallOf(v, pred) && s == sense {
			return true
		}
	}
	return false
}

// guardedByValue: block b dominated by edge on which value-matching condition has the given polarity.
func guardedByValue(b *ssa.BasicBlock, match func(v ssa.Value) bool, sense bool) bool {
	for _, g := range guardsOf(b) {
		v := g.Cond
		s := g.Sense
		for {
			if u, ok := v.(*ssa.UnOp); ok && u.Op == token.NOT {
				v = u.X
				s = !s
				continue
			}
			break
		}
		if match(v) && s == sense {
			return true
		}
	}
	return false
}

// ---------------------------------------------------------------- late-drop and timestamp gate

// ruleLatePolicy: in the event-time Add of W —
//
//	(a) UpdateEventTime is called only when extractTimestamp's ok result is true;
//	(b) every dropLastRow() call, and every return reachable without the row having been stored,
//	    is dominated by IsEventTimeLate(ts)==true or by !tsOk.
func (a *A) ruleLatePolicy(W *types.Named, add *ssa.Function) {
	wm := a.Named("window", "Watermark")
	upd := a.methodOf(wm, "UpdateEventTime")
	late := a.methodOf(wm, "IsEventTimeLate")
	if upd == nil || late == nil {
		a.anchorFail("Watermark.UpdateEventTime/IsEventTimeLate not found")
	}
	ext := a.Func("window", "extractTimestamp")
	// tsOk value: Extract #1 of the extractTimestamp call
	var tsOk ssa.Value
	allInstrs(add, func(in ssa.Instruction) {
		if ex, ok := in.(*ssa.Extract); ok && ex.Index == 1 {
			if c, ok := ex.Tuple.(*ssa.Call); ok && c.Call.StaticCallee() == ext {
				tsOk = ex
			}
		}
	})
	if tsOk == nil {
		a.Und(fname(add)+"#ts-gate", add.Pos(), "the ok result of extractTimestamp is not used in %s", fname(add))
		return
	}
	isTsOk := func(v ssa.Value) bool { return v == tsOk }
	for _, c := range callsTo(add, upd) {
		c := c
		reach := reachOnSomePath(add, c, func(v ssa.Value) Tri {
			if v == tsOk {
				return F
			}
			return U
		})
		a.Check(!reach, fname(add)+"#ts-gate", c.Pos(),
			"UpdateEventTime is reached only when the row carried a usable timestamp",
			"UpdateEventTime can be reached for a row without a usable timestamp: an unplaceable row would move the watermark")
	}
	isLate := func(f *ssa.Function) bool { return f == late }
	// (b) drop calls
	drop := a.methodOf(W, "dropLastRow")
	if drop != nil {
		// path form: with a usable timestamp that is not late (IsEventTimeLate false), is the drop reachable?
		onlyLate := func(f *ssa.Function, target ssa.Instruction) bool {
			notLate := func(v ssa.Value) Tri {
				if v == tsOk {
					return T
				}
				if c, ok := v.(*ssa.Call); ok && c.Call.StaticCallee() != nil && isLate(c.Call.StaticCallee()) {
					return F
				}
				// the verdict of a later-written watermark helper (`farFuture, late := wm.Observe(ts)`), also when it is
				// carried in a named flag: a row that is neither late nor far-future
				if k := a.wmVerdict(v); k == "late" || k == "far" {
					return F
				}
				return U
			}
			return !(reachUnder(f, target, notLate) && reachOnSomePath(f, target, notLate))
		}
		for _, c := range callsTo(add, drop) {
			a.Check(guardedByCall(c.Block(), isLate, true) || guardedByValue(c.Block(), isTsOk, false) || onlyLate(add, c), fname(add)+"#drop-only-late", c.Pos(),
				"dropLastRow() is reached only after IsEventTimeLate(ts) returned true",
				"dropLastRow() can be reached for a row that is not late: an on-time row would be discarded")
		}
		// the placement of a late row may live in a helper method of W that Add calls: the drop inside it
		// is guarded there, or every call of the helper in Add is
		allInstrs(add, func(in ssa.Instruction) {
			h := staticCallee(in)
			if h == nil || h == drop || h.Blocks == nil || h.Signature.Recv() == nil || !types.Identical(derefT(h.Signature.Recv().Type()), W) {
				return
			}
			callGuarded := guardedByCall(in.Block(), isLate, true) || guardedByValue(in.Block(), isTsOk, false) || a.guardedByLateFlag(in.Block(), isLate) || onlyLate(add, in)
			for _, c := range callsTo(h, drop) {
				a.Check(callGuarded || guardedByCall(c.Block(), isLate, true), fname(add)+"#drop-only-late", c.Pos(),
					"dropLastRow() (in "+h.Name()+", called from Add) is reached only after IsEventTimeLate(ts) returned true",
					"dropLastRow() in "+fname(h)+" can be reached for a row that is not late: an on-time row would be discarded")
			}
		})
	}
	// returns without insertion: insertion = store to W.data (tumbling/sliding) or append into a session
	insert := a.insertionInstrs(W, add)
	if len(insert) == 0 {
		a.Und(fname(add)+"#return-only-late", add.Pos(), "no row insertion recognised in %s", fname(add))
		return
	}
	for _, b := range add.Blocks {
		ret, ok := b.Instrs[len(b.Instrs)-1].(*ssa.Return)
		if !ok {
			continue
		}
		dominated := false
		for _, ins := range insert {
			if dominatesInstr(ins, ret) {
				dominated = true
			}
		}
		if dominated {
			continue
		}
		// a return the insertion does not dominate: could some path reach it without inserting?
		okLate := guardedByCall(b, isLate, true) || guardedByValue(b, isTsOk, false)
		if !okLate && guardedByCall(b, func(f *ssa.Function) bool { return f.Name() == "IsFarFuture" && f.Signature.Recv() != nil && isNamedType(f.Signature.Recv().Type(), wm.Obj().Pkg().Path(), "Watermark") }, true) {
			a.Ok(fname(add)+"#return-far-future", ret.Pos(), "this return drops a row whose timestamp the watermark ignores as corrupt (more than maxOutOfOrderness+24h ahead): such a row never changes a result")
			continue
		}
		if !okLate {
			// precise check: is there a path entry->ret avoiding all insertions?
			if !returnReachableAvoiding(add, ret, insert) {
				continue
			}
			// path form: the decision may be carried in a boolean (`if !sw.admit(row) { return }`): with a
			// usable timestamp that is neither late nor beyond the far-future ceiling, can the return be
			// reached without the row having been stored?
			isIns := map[ssa.Instruction]bool{}
			for _, x := range insert {
				isIns[x] = true
			}
			reach := reachOnSomePathAvoiding(add, ret, func(v ssa.Value) Tri {
				if v == tsOk {
					return T
				}
				if k := a.wmVerdict(v); k == "late" || k == "far" {
					return F
				}
				if c, ok := v.(*ssa.Call); ok && c.Call.StaticCallee() != nil {
					f := c.Call.StaticCallee()
					if isLate(f) {
						return F
					}
					if f.Name() == "IsFarFuture" && f.Signature.Recv() != nil && isNamedType(f.Signature.Recv().Type(), wm.Obj().Pkg().Path(), "Watermark") {
						return F
					}
				}
				return U
			}, func(in ssa.Instruction) bool { return isIns[in] })
			okLate = !reach
		}
		a.Check(okLate, fname(add)+"#return-only-late", ret.Pos(),
			"this return without storing the row is reached only for a late row (IsEventTimeLate true) or a row without timestamp",
			"Add can return without storing a row that is neither late nor without timestamp: an on-time row is lost")
	}
}

func returnReachableAvoiding(fn *ssa.Function, ret *ssa.Return, avoid []ssa.Instruction) bool {
	av := map[ssa.Instruction]bool{}
	for _, x := range avoid {
		av[x] = true
	}
	hit := reachableFrom(fn.Blocks[0], 0, func(in ssa.Instruction) bool { return in == ssa.Instruction(ret) },
		func(in ssa.Instruction) bool { return av[in] })
	return hit != nil
}

// insertionInstrs: the instructions in add that store the new row: a Store to W.data, or a store
// to field `data` of the window's session struct.
func (a *A) insertionInstrs(W *types.Named, add *ssa.Function) []ssa.Instruction {
	var out []ssa.Instruction
	allInstrs(add, func(in ssa.Instruction) {
		st, ok := in.(*ssa.Store)
		if !ok {
			return
		}
		fa, ok := st.Addr.(*ssa.FieldAddr)
		if !ok {
			return
		}
		s := derefStruct(fa.X.Type())
		if s == nil || s.Field(fa.Field).Name() != "data" {
			return
		}
		// must be an append result
		if c, ok := st.Val.(*ssa.Call); ok {
			if _, ok := isBuiltinCall(c, "append"); ok {
				out = append(out, in)
			}
		}
	})
	return out
}

// ---------------------------------------------------------------- advance before unlock

// ruleAdvanceBeforeUnlock: whenever rows of the *current* slot are extracted in fn and the window
// mutex is then released for delivery, currentSlot has been reassigned on every path in between
// (otherwise a concurrent Add/trigger observes the fired interval as still current).
func (a *A) ruleAdvanceBeforeUnlock(W *types.Named, fn *ssa.Function) {
	curF := a.FieldOf(W, "currentSlot")
	muF := a.FieldOf(W, "mu")
	isStoreCur := func(in ssa.Instruction) bool {
		st, ok := in.(*ssa.Store)
		return ok && fieldAddrIs(st.Addr, curF)
	}
	isUnlock := func(in ssa.Instruction) bool {
		c, ok := in.(*ssa.Call)
		if !ok {
			return false
		}
		callee := c.Call.StaticCallee()
		if callee == nil || callee.Name() != "Unlock" || len(c.Call.Args) == 0 {
			return false
		}
		return fieldAddrIs(c.Call.Args[0], muF)
	}
	construct := fname(fn) + "#advance-before-unlock"
	n := 0
	report := func(from ssa.Instruction, what string, endIs func(ssa.Instruction) bool) {
		n++
		// search a path from 'from' to an end instruction that passes no store to currentSlot
		hit := reachableAfter(from, endIs, isStoreCur)
		if hit != nil {
			a.Bad(construct, hit.Pos(), "%s at %s, then the lock is released at %s on a path with no reassignment of currentSlot: a concurrent Add or trigger sees the fired interval as current (double firing)", what, a.pos(from.Pos()), a.pos(hit.Pos()))
		} else {
			a.Ok(construct, from.Pos(), "%s; every path to a lock release/delivery passes a reassignment of currentSlot", what)
		}
	}
	// (1) calls to methods that extract recv.currentSlot, then a direct Unlock
	allInstrs(fn, func(in ssa.Instruction) {
		c, ok := in.(*ssa.Call)
		if !ok {
			return
		}
		callee := c.Call.StaticCallee()
		if callee == nil || callee.Signature.Recv() == nil || !isNamedType(callee.Signature.Recv().Type(), W.Obj().Pkg().Path(), W.Obj().Name()) {
			return
		}
		s := a.extractionSlot(W, callee, 0)
		if s == "recv" {
			if a.releasesLock(W, callee, 0) {
				a.Bad(construct, c.Pos(), "%s extracts the current slot and releases the lock internally before currentSlot can be advanced", fname(callee))
				n++
				return
			}
			report(c, "rows of the current slot are extracted by "+callee.Name()+"()", isUnlock)
		} else if strings.HasPrefix(s, "p") {
			var idx int
			fmt.Sscanf(s, "p%d", &idx)
			argT := TermOf(c.Call.Args[idx], nil)
			if argT.Kind == "field" && argT.Field == curF {
				// the load feeding the argument
				// (the slot may be carried in a loop variable re-read after every firing: each read counts)
				var lds []ssa.Instruction
				for _, lf := range phiLeaves(c.Call.Args[idx]) {
					ld := loadOf(lf)
					if ld == nil {
						lds = nil
						break
					}
					lds = append(lds, ld)
				}
				if len(lds) == 0 {
					a.Und(construct, c.Pos(), "cannot find the load of currentSlot feeding %s", callee.Name())
					n++
					return
				}
				for _, ld := range lds {
					if a.releasesLock(W, callee, 0) {
						report(ld, "currentSlot is loaded and passed to "+callee.Name()+"(), which releases the lock for delivery", func(x ssa.Instruction) bool { return x == ssa.Instruction(c) })
					} else {
						report(ld, "currentSlot is loaded and its rows extracted by "+callee.Name()+"()", isUnlock)
					}
				}
			}
		}
	})
	// (2) inline take loops on recv.currentSlot
	dataF := a.FieldOf(W, "data")
	for _, l := range rangeLoops(fn) {
		if l.X == nil {
			continue
		}
		xt := TermOf(l.X, nil)
		if xt.Kind != "field" || xt.Field != dataF {
			continue
		}
		for _, c := range l.elemAppends() {
			si := sinksOf(c)
			if si.StoredField[dataF] {
				continue
			}
			if !releasesAfter(c, isUnlock) {
				continue
			}
			for _, g := range guardsOf(c.Block()) {
				if call, ok := g.Cond.(*ssa.Call); ok && g.Sense {
					if cal := call.Call.StaticCallee(); cal != nil && cal.Name() == "Contains" {
						if t := TermOf(call.Call.Args[0], nil); t.Kind == "field" && t.Field == curF {
							report(c, "rows of the current slot are taken inline", isUnlock)
						}
					}
				}
			}
		}
	}
	if n == 0 {
		a.Ok(construct, fn.Pos(), "no extraction of the current slot followed by a lock release in this function").Trivial = true
	}
}

func releasesAfter(from ssa.Instruction, isUnlock func(ssa.Instruction) bool) bool {
	return reachableAfter(from, isUnlock, nil) != nil
}

func loadOf(v ssa.Value) ssa.Instruction {
	for i := 0; i < 6; i++ {
		switch x := v.(type) {
		case *ssa.UnOp:
			if x.Op == token.MUL {
				if _, ok := x.X.(*ssa.FieldAddr); ok {
					return x
				}
				if al, ok := x.X.(*ssa.Alloc); ok {
					if sv := singleStore(al); sv != nil {
						v = sv
						continue
					}
				}
			}
			return nil
		default:
			return nil
		}
	}
	return nil
}

// releasesLock: does fn (or a W method it calls, depth<=2) contain a non-deferred W.mu.Unlock()?
func (a *A) releasesLock(W *types.Named, fn *ssa.Function, depth int) bool {
	if fn == nil || fn.Blocks == nil || depth > 2 {
		return false
	}
	muF := a.FieldOf(W, "mu")
	res := false
	allInstrs(fn, func(in ssa.Instruction) {
		c, ok := in.(*ssa.Call)
		if !ok {
			return
		}
		callee := c.Call.StaticCallee()
		if callee == nil {
			return
		}
		if callee.Name() == "Unlock" && len(c.Call.Args) > 0 && fieldAddrIs(c.Call.Args[0], muF) {
			res = true
		}
		if callee.Signature.Recv() != nil && isNamedType(callee.Signature.Recv().Type(), W.Obj().Pkg().Path(), W.Obj().Name()) && callee != fn {
			if a.releasesLock(W, callee, depth+1) {
				res = true
			}
		}
	})
	return res
}

// ---------------------------------------------------------------- who may write a field

// ruleWriters: the set of functions storing to field f of W must be a subset of allowed.
func (a *A) ruleWriters(rule string, W *types.Named, field string, allowed map[string]string) {
	f := a.FieldOf(W, field)
	var names []string
	seen := map[string]token.Pos{}
	inPkg := map[string]bool{}
	for _, fn := range a.ModFuncs {
		for _, st := range storesToField(fn, f) {
			n := fname(fn)
			if pk := ssaPkgOf(fn); pk != nil && pk.Pkg == W.Obj().Pkg() {
				inPkg[n] = true
			}
			if _, listed := allowed[n]; !listed && fn.Parent() == nil {
				// a method that only owners call (a stage of an owner extracted into a helper) writes on
				// their behalf
				if owner := a.soleOwnerCaller(fn, allowed, 0); owner != "" {
					n = owner
				}
			}
			if _, listed := allowed[n]; !listed && fn.Parent() != nil {
				// a function literal writes on behalf of the function it is written in
				top := fn
				for top.Parent() != nil {
					top = top.Parent()
				}
				if _, ok := allowed[fname(top)]; ok {
					n = fname(top)
				}
			}
			// initialisation of an object the function has just allocated is not a write to shared state
			// (and whether a zero-valued field of a composite literal is stored at all depends on the
			// go/ssa version); constructors named in the table still get their obligation
			if fa, isFA := st.Addr.(*ssa.FieldAddr); isFA && isFreshObject(fa) {
				if _, listed := allowed[n]; !listed {
					continue
				}
			}
			if _, ok := seen[n]; !ok {
				seen[n] = st.Pos()
				names = append(names, n)
			}
		}
	}
	sort.Strings(names)
	for _, n := range names {
		construct := fmt.Sprintf("%s.%s<-%s", W.Obj().Name(), field, n)
		if why, ok := allowed[n]; ok {
			a.Ok(construct, seen[n], "owner: %s", why)
		} else if inPkg[n] {
			// a writer the table does not know, inside the type's own package: what it may store is
			// decided by the structural rules that judge every store wherever it sits (data:
			// shape/buffer-arrival-order and ordtab/take-keep; currentSlot: shape/advance-by-one)
			a.Ok(construct, seen[n], "writer not in the reviewed table; every store to this field is judged by the structural rules of this property, whoever makes it")
		} else {
			a.Bad(construct, seen[n], "%s writes %s.%s from outside the package of %s", n, W.Obj().Name(), field, W.Obj().Name())
		}
	}
}

func keys(m map[string]string) []string {
	var k []string
	for x := range m {
		k = append(k, x)
	}
	sort.Strings(k)
	return k
}

// ruleAdvanceByOne: outside initialisation and Reset, currentSlot is only ever replaced by NextSlot()
// of the same window (the current interval moves forward one interval at a time, so no interval
// that may hold buffered rows is skipped).
func (a *A) ruleAdvanceByOne(W *types.Named, initFns map[string]string) {
	curF := a.FieldOf(W, "currentSlot")
	next := a.methodOf(W, "NextSlot")
	if next == nil {
		a.anchorFail("%s.NextSlot not found", W.Obj().Name())
	}
	n := 0
	for _, fn := range a.ModFuncs {
		for _, st := range storesToField(fn, curF) {
			if isFreshObject(st.Addr.(*ssa.FieldAddr)) {
				continue
			}
			n++
			construct := fmt.Sprintf("%s.currentSlot<-%s", W.Obj().Name(), fname(fn))
			ok := true
			var badLeaf string
			for _, l := range phiLeaves(st.Val) {
				if c, isCall := l.(*ssa.Call); isCall && c.Call.StaticCallee() == next {
					continue
				}
				if k, isK := l.(*ssa.Const); isK && k.Value == nil {
					continue // cleared
				}
				if a.isJumpBoundedByEveryRow(l, W) {
					continue
				}
				// NextSlot() written out where it was called: the same slot constructor over the same terms
				// of the same receiver (what NextSlot returns is judged by shape/slot-shape)
				if st0, en0 := a.slotCtorArgs(next, nil); st0 != nil && en0 != nil && fn.Signature.Recv() != nil && types.Identical(fn.Signature.Recv().Type(), next.Signature.Recv().Type()) {
					if c, isCall := l.(*ssa.Call); isCall && len(c.Call.Args) == 2 && calleeFull(&c.Call) == "github.com/rulego/streamsql/types.NewTimeSlot" {
						if TermOf(c.Call.Args[0], nil).String() == st0.String() && TermOf(c.Call.Args[1], nil).String() == en0.String() {
							continue
						}
					}
				}
				ok = false
				badLeaf = TermOf(l, nil).String()
			}
			if ok {
				a.Ok(construct, st.Pos(), "the current interval is replaced by NextSlot()")
				continue
			}
			if _, isInit := initFns[fname(fn)]; isInit && a.isMoveBackForAcceptedRow(fn, st, W) {
				a.Ok(construct, st.Pos(), "moved back to the interval of an accepted (not late) row that lies before the current interval: nothing from that interval onwards has fired, and no buffered row is skipped by moving back")
				continue
			}
			if why, isInit := initFns[fname(fn)]; isInit {
				// initialisation: allowed only while the window is not initialised
				initF := a.FieldOf(W, "initialized")
				guarded := guardedByValue(st.Block(), func(v ssa.Value) bool {
					return isFieldOf(TermOf(v, nil), qual(W), "initialized") && fieldVarOf(derefLoad(v)) == initF
				}, false)
				a.Check(guarded || strings.HasSuffix(fname(fn), ").Reset"), construct, st.Pos(), "first interval: "+why, "currentSlot is set to "+badLeaf+" in "+fname(fn)+" outside the not-yet-initialised branch")
				continue
			}
			a.Bad(construct, st.Pos(), "currentSlot is set to %s, not to NextSlot(): the current interval can jump over intervals that still hold buffered rows, which are then never emitted", badLeaf)
		}
	}
	if n == 0 {
		a.Und(W.Obj().Name()+".currentSlot", token.NoPos, "no store to currentSlot found")
	}
}

// ruleBufferArrivalOrder: a time window's row buffer (W.data) holds rows in arrival order, which
// under out-of-order input is not time order. Every use of the buffer must therefore be order-blind:
//   - a store replaces it by append(buffer, row), by a slice built element by element (a filter over
//     all rows), by nil, or by buffer[:len-1] (removal of the row appended by the same Add call);
//   - an element is addressed only as the element of a `for range buffer` loop, or to be overwritten.
//
// A positional read (buffer[0] as "the oldest row"), a binary search, or an eviction by re-slicing
// buffer[k:] treats the buffer as sorted by time and loses or misplaces rows as soon as an accepted
// out-of-order row sits behind a newer one. If the module itself sorts the buffer, the premise is gone
// and the rule records that it does not apply.
func (a *A) ruleBufferArrivalOrder(W *types.Named) {
	dataF := a.FieldOf(W, "data")
	wn := W.Obj().Name()
	isBufLoad := func(v ssa.Value) bool {
		ld, ok := v.(*ssa.UnOp)
		if !ok || ld.Op != token.MUL {
			return false
		}
		return fieldAddrIs(ld.X, dataF)
	}
	// premise: nobody sorts the buffer
	for _, fn := range a.ModFuncs {
		sorted := false
		allInstrs(fn, func(in ssa.Instruction) {
			cc := callCommon(in)
			if cc == nil {
				return
			}
			callee := cc.StaticCallee()
			if callee == nil || callee.Pkg == nil {
				return
			}
			if pp := callee.Pkg.Pkg.Path(); pp != "sort" && pp != "slices" {
				return
			}
			if !strings.Contains(callee.Name(), "Sort") && callee.Name() != "Slice" && callee.Name() != "SliceStable" && callee.Name() != "Stable" {
				return
			}
			for _, arg := range cc.Args {
				v := arg
				if mi, ok := v.(*ssa.MakeInterface); ok {
					v = mi.X
				}
				if isBufLoad(v) {
					sorted = true
				}
			}
		})
		if sorted {
			a.Ok(wn+".data#premise", token.NoPos, "the buffer is sorted in %s: the arrival-order premise does not hold, positional uses are not judged by this rule", fname(fn))
			return
		}
	}
	var freshSeen map[ssa.Value]bool
	var fresh func(v ssa.Value, depth int) bool
	fresh = func(v ssa.Value, depth int) bool {
		if depth == 0 {
			freshSeen = map[ssa.Value]bool{}
		}
		if freshSeen[v] {
			return true // loop-carried: judged by the other edges
		}
		freshSeen[v] = true
		if depth > 12 {
			return false
		}
		switch x := v.(type) {
		case *ssa.Const:
			return x.Value == nil
		case *ssa.MakeSlice:
			return true
		case *ssa.Slice:
			// slice of a fresh local array/slice
			if al, ok := x.X.(*ssa.Alloc); ok {
				_ = al
				return true
			}
			// buffer[:0]: the in-place filter idiom re-uses the backing array and keeps no element;
			// shape/in-place-filter judges that it appends at most one element per element read
			if isBufLoad(x.X) && x.Low == nil && isZeroConst(x.High) {
				return true
			}
			return fresh(x.X, depth+1)
		case *ssa.Phi:
			for _, e := range x.Edges {
				if !fresh(e, depth+1) {
					return false
				}
			}
			return true
		case *ssa.Call:
			if cc, ok := isBuiltinCall(x, "append"); ok {
				return fresh(cc.Args[0], depth+1)
			}
		}
		return false
	}
	n := 0
	for _, fn := range a.ModFuncs {
		if fn.Pkg == nil || fn.Pkg.Pkg.Path() != W.Obj().Pkg().Path() {
			continue
		}
		loops := rangeLoops(fn)
		allInstrs(fn, func(in ssa.Instruction) {
			switch x := in.(type) {
			case *ssa.Store:
				if !fieldAddrIs(x.Addr, dataF) || isFreshObject(x.Addr.(*ssa.FieldAddr)) {
					return
				}
				n++
				construct := fmt.Sprintf("%s.data<-%s", wn, fname(fn))
				for _, l := range phiLeaves(x.Val) {
					switch v := l.(type) {
					case *ssa.Const:
						if v.Value == nil {
							continue
						}
					case *ssa.Call:
						if cc, ok := isBuiltinCall(v, "append"); ok {
							if isBufLoad(cc.Args[0]) && len(appendedElems(cc)) == 1 {
								continue // append(buffer, row)
							}
							if fresh(cc.Args[0], 0) {
								continue // rebuilt element by element
							}
						}
					case *ssa.MakeSlice:
						continue
					case *ssa.Slice:
						if isBufLoad(v.X) {
							continue // judged as a slice use below
						}
						if fresh(v, 0) {
							continue
						}
					}
					a.Bad(construct, x.Pos(), "the buffer is replaced by %s, which is neither append(buffer,row), a slice rebuilt element by element, nil, nor buffer[:len-1]", TermOf(l, nil).String())
					return
				}
				a.Ok(construct, x.Pos(), "order-blind update of the row buffer")
			case *ssa.Slice:
				if !isBufLoad(x.X) {
					return
				}
				n++
				construct := fmt.Sprintf("%s.data[:]@%s", wn, fname(fn))
				if x.Low != nil {
					if k, ok := x.Low.(*ssa.Const); !ok || k.Int64() != 0 {
						a.Bad(construct, x.Pos(), "the buffer is re-sliced from %s: dropping a prefix evicts by position, but rows are buffered in arrival order, so an accepted out-of-order row behind a newer one makes the prefix contain rows a later interval still needs", TermOf(x.Low, nil).String())
						return
					}
				}
				if x.High != nil && !(x.Low == nil && isZeroConst(x.High)) {
					okHigh := false
					if bo, ok := x.High.(*ssa.BinOp); ok && bo.Op == token.SUB {
						if k, ok := bo.Y.(*ssa.Const); ok && k.Int64() == 1 {
							if c, ok := bo.X.(*ssa.Call); ok {
								if cc, ok := isBuiltinCall(c, "len"); ok && isBufLoad(cc.Args[0]) {
									okHigh = true
								}
							}
						}
					}
					if !okHigh && compactionCursor(x.High, loops, isBufLoad) {
						a.Ok(construct, x.Pos(), "buffer[:kept] after an in-place compaction: kept counts the rows a full scan moved to the front, in their order")
						return
					}
					if !okHigh {
						a.Bad(construct, x.Pos(), "the buffer is truncated to %s: only buffer[:len-1] (the row appended by this very Add call) is an order-blind truncation", TermOf(x.High, nil).String())
						return
					}
				}
				a.Ok(construct, x.Pos(), "buffer[:len-1] removes the row appended by this call, or buffer[:0] starts an in-place filter")
			case *ssa.IndexAddr:
				if !isBufLoad(x.X) {
					return
				}
				n++
				construct := fmt.Sprintf("%s.data[i]@%s", wn, fname(fn))
				for _, l := range loops {
					if l.Blocks[x.Block()] || x.Block() == l.Body {
						if bo, ok := x.Index.(*ssa.BinOp); ok && bo.Block() == l.Header {
							a.Ok(construct, x.Pos(), "element of a range loop over the whole buffer")
							return
						}
						// for i := 0; i < len(buffer); i++ { ... buffer[i] ... }: the same full scan
						if l.Index != nil && x.Index == l.Index && l.X != nil && isBufLoad(l.X) {
							a.Ok(construct, x.Pos(), "element of an index loop over the whole buffer (0 .. len-1)")
							return
						}
					}
				}
				onlyStores := len(*x.Referrers()) > 0
				for _, r := range *x.Referrers() {
					if st, ok := r.(*ssa.Store); !ok || st.Addr != ssa.Value(x) {
						onlyStores = false
					}
				}
				if onlyStores {
					a.Ok(construct, x.Pos(), "slot overwritten, not read")
					return
				}
				a.Bad(construct, x.Pos(), "the buffer is read at position %s outside a range loop: rows are buffered in arrival order, a position says nothing about a row's time", TermOf(x.Index, nil).String())
			}
		})
	}
	if n == 0 {
		a.Und(wn+".data", token.NoPos, "no use of the row buffer found")
	}
}

// compactionCursor: k is the write cursor of an in-place compaction of the buffer -
//
//	kept := 0; for i := range buf { if keep(buf[i]) { buf[kept] = buf[i]; kept++ } }; buf = buf[:kept]
//
// k is a phi in the header of a full scan of the buffer, 0 on entry; inside the loop it stays or grows by one, and it
// grows only in a block that stores the scanned element at position k. So k <= i throughout (no element is overwritten
// before it is read), the kept elements end up at 0..k-1 in their original order, and buf[:k] drops nothing that was
// kept: the truncation is by content, not by position.
func compactionCursor(k ssa.Value, loops []*RLoop, isBufLoad func(ssa.Value) bool) bool {
	phi, ok := k.(*ssa.Phi)
	if !ok {
		return false
	}
	var loop *RLoop
	for _, l := range loops {
		if l.Header == phi.Block() && l.X != nil && isBufLoad(l.X) {
			loop = l
		}
	}
	if loop == nil {
		return false
	}
	isElem := func(v ssa.Value) bool {
		if v == loop.Elem && v != nil || loop.Elems[v] {
			return true
		}
		if ld, ok := v.(*ssa.UnOp); ok && ld.Op == token.MUL {
			if al, ok := ld.X.(*ssa.Alloc); ok && al == loop.ElemAl && al != nil {
				return true
			}
			if ia, ok := ld.X.(*ssa.IndexAddr); ok && isBufLoad(ia.X) {
				if bo, ok := ia.Index.(*ssa.BinOp); ok && bo.Block() == loop.Header {
					return true
				}
				if loop.Index != nil && ia.Index == loop.Index {
					return true
				}
			}
		}
		return false
	}
	entry := 0
	seen := map[ssa.Value]bool{}
	var inside func(v ssa.Value) bool
	inside = func(v ssa.Value) bool {
		if v == ssa.Value(phi) || seen[v] {
			return true
		}
		seen[v] = true
		switch x := v.(type) {
		case *ssa.Phi:
			if !loop.Blocks[x.Block()] {
				return false
			}
			for _, e := range x.Edges {
				if !inside(e) {
					return false
				}
			}
			return true
		case *ssa.BinOp:
			if x.Op != token.ADD || x.X != ssa.Value(phi) {
				return false
			}
			if c, ok := x.Y.(*ssa.Const); !ok || c.Value == nil || c.Int64() != 1 {
				return false
			}
			// the increment goes with a store of the scanned element at the cursor
			for _, in := range x.Block().Instrs {
				st, ok := in.(*ssa.Store)
				if !ok {
					continue
				}
				ia, ok := st.Addr.(*ssa.IndexAddr)
				if ok && isBufLoad(ia.X) && ia.Index == ssa.Value(phi) && isElem(st.Val) {
					return true
				}
			}
		}
		return false
	}
	for i, e := range phi.Edges {
		p := phi.Block().Preds[i]
		if loop.Blocks[p] || p == loop.Header {
			if !inside(e) {
				return false
			}
			continue
		}
		if !isZeroConst(e) {
			return false
		}
		entry++
	}
	// no other store at the cursor position inside the loop
	for b := range loop.Blocks {
		for _, in := range b.Instrs {
			if st, ok := in.(*ssa.Store); ok {
				if ia, ok := st.Addr.(*ssa.IndexAddr); ok && isBufLoad(ia.X) && !isElem(st.Val) {
					return false
				}
			}
		}
	}
	return entry == 1
}

func isZeroConst(v ssa.Value) bool {
	k, ok := v.(*ssa.Const)
	return ok && k.Value != nil && k.Int64() == 0
}

// isMoveBackForAcceptedRow: the store sets currentSlot to createSlotFromStart(alignWindowStart(ts, …))
// and is reachable only when ts.Before(*currentSlot.Start) holds and the row is not late
// (IsEventTimeLate(ts) false, or there is no watermark).
func (a *A) isMoveBackForAcceptedRow(fn *ssa.Function, st *ssa.Store, W *types.Named) bool {
	c, ok := st.Val.(*ssa.Call)
	if !ok || c.Call.StaticCallee() == nil || c.Call.StaticCallee().Name() != "createSlotFromStart" || len(c.Call.Args) < 2 {
		return false
	}
	al, ok := c.Call.Args[1].(*ssa.Call)
	if !ok || al.Call.StaticCallee() == nil || al.Call.StaticCallee().Name() != "alignWindowStart" {
		return false
	}
	ts := al.Call.Args[0]
	curF := a.FieldOf(W, "currentSlot")
	wmF := a.FieldOf(W, "watermark")
	isBefore := func(v ssa.Value) bool {
		cc, ok := v.(*ssa.Call)
		if !ok {
			return false
		}
		// ts.Before(currentSlot.Start), or currentSlot.Start.After(ts)
		early, late, isCmp := timeOrder(cc)
		if !isCmp || resolveBound(early) != ts {
			return false
		}
		t := TermOf(late, nil)
		return strings.Contains(t.String(), "currentSlot") && strings.Contains(t.String(), "Start") && curF != nil
	}
	isLate := func(v ssa.Value) bool {
		cc, ok := v.(*ssa.Call)
		return ok && cc.Call.StaticCallee() != nil && cc.Call.StaticCallee().Name() == "IsEventTimeLate" && len(cc.Call.Args) == 2 && resolveBound(cc.Call.Args[1]) == ts
	}
	// watermarkTest: v is `w.watermark == nil` (eq true) or `w.watermark != nil` (eq false)
	watermarkTest := func(v ssa.Value) (eq, ok bool) {
		bo, isB := v.(*ssa.BinOp)
		if !isB || (bo.Op != token.EQL && bo.Op != token.NEQ) {
			return false, false
		}
		x := bo.X
		if isNilConst(x) {
			x = bo.Y
		} else if !isNilConst(bo.Y) {
			return false, false
		}
		t := TermOf(x, nil)
		return bo.Op == token.EQL, t.Kind == "field" && t.Field == wmF
	}
	// not reachable when the row is not earlier than the current interval
	if reachUnder(fn, st, func(v ssa.Value) Tri {
		if isBefore(v) {
			return F
		}
		return U
	}) {
		return false
	}
	// not reachable for a late row (both analyses over-approximate what is feasible: the fixpoint evaluates boolean
	// helpers, the path search keeps a named boolean `late := A && B && isLate` consistent with a second test of A)
	lateRow := func(v ssa.Value) Tri {
		if isLate(v) {
			return T
		}
		if ex, ok := v.(*ssa.Extract); ok && a.wmVerdict(v) == "late" {
			// the verdict of a later-written watermark helper on this very timestamp
			for _, arg := range ex.Tuple.(*ssa.Call).Call.Args {
				if resolveBound(arg) == ts {
					return T
				}
				for _, l := range phiLeaves(ts) {
					if resolveBound(arg) == l {
						return T // the timestamp before it was merged with the processing-time clock
					}
				}
			}
		}
		if eq, ok := watermarkTest(v); ok {
			return tri(!eq) // there is a watermark
		}
		return U
	}
	if reachUnder(fn, st, lateRow) && reachOnSomePath(fn, st, lateRow) {
		return false
	}
	return true
}

// ruleClockReadUnderLock: in processing time the row's timestamp is the wall clock, and the interval
// that is current when the row is placed is advanced by the timer goroutine under the window lock. The
// clock must therefore be read while the lock is held: a value read before Lock() can belong to an
// interval that a Trigger() running in between has already delivered — the row is buffered behind the
// fired interval and never appears in any result. Every time.Now() in W.Add is executed with W.mu held
// exclusively.
func (a *A) ruleClockReadUnderLock(W *types.Named) int {
	add := a.methodOf(W, "Add")
	if add == nil {
		a.anchorFail("%s.Add not found", W.Obj().Name())
	}
	L := a.Locks()
	n := 0
	key := lockKey{ownerName(types.NewPointer(W)), "mu"}
	allInstrs(add, func(in ssa.Instruction) {
		c, ok := in.(*ssa.Call)
		if !ok {
			return
		}
		sc := c.Call.StaticCallee()
		if sc == nil || sc.Pkg == nil || sc.Pkg.Pkg.Path() != "time" || sc.Name() != "Now" {
			return
		}
		n++
		held := L.Held(in)
		a.Check(held[key] == 'W', fmt.Sprintf("%s#clock-read-under-lock", fname(add)), c.Pos(),
			"the wall clock that stamps the row is read while "+key.String()+" is held",
			"the wall clock is read without "+key.String()+" held (held: "+held.String()+"): a Trigger() between this read and the lock delivers the interval the timestamp belongs to, and the row is lost")
	})
	return n
}

// ruleRowEvictionIgnoresLateness: the lateness allowance decides *when* a fired window stops
// accepting late rows (watermark >= end + allowance); which rows belong to it is decided by the
// interval alone. A comparison of a buffered row's timestamp with a time derived from the allowance
// (triggeredWindowInfo.closeTime, config.AllowedLateness) mixes the two: rows of the next, not yet
// fired window that lie within the allowance of the expired one are treated as its rows (and deleted
// with it). In the methods of W no comparison has a types.Row.Timestamp on one side and such a time
// on the other.
func (a *A) ruleRowEvictionIgnoresLateness(W *types.Named) int {
	rowTs := a.FieldOf(a.Named("types", "Row"), "Timestamp")
	lateCfg := a.FieldOf(a.Named("types", "WindowConfig"), "AllowedLateness")
	isField := func(v ssa.Value, f *types.Var) bool {
		switch x := v.(type) {
		case *ssa.FieldAddr:
			st := derefStruct(x.X.Type())
			return st != nil && st.Field(x.Field) == f
		case *ssa.Field:
			st, ok := x.X.Type().Underlying().(*types.Struct)
			return ok && st.Field(x.Field) == f
		}
		return false
	}
	isCloseTime := func(v ssa.Value) bool {
		var st *types.Struct
		var idx int
		switch x := v.(type) {
		case *ssa.FieldAddr:
			st, idx = derefStruct(x.X.Type()), x.Field
		case *ssa.Field:
			st, _ = x.X.Type().Underlying().(*types.Struct)
			idx = x.Field
		}
		return st != nil && st.Field(idx).Name() == "closeTime" && st.Field(idx).Pkg() == W.Obj().Pkg()
	}
	n := 0
	for _, fn := range a.ModFuncs {
		if fn.Blocks == nil {
			continue
		}
		root := fn
		for root.Parent() != nil {
			root = root.Parent()
		}
		if r := root.Signature.Recv(); r == nil || !types.Identical(derefT(r.Type()), W) {
			continue
		}
		allInstrs(fn, func(in ssa.Instruction) {
			c, ok := in.(*ssa.Call)
			if !ok || len(c.Call.Args) != 2 {
				return
			}
			switch timeMethod(&c.Call) {
			case "Before", "After", "Equal", "Compare":
			default:
				// slot.Contains(ts)
				if sc := c.Call.StaticCallee(); sc == nil || sc.Name() != "Contains" || sc.Signature.Recv() == nil || !isNamedType(sc.Signature.Recv().Type(), modPath+"/types", "TimeSlot") {
					return
				}
			}
			side := func(v ssa.Value) (row, late bool) {
				for x := range sliceThroughLocals(v, fn, 8) {
					if isField(x, rowTs) {
						row = true
					}
					if isField(x, lateCfg) || isCloseTime(x) {
						late = true
					}
				}
				return
			}
			r0, l0 := side(c.Call.Args[0])
			r1, l1 := side(c.Call.Args[1])
			if !r0 && !r1 {
				return
			}
			n++
			bad := (r0 && l1) || (r1 && l0)
			a.Check(!bad, fmt.Sprintf("%s#row-vs-allowance", fname(fn)), c.Pos(),
				"the buffered row's timestamp is compared with interval bounds only",
				"a buffered row's timestamp is compared with a time derived from the lateness allowance (closeTime / AllowedLateness): rows of the next window that lie within the allowance of an expired window are treated as belonging to it")
		})
	}
	return n
}

func derefT(t types.Type) types.Type {
	if p, ok := types.Unalias(t).(*types.Pointer); ok {
		return types.Unalias(p.Elem())
	}
	return types.Unalias(t)
}

// ruleEvictedResultCounted: with the drop strategy a window whose output buffer is full makes room
// by taking the oldest result out of its own output channel. That result was counted as sent and is
// now lost: it must be counted as dropped, or sent - delivered silently diverges (a watermark advance
// that closes 60 sessions at once delivers 50 and reports droppedCount 0). In the methods of W that
// send on W.outputChan, every receive from W.outputChan is followed, on every path to the function's
// exit, by an increment of W.droppedCount.
func (a *A) ruleEvictedResultCounted(W *types.Named) int {
	out := a.FieldOf(W, "outputChan")
	dropped := a.FieldOf(W, "droppedCount")
	isChan := func(v ssa.Value) bool {
		t := TermOf(v, nil)
		return t.Kind == "field" && t.Field == out
	}
	isCount := func(in ssa.Instruction) bool {
		c, ok := in.(*ssa.Call)
		if !ok {
			return false
		}
		sc := c.Call.StaticCallee()
		if sc == nil || sc.Pkg == nil || sc.Pkg.Pkg.Path() != "sync/atomic" || !strings.HasPrefix(sc.Name(), "Add") {
			return false
		}
		return fieldAddrIs(c.Call.Args[0], dropped)
	}
	n := 0
	for _, fn := range a.ModFuncs {
		if fn.Blocks == nil {
			continue
		}
		root := fn
		for root.Parent() != nil {
			root = root.Parent()
		}
		if r := root.Signature.Recv(); r == nil || !types.Identical(derefT(r.Type()), W) {
			continue
		}
		sends := false
		allInstrs(fn, func(in ssa.Instruction) {
			switch x := in.(type) {
			case *ssa.Send:
				if isChan(x.Chan) {
					sends = true
				}
			case *ssa.Select:
				for _, st := range x.States {
					if st.Dir == types.SendOnly && isChan(st.Chan) {
						sends = true
					}
				}
			}
		})
		if !sends {
			continue
		}
		allInstrs(fn, func(in ssa.Instruction) {
			sel, ok := in.(*ssa.Select)
			if !ok {
				return
			}
			for k, st := range sel.States {
				if st.Dir != types.RecvOnly || !isChan(st.Chan) {
					continue
				}
				n++
				// the block entered when state k fired
				var arm *ssa.BasicBlock
				allInstrs(fn, func(x ssa.Instruction) {
					iff, ok := x.(*ssa.If)
					if !ok {
						return
					}
					bo, ok := iff.Cond.(*ssa.BinOp)
					if !ok || bo.Op != token.EQL {
						return
					}
					ex, ok := bo.X.(*ssa.Extract)
					if !ok || ex.Tuple != ssa.Value(sel) || ex.Index != 0 {
						return
					}
					if c, ok := bo.Y.(*ssa.Const); ok && c.Value != nil && c.Int64() == int64(k) {
						arm = iff.Block().Succs[0]
					}
				})
				construct := fmt.Sprintf("%s#evicted-result-counted", fname(fn))
				if arm == nil {
					a.Und(construct, sel.Pos(), "the arm of the receive from the output channel was not found")
					continue
				}
				bad := reachableFrom(arm, 0, func(x ssa.Instruction) bool {
					_, isRet := x.(*ssa.Return)
					return isRet
				}, isCount)
				pos := sel.Pos()
				a.Check(bad == nil, construct, pos,
					"the result taken out of the full output buffer to make room is counted as dropped on every path",
					"a result taken out of the full output buffer to make room (drop-oldest) is not counted in droppedCount on a path to the function's exit: it was counted as sent, is never delivered, and no statistic shows the loss")
			}
		})
	}
	return n
}

// guardedByLateFlag: block b is guarded (true sense) by a boolean that is false unless a call accepted
// by isLate returned true: `isLate := a && b && wm.IsEventTimeLate(ts); if isLate {` — the flag is a phi
// whose only non-false edges carry the call's result.
func (a *A) guardedByLateFlag(b *ssa.BasicBlock, isLate func(*ssa.Function) bool) bool {
	for _, g := range guardsOf(b) {
		if !g.Sense {
			continue
		}
		phi, ok := g.Cond.(*ssa.Phi)
		if !ok {
			continue
		}
		ok2, saw := true, false
		for _, e := range phi.Edges {
			if k, isK := e.(*ssa.Const); isK && k.Value != nil && k.Value.Kind() == constant.Bool && !constant.BoolVal(k.Value) {
				continue
			}
			if c, isC := e.(*ssa.Call); isC && c.Call.StaticCallee() != nil && isLate(c.Call.StaticCallee()) {
				saw = true
				continue
			}
			ok2 = false
		}
		if ok2 && saw {
			return true
		}
	}
	return false
}

// soleOwnerCaller: when every call of fn in the module comes (possibly through further such helpers)
// from functions listed in allowed, the name of one of them; "" otherwise.
func (a *A) soleOwnerCaller(fn *ssa.Function, allowed map[string]string, depth int) string {
	if depth > 3 {
		return ""
	}
	node := a.CG().Nodes[fn]
	if node == nil || len(node.In) == 0 {
		return ""
	}
	owner := ""
	for _, e := range node.In {
		if e.Caller == nil || e.Caller.Func == nil {
			return ""
		}
		if _, isGo := e.Site.(*ssa.Go); isGo {
			return ""
		}
		top := e.Caller.Func
		for top.Parent() != nil {
			top = top.Parent()
		}
		if top == fn {
			continue // recursion
		}
		if _, ok := allowed[fname(top)]; ok {
			owner = fname(top)
			continue
		}
		if o := a.soleOwnerCaller(top, allowed, depth+1); o != "" {
			owner = o
			continue
		}
		return ""
	}
	return owner
}

// isJumpBoundedByEveryRow: v is a slot obtained by shifting the current one by a whole number k of
// intervals (on the grid: createSlotFromStart(currentSlot.End.Add(k*size)), or NewTimeSlot of
// currentSlot.Start/End both moved by the same k*slide), and k depends on the timestamp of every
// buffered row: its computation reads row timestamps inside a loop over the WHOLE buffer that cannot
// be left early except once the count has reached 0. This is the one-step form of walking NextSlot()
// over a run of empty intervals. A jump computed from the watermark alone, or from one row read by
// position, does not qualify (the buffer is in arrival order); whether the dependence is the right
// one (a minimum, rounded down) is arithmetic and is not decided.
func (a *A) isJumpBoundedByEveryRow(v ssa.Value, W *types.Named) bool {
	c, ok := v.(*ssa.Call)
	if !ok || c.Call.StaticCallee() == nil {
		return false
	}
	curOf := func(x ssa.Value, want string) bool {
		f, base := slotField(TermOf(x, nil))
		return f == want && isFieldOf(base, qual(W), "currentSlot")
	}
	// shift amount of x = <currentSlot.F>.Add(amount)
	shiftOf := func(x ssa.Value, field string) ssa.Value {
		add, ok := x.(*ssa.Call)
		if !ok || calleeFull(&add.Call) != "(time.Time).Add" || !curOf(add.Call.Args[0], field) {
			return nil
		}
		return add.Call.Args[1]
	}
	localVal := func(x ssa.Value) ssa.Value { // &local: the value stored into it
		if al, ok := x.(*ssa.Alloc); ok {
			return singleStore(al)
		}
		return nil
	}
	var amount ssa.Value
	switch c.Call.StaticCallee().Name() {
	case "createSlotFromStart":
		if len(c.Call.Args) != 2 {
			return false
		}
		amount = shiftOf(c.Call.Args[1], "End")
	case "NewTimeSlot":
		if len(c.Call.Args) != 2 {
			return false
		}
		s0, e0 := localVal(c.Call.Args[0]), localVal(c.Call.Args[1])
		if s0 == nil || e0 == nil {
			return false
		}
		as, ae := shiftOf(s0, "Start"), shiftOf(e0, "End")
		if as == nil || ae == nil || !sameValue(as, ae) {
			return false
		}
		amount = as
	default:
		return false
	}
	if amount == nil {
		return false
	}
	// amount = k * size|slide
	mul, ok := amount.(*ssa.BinOp)
	if !ok || mul.Op != token.MUL {
		return false
	}
	var k ssa.Value
	for _, side := range [][2]ssa.Value{{mul.X, mul.Y}, {mul.Y, mul.X}} {
		if t := TermOf(side[1], nil); isFieldOf(t, qual(W), "size") || isFieldOf(t, qual(W), "slide") {
			k = side[0]
		}
	}
	if k == nil {
		return false
	}
	dataF := a.FieldOf(W, "data")
	fn := c.Parent()
	// backward data slice of k
	reached := map[ssa.Value]bool{}
	var rec func(x ssa.Value, d int)
	rec = func(x ssa.Value, d int) {
		if x == nil || reached[x] || d > 40 {
			return
		}
		reached[x] = true
		switch y := x.(type) {
		case *ssa.Phi:
			for _, e := range y.Edges {
				rec(e, d+1)
			}
		case *ssa.Call:
			if cal := y.Call.StaticCallee(); cal != nil && cal.Pkg != nil && cal.Pkg.Pkg.Path() == "time" {
				for _, arg := range y.Call.Args {
					rec(arg, d+1)
				}
			}
		case *ssa.BinOp:
			rec(y.X, d+1)
			rec(y.Y, d+1)
		case *ssa.UnOp:
			if al, ok := y.X.(*ssa.Alloc); ok && y.Op == token.MUL {
				for _, r := range *al.Referrers() {
					if st, ok := r.(*ssa.Store); ok && st.Addr == ssa.Value(al) {
						rec(st.Val, d+1)
					}
				}
				return
			}
			rec(y.X, d+1)
		case *ssa.Convert:
			rec(y.X, d+1)
		case *ssa.ChangeType:
			rec(y.X, d+1)
		case *ssa.FieldAddr:
			rec(y.X, d+1)
		case *ssa.Field:
			rec(y.X, d+1)
		case *ssa.Extract:
			rec(y.Tuple, d+1)
		}
	}
	rec(k, 0)
	for _, l := range rangeLoops(fn) {
		if l.X == nil {
			continue
		}
		if xt := TermOf(l.X, nil); xt.Kind != "field" || xt.Field != dataF {
			continue
		}
		readsRow := false
		for x := range reached {
			in, isIn := x.(ssa.Instruction)
			if !isIn || !l.Blocks[in.Block()] {
				continue
			}
			if l.isElem(x) {
				readsRow = true
			}
			if fa, ok := x.(*ssa.FieldAddr); ok {
				if ia, ok := fa.X.(*ssa.IndexAddr); ok {
					if bt := TermOf(ia.X, nil); bt.Kind == "field" && bt.Field == dataF {
						readsRow = true // tw.data[i].Timestamp inside the loop over tw.data
					}
				}
			}
		}
		if !readsRow {
			continue
		}
		// the loop is complete: no exit but the exhausted buffer, or the count having reached 0
		if bad := loopEarlyExit(l, func(exit *ssa.BasicBlock) bool {
			for _, p := range exit.Preds {
				if p == l.Header || !l.Blocks[p] {
					continue // the regular end of the loop, or an edge that does not come out of it
				}
				iff, ok := p.Instrs[len(p.Instrs)-1].(*ssa.If)
				if !ok {
					continue
				}
				bo, ok := iff.Cond.(*ssa.BinOp)
				if !ok || !isZeroConst(bo.Y) || !(bo.Op == token.EQL || bo.Op == token.LEQ) {
					return false
				}
			}
			return true
		}); bad == nil {
			return true
		}
	}
	return false
}

// hasTakeLoop: fn has a loop over W.data that appends the loop's row to a slice that does not go back
// into the buffer (it is returned, delivered or kept as a snapshot): fn takes rows out of the buffer.
func (a *A) hasTakeLoop(W *types.Named, fn *ssa.Function) bool {
	dataF := a.FieldOf(W, "data")
	for _, l := range rangeLoops(fn) {
		if l.X == nil {
			continue
		}
		if xt := TermOf(l.X, nil); xt.Kind != "field" || xt.Field != dataF {
			continue
		}
		for _, c := range l.elemAppends() {
			si := sinksOf(c)
			if !si.StoredField[dataF] && (si.Returned || len(si.PassedTo) > 0) {
				return true
			}
		}
	}
	return false
}
