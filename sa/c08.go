package main

func init() {
	register(&Prop{
		ID:         "C08",
		Decided:    "(1) half-open membership table of TimeSlot.Contains; (2) slot shapes: first slot starts at alignWindowStart(ts,slide) and ends at start+size, NextSlot shifts both ends by slide, and the current interval is only ever replaced by NextSlot() outside initialisation; (3) the watermark handler extracts a slot only under watermark>=End of that slot; (4) take predicate is exactly membership in the fired slot, and a row with ts>=Start+slide (needed by a later interval) is never evicted; (5) writers of SlidingWindow.data/currentSlot are the owner set (closeExpiredWindows is not among them); (6) currentSlot is advanced between loading the slot to fire and releasing the lock for delivery (fires once, in increasing order); (7) each taken row is stamped with the fired slot; (8) late policy of Add; (9) lock discipline of SlidingWindow. (10) the row buffer is used order-blind (append, element-wise rebuild, range loops): no positional read, binary search or prefix re-slice that would treat the arrival-ordered buffer as time-ordered. An in-place compaction of the buffer appends at most one row per row read and is committed (stored back) on every path to a return. Also: every time.Now() in the window's Add (the processing-time stamp of the row) is executed with the window lock held exclusively, so no Trigger can deliver the stamped interval between the clock read and the placement (locks/clock-read-under-lock). Also: no comparison in the window's methods has a buffered row's timestamp on one side and a time derived from the lateness allowance (closeTime, AllowedLateness) on the other: which rows belong to an expired window is decided by its interval alone (shape/row-eviction-ignores-lateness). Also: in the window's methods that send on its output channel, every receive from that channel (drop-oldest eviction) is followed on every path by an increment of droppedCount (flow/evicted-result-counted). Also: the aligned start of an interval is computed from the timestamp's offset from the Unix epoch and never by time.Time.Truncate/Round (shape/epoch-aligned, shared with C01).",
		NotDecided: "that every event appears in all ceil(size/slide) covering intervals under every arrival order (intervals that start before the first event's aligned slot are never created), contents under interleavings, aggregate values.",
		Run:        runC08,
	})
}

func runC08(a *A) {
	a.Rule("ordtab/contains", 1, a.ruleContains)
	a.Rule("shape/slots-tile", 4, func() { a.tumblingSlotShapes("SlidingWindow", "size", "slide") })
	a.Rule("shape/epoch-aligned", 1, func() { a.ruleEpochAligned() })
	a.Rule("shape/buffer-arrival-order", 4, func() { a.ruleBufferArrivalOrder(a.Named("window", "SlidingWindow")) })
	a.Rule("shape/row-eviction-ignores-lateness", 4, func() { a.ruleRowEvictionIgnoresLateness(a.Named("window", "SlidingWindow")) })
	a.Rule("locks/clock-read-under-lock", 2, func() { a.ruleClockReadUnderLock(a.Named("window", "SlidingWindow")) })
	a.Rule("flow/evicted-result-counted", 1, func() { a.ruleEvictedResultCounted(a.Named("window", "SlidingWindow")) })
	a.Rule("shape/in-place-filter", 0, func() { a.ruleInPlaceFilter("window") }) // no instance today (positives: cep, C15)
	a.Rule("shape/advance-by-one", 4, func() {
		a.ruleAdvanceByOne(a.Named("window", "SlidingWindow"), map[string]string{
			"(*window.SlidingWindow).Add":   "aligned slot of the first event",
			"(*window.SlidingWindow).Reset": "clears the window",
		})
	})
	a.Rule("ordtab/fire-guard", 1, func() {
		a.ruleFireGuard(a.Named("window", "SlidingWindow"), a.Method("window", "SlidingWindow", "checkAndTriggerWindows"))
	})
	a.Rule("ordtab/take-keep", 2, func() {
		W := a.Named("window", "SlidingWindow")
		late := a.MethodOpt("window", "SlidingWindow", "triggerLateUpdateLocked")
		for _, fn := range a.methodsOf(W) {
			// (the late re-delivery copies rows of a fired window out of the buffer without cutting it:
			// it has no keep side; its rows are judged by shape/late-update-identity)
			if fn != late && a.hasTakeLoop(W, fn) && len(storesToField(fn, a.FieldOf(W, "data"))) > 0 {
				a.ruleTakeKeep(W, fn, tkSpec{slide: true})
			}
		}
	})
	a.Rule("shape/slot-stamp", 1, func() {
		W := a.Named("window", "SlidingWindow")
		late := a.MethodOpt("window", "SlidingWindow", "triggerLateUpdateLocked")
		for _, fn := range a.methodsOf(W) {
			if fn != late && a.hasTakeLoop(W, fn) && len(storesToField(fn, a.FieldOf(W, "data"))) > 0 {
				a.ruleSlotStamp(W, fn)
			}
		}
	})
	a.Rule("whomay/data-writers", 7, func() {
		W := a.Named("window", "SlidingWindow")
		a.ruleWriters("whomay/data-writers", W, "data", map[string]string{
			"(*window.SlidingWindow).Add":                     "appends the arriving row",
			"(*window.SlidingWindow).dropLastRow":             "removes the row just appended (late drop)",
			"(*window.SlidingWindow).extractWindowDataLocked": "evicts rows older than the next interval start",
			"(*window.SlidingWindow).Reset":                   "clears the window",
			"window.NewSlidingWindow":                         "constructor",
		})
		a.ruleWriters("whomay/data-writers", W, "currentSlot", map[string]string{
			"(*window.SlidingWindow).Add":                    "first slot",
			"(*window.SlidingWindow).checkAndTriggerWindows": "advance before firing",
			"(*window.SlidingWindow).Trigger":                "processing-time advance",
			"(*window.SlidingWindow).Reset":                  "clears the window",
		})
	})
	a.Rule("flow/advance-before-unlock", 2, func() {
		W := a.Named("window", "SlidingWindow")
		a.ruleAdvanceBeforeUnlock(W, a.Method("window", "SlidingWindow", "checkAndTriggerWindows"))
		a.ruleAdvanceBeforeUnlock(W, a.Method("window", "SlidingWindow", "Trigger"))
	})
	a.Rule("flow/late-policy", 3, func() {
		a.ruleLatePolicy(a.Named("window", "SlidingWindow"), a.Method("window", "SlidingWindow", "Add"))
	})
	a.Rule("locks/guarded-by", 7, func() { a.lockRules("window", "SlidingWindow") })
}
