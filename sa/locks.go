package main

// locks.go — E4: flow-sensitive must-lockset with inferred entry locksets.
//
// Lock identity is (owning struct type, mutex field): two objects of one type are not
// distinguished. In this code base every guarded access is x.mu with x.field on the same
// receiver, which makes the abstraction precise where it is used (stated in the evidence).

import (
	"fmt"
	"go/token"
	"go/types"
	"sort"
	"strings"

	"golang.org/x/tools/go/callgraph"
	"golang.org/x/tools/go/ssa"
)

type lockKey struct{ Owner, Field string }

func (k lockKey) String() string { return k.Owner + "." + k.Field }

type lockSet map[lockKey]byte // 'W' exclusive, 'R' shared

func (s lockSet) clone() lockSet {
	c := lockSet{}
	for k, v := range s {
		c[k] = v
	}
	return c
}

func (s lockSet) String() string {
	var l []string
	for k, m := range s {
		l = append(l, fmt.Sprintf("%s(%c)", k, m))
	}
	sort.Strings(l)
	return "{" + strings.Join(l, ",") + "}"
}

func meet(a, b lockSet) lockSet {
	if a == nil {
		return b
	}
	if b == nil {
		return a
	}
	c := lockSet{}
	for k, m := range a {
		if m2, ok := b[k]; ok {
			if m == 'R' || m2 == 'R' {
				c[k] = 'R'
			} else {
				c[k] = 'W'
			}
		}
	}
	return c
}

func eqSet(a, b lockSet) bool {
	if (a == nil) != (b == nil) || len(a) != len(b) {
		return false
	}
	for k, m := range a {
		if b[k] != m {
			return false
		}
	}
	return true
}

type lockDelta struct {
	add lockSet
	del map[lockKey]bool
}

type Locks struct {
	a       *A
	entry   map[*ssa.Function]lockSet // nil = top (no caller seen yet)
	at      map[ssa.Instruction]lockSet
	exit    map[*ssa.Function]lockSet
	delta   map[*ssa.Function]*lockDelta
	roots   map[*ssa.Function]bool
	reach   map[*ssa.Function]bool
	goEntry map[*ssa.Function]bool
	inEdges map[*ssa.Function][]*callgraph.Edge
	// acquisition edges for lock ordering: held -> acquired, with a site
	order map[[2]lockKey]token.Pos
	// edges into a function run by (*sync.Once).Do: the Once is held while it runs
	onceEdge map[*callgraph.Edge]lockKey
}

// lockOp classifies a call as a mutex operation on a struct field.
func lockOp(c *ssa.CallCommon) (lockKey, string, bool) {
	callee := c.StaticCallee()
	if callee == nil || callee.Signature.Recv() == nil || len(c.Args) == 0 {
		return lockKey{}, "", false
	}
	rt := callee.Signature.Recv().Type()
	if !isNamedType(rt, "sync", "Mutex") && !isNamedType(rt, "sync", "RWMutex") {
		return lockKey{}, "", false
	}
	op := callee.Name()
	switch op {
	case "Lock", "Unlock", "RLock", "RUnlock", "TryLock", "TryRLock":
	default:
		return lockKey{}, "", false
	}
	fa, ok := c.Args[0].(*ssa.FieldAddr)
	if !ok {
		// global or local mutex
		if g, ok := c.Args[0].(*ssa.Global); ok {
			return lockKey{"global", g.Name()}, op, true
		}
		return lockKey{"?", c.Args[0].Name()}, op, true
	}
	st := derefStruct(fa.X.Type())
	if st == nil {
		return lockKey{}, "", false
	}
	return lockKey{ownerName(fa.X.Type()), st.Field(fa.Field).Name()}, op, true
}

// syncHigherOrderPkgs: standard-library packages whose exported functions call a function argument
// synchronously, before returning, on the calling goroutine.
var syncHigherOrderPkgs = map[string]bool{"sort": true, "slices": true, "strings": true, "bytes": true, "sync": true, "maps": true}

func (a *A) Locks() *Locks {
	if a.locks != nil {
		return a.locks
	}
	L := &Locks{a: a, entry: map[*ssa.Function]lockSet{}, at: map[ssa.Instruction]lockSet{}, exit: map[*ssa.Function]lockSet{},
		delta: map[*ssa.Function]*lockDelta{}, roots: map[*ssa.Function]bool{}, reach: map[*ssa.Function]bool{}, goEntry: map[*ssa.Function]bool{},
		inEdges: map[*ssa.Function][]*callgraph.Edge{}, order: map[[2]lockKey]token.Pos{}, onceEdge: map[*callgraph.Edge]lockKey{}}
	a.locks = L
	cg := a.CG()
	inMod := map[*ssa.Function]bool{}
	for _, f := range a.ModFuncs {
		inMod[f] = true
	}
	for _, f := range a.ModFuncs {
		n := cg.Nodes[f]
		if n == nil {
			continue
		}
		for _, e := range n.In {
			if e.Caller != nil && inMod[e.Caller.Func] {
				L.inEdges[f] = append(L.inEdges[f], e)
				if _, isGo := e.Site.(*ssa.Go); isGo {
					L.goEntry[f] = true
				}
			}
		}
	}
	// A function literal handed directly to a synchronous standard-library higher-order function
	// (sort.Search, sort.Slice, slices.SortFunc, strings.Map, (*sync.Once).Do, (*sync.Map).Range, ...)
	// runs inside that call: it inherits the lockset of the call site.
	for _, f := range a.ModFuncs {
		allInstrs(f, func(in ssa.Instruction) {
			cc := callCommon(in)
			if cc == nil {
				return
			}
			if _, isGo := in.(*ssa.Go); isGo {
				return
			}
			if _, isDefer := in.(*ssa.Defer); isDefer {
				return
			}
			callee := cc.StaticCallee()
			if callee == nil || callee.Pkg == nil || inMod[callee] || !syncHigherOrderPkgs[callee.Pkg.Pkg.Path()] {
				return
			}
			// (*sync.Once).Do(f) runs f while the Once is "held": a second Do on the same Once - from f
			// itself, through whatever it calls - blocks for ever. Modelled as a lock named after the field.
			var once *lockKey
			if callee.Name() == "Do" && callee.Signature.Recv() != nil && isNamedType(callee.Signature.Recv().Type(), "sync", "Once") && len(cc.Args) > 0 {
				if fa, ok := cc.Args[0].(*ssa.FieldAddr); ok {
					if st := derefStruct(fa.X.Type()); st != nil {
						once = &lockKey{ownerName(fa.X.Type()), st.Field(fa.Field).Name()}
					}
				}
			}
			for _, arg := range cc.Args {
				var af *ssa.Function
				switch x := arg.(type) {
				case *ssa.MakeClosure:
					af, _ = x.Fn.(*ssa.Function)
				case *ssa.Function:
					af = x
				}
				if af == nil {
					continue
				}
				if !inMod[af] && af.Synthetic != "" && af.Blocks != nil {
					// a method value (s.shutdown): the wrapper's only call is the method
					for _, b := range af.Blocks {
						for _, x := range b.Instrs {
							if c2 := callCommon(x); c2 != nil && c2.StaticCallee() != nil && inMod[c2.StaticCallee()] {
								af = c2.StaticCallee()
							}
						}
					}
				}
				if !inMod[af] || cg.Nodes[f] == nil || cg.Nodes[af] == nil {
					continue
				}
				ed := &callgraph.Edge{Caller: cg.Nodes[f], Site: in.(ssa.CallInstruction), Callee: cg.Nodes[af]}
				L.inEdges[af] = append(L.inEdges[af], ed)
				if once != nil {
					L.onceEdge[ed] = *once
				}
			}
		})
	}
	// roots of lock inference: functions without module callers, and go-entries (empty lockset)
	for _, f := range a.ModFuncs {
		if len(L.inEdges[f]) == 0 {
			L.entry[f] = lockSet{}
		}
	}
	for iter := 0; iter < 12; iter++ {
		changed := false
		L.order = map[[2]lockKey]token.Pos{}
		for _, f := range a.ModFuncs {
			if f.Blocks == nil {
				continue
			}
			// entry from call sites
			if len(L.inEdges[f]) > 0 {
				var e lockSet
				seen := false
				for _, ed := range L.inEdges[f] {
					if _, isGo := ed.Site.(*ssa.Go); isGo {
						e = meet(e, lockSet{})
						if e == nil {
							e = lockSet{}
						}
						seen = true
						continue
					}
					s, ok := L.at[ed.Site]
					if !ok {
						continue // caller not analysed yet (top)
					}
					if k, isOnce := L.onceEdge[ed]; isOnce {
						s = s.clone()
						s[k] = 'W'
					}
					if !seen {
						e = s.clone()
						seen = true
					} else {
						e = meet(e, s)
					}
				}
				if seen && !eqSet(L.entry[f], e) {
					L.entry[f] = e
					changed = true
				}
			}
			if L.entry[f] == nil {
				continue
			}
			if L.analyse(f) {
				changed = true
			}
		}
		if !changed {
			break
		}
	}
	return L
}

// analyse runs the intra-procedural dataflow for f with its current entry set; returns whether
// f's exit summary changed.
func (L *Locks) analyse(f *ssa.Function) bool {
	in := map[*ssa.BasicBlock]lockSet{}
	in[f.Blocks[0]] = L.entry[f].clone()
	work := []*ssa.BasicBlock{f.Blocks[0]}
	out := map[*ssa.BasicBlock]lockSet{}
	for len(work) > 0 {
		b := work[0]
		work = work[1:]
		s := in[b].clone()
		for _, instr := range b.Instrs {
			L.at[instr] = s.clone()
			cc := callCommon(instr)
			if cc == nil {
				continue
			}
			if _, isDefer := instr.(*ssa.Defer); isDefer {
				continue
			}
			if _, isGo := instr.(*ssa.Go); isGo {
				continue
			}
			if k, op, ok := lockOp(cc); ok {
				switch op {
				case "Lock":
					for h := range s {
						L.order[[2]lockKey{h, k}] = instr.Pos()
					}
					s[k] = 'W'
				case "RLock":
					for h := range s {
						L.order[[2]lockKey{h, k}] = instr.Pos()
					}
					if s[k] != 'W' {
						s[k] = 'R'
					}
				case "Unlock", "RUnlock":
					delete(s, k)
				}
				continue
			}
			if callee := cc.StaticCallee(); callee != nil {
				if d := L.delta[callee]; d != nil {
					for k, m := range d.add {
						s[k] = m
					}
					for k := range d.del {
						delete(s, k)
					}
				}
			}
		}
		if old, ok := out[b]; ok && eqSet(old, s) {
			continue
		}
		out[b] = s
		for _, succ := range b.Succs {
			var n lockSet
			if prev, ok := in[succ]; ok {
				n = meet(prev, s)
				if eqSet(n, prev) {
					continue
				}
			} else {
				n = s.clone()
			}
			in[succ] = n
			work = append(work, succ)
		}
	}
	// exit summary
	var ex lockSet
	for _, b := range f.Blocks {
		if _, ok := b.Instrs[len(b.Instrs)-1].(*ssa.Return); ok {
			if s, ok := out[b]; ok {
				if ex == nil {
					ex = s.clone()
				} else {
					ex = meet(ex, s)
				}
			}
		}
	}
	if ex == nil {
		ex = L.entry[f].clone()
	}
	// deferred unlocks release at exit
	allInstrs(f, func(in ssa.Instruction) {
		if d, ok := in.(*ssa.Defer); ok {
			if k, op, ok := lockOp(&d.Call); ok && (op == "Unlock" || op == "RUnlock") {
				delete(ex, k)
			}
		}
	})
	d := &lockDelta{add: lockSet{}, del: map[lockKey]bool{}}
	for k, m := range ex {
		if _, ok := L.entry[f][k]; !ok {
			d.add[k] = m
		}
	}
	for k := range L.entry[f] {
		if _, ok := ex[k]; !ok {
			d.del[k] = true
		}
	}
	changed := !eqSet(L.exit[f], ex)
	L.exit[f] = ex
	if len(d.add) == 0 && len(d.del) == 0 {
		if L.delta[f] != nil {
			changed = true
		}
		delete(L.delta, f)
	} else {
		L.delta[f] = d
	}
	return changed
}

// Held returns the must-lockset before instruction in (nil if the function was never reached).
func (L *Locks) Held(in ssa.Instruction) lockSet { return L.at[in] }

// ReachFrom marks the functions reachable over the call graph from the given roots.
func (a *A) ReachFrom(roots []*ssa.Function) map[*ssa.Function]bool {
	cg := a.CG()
	seen := map[*ssa.Function]bool{}
	var st []*ssa.Function
	st = append(st, roots...)
	for len(st) > 0 {
		f := st[len(st)-1]
		st = st[:len(st)-1]
		if f == nil || seen[f] {
			continue
		}
		seen[f] = true
		if n := cg.Nodes[f]; n != nil {
			for _, e := range n.Out {
				if e.Callee != nil && a.fnInModule(e.Callee.Func) {
					st = append(st, e.Callee.Func)
				}
			}
		}
		// closures created here may be invoked by third-party code (expr-lang, sync.Once, sort)
		for _, af := range f.AnonFuncs {
			st = append(st, af)
		}
	}
	return seen
}

// APIRoots: exported methods of *streamsql.Streamsql, stream.MemoryTableSource and exported
// package functions of the root package.
func (a *A) APIRoots() []*ssa.Function {
	var roots []*ssa.Function
	add := func(n *types.Named) {
		for _, t := range []types.Type{types.NewPointer(n)} {
			ms := a.Prog.MethodSets.MethodSet(t)
			for i := 0; i < ms.Len(); i++ {
				if !ms.At(i).Obj().Exported() {
					continue
				}
				if fo, ok := ms.At(i).Obj().(*types.Func); ok {
					if f := a.Prog.FuncValue(fo); f != nil {
						roots = append(roots, f)
					}
				}
			}
		}
	}
	add(a.Named("", "Streamsql"))
	add(a.Named("stream", "MemoryTableSource"))
	for _, m := range a.Pkg("").Members {
		if f, ok := m.(*ssa.Function); ok && f.Object() != nil && f.Object().Exported() {
			roots = append(roots, f)
		}
	}
	return roots
}

func (a *A) APIReach() map[*ssa.Function]bool {
	if a.apiReach == nil {
		a.apiReach = a.ReachFrom(a.APIRoots())
	}
	return a.apiReach
}

// ---------------------------------------------------------------- guarded-by

// FieldAccess is one read or write of a struct field.
type FieldAccess struct {
	In    ssa.Instruction
	Fn    *ssa.Function
	Write bool
	Addr  *ssa.FieldAddr
}

// fieldAccesses lists loads/stores through FieldAddr of field f in module functions. A FieldAddr
// whose address escapes to a call (e.g. atomic.AddInt64(&x.f)) is reported as Write with In = the call.
func (a *A) fieldAccesses(f *types.Var) []FieldAccess {
	var out []FieldAccess
	for _, fn := range a.ModFuncs {
		allInstrs(fn, func(in ssa.Instruction) {
			fa, ok := in.(*ssa.FieldAddr)
			if !ok {
				return
			}
			st := derefStruct(fa.X.Type())
			if st == nil || st.Field(fa.Field) != f {
				return
			}
			for _, r := range *fa.Referrers() {
				switch u := r.(type) {
				case *ssa.Store:
					if u.Addr == fa {
						out = append(out, FieldAccess{In: u, Fn: fn, Write: true, Addr: fa})
					}
				case *ssa.UnOp:
					if u.Op == token.MUL {
						out = append(out, FieldAccess{In: u, Fn: fn, Addr: fa})
						// a map/slice loaded from the field and mutated in place is a write of the field's state
						if refs := u.Referrers(); refs != nil {
							for _, rr := range *refs {
								switch m := rr.(type) {
								case *ssa.MapUpdate:
									if m.Map == u {
										out = append(out, FieldAccess{In: m, Fn: fn, Write: true, Addr: fa})
									}
								case *ssa.Call:
									if cc, ok := isBuiltinCall(m, "delete"); ok && cc.Args[0] == u {
										out = append(out, FieldAccess{In: m, Fn: fn, Write: true, Addr: fa})
									}
								case *ssa.IndexAddr:
									if m.X == u {
										for _, r3 := range *m.Referrers() {
											if st, ok := r3.(*ssa.Store); ok && st.Addr == m {
												out = append(out, FieldAccess{In: st, Fn: fn, Write: true, Addr: fa})
											}
										}
									}
								}
							}
						}
					}
				case *ssa.FieldAddr, *ssa.IndexAddr:
					// nested access: x.f.g or x.f[i] — treat as read of f (the container), writes
					// through it are writes to the inner object
					out = append(out, FieldAccess{In: r, Fn: fn, Addr: fa})
				case *ssa.Call:
					out = append(out, FieldAccess{In: u, Fn: fn, Write: true, Addr: fa})
				}
			}
		})
	}
	return out
}

// isFreshObject: the struct whose field is accessed was allocated in this function (constructor
// phase: not yet published).
func isFreshObject(fa *ssa.FieldAddr) bool {
	v := fa.X
	for i := 0; i < 4; i++ {
		switch x := v.(type) {
		case *ssa.Alloc:
			return true
		case *ssa.UnOp:
			if al, ok := x.X.(*ssa.Alloc); ok && x.Op == token.MUL {
				if sv := singleStore(al); sv != nil {
					v = sv
					continue
				}
			}
			return false
		default:
			return false
		}
	}
	return false
}

// GuardSpec: which lock guards a field (or why it needs none).
type GuardSpec struct {
	Lock   string // mutex field name in the same struct; "" = no guard needed
	// LockOwner: qualified type that owns the mutex when it is not the struct itself (state owned by a
	// parent object and guarded by the parent's lock)
	LockOwner string
	Reason string // for Lock=="": why
	// ReadsUnguardedOK: reads without the lock are tolerated with this reason
	ReadsUnguardedOK string
}

// ruleGuardedBy checks every access to the listed fields of struct S in API-reachable functions.
func (a *A) ruleGuardedBy(S *types.Named, table map[string]GuardSpec, exemptFns map[string]string) {
	L := a.Locks()
	reach := a.APIReach()
	st := S.Underlying().(*types.Struct)
	owner := qual(S)
	var names []string
	for n := range table {
		names = append(names, n)
	}
	sort.Strings(names)
	for _, fname_ := range names {
		spec := table[fname_]
		fv := a.FieldOf(S, fname_)
		_ = st
		acc := a.fieldAccesses(fv)
		nChecked, nBad := 0, 0
		construct := fmt.Sprintf("%s.%s", S.Obj().Name(), fname_)
		if spec.Lock == "" {
			a.Ok(construct, fv.Pos(), "no guard required: %s", spec.Reason).Trivial = true
			continue
		}
		key := lockKey{owner, spec.Lock}
		if spec.LockOwner != "" {
			key = lockKey{spec.LockOwner, spec.Lock}
		}
		for _, ac := range acc {
			if !reach[ac.Fn] {
				continue
			}
			if isFreshObject(ac.Addr) {
				continue
			}
			if why, ok := exemptFns[fname(ac.Fn)]; ok && why != "" {
				continue
			}
			held := L.Held(ac.In)
			if held == nil {
				continue
			}
			nChecked++
			m, ok := held[key]
			if ok && (m == 'W' || !ac.Write) {
				continue
			}
			if !ac.Write && spec.ReadsUnguardedOK != "" {
				continue
			}
			nBad++
			kind := "read"
			if ac.Write {
				kind = "write"
			}
			need := "held"
			if ok {
				need = "held exclusively (only the read lock is held)"
			}
			a.Bad(construct+"@"+fname(ac.Fn), ac.In.Pos(), "%s of %s.%s in %s without %s %s; lockset here is %s", kind, S.Obj().Name(), fname_, fname(ac.Fn), key, need, held)
		}
		if nBad == 0 {
			a.Ok(construct, fv.Pos(), "all %d accesses in API-reachable code hold %s", nChecked, key)
		}
	}
}

// ruleAtomicMix: a field whose address is passed to sync/atomic must not also be accessed plainly.
func (a *A) ruleAtomicMix(S *types.Named) {
	st, ok := S.Underlying().(*types.Struct)
	if !ok {
		return
	}
	reach := a.APIReach()
	for i := 0; i < st.NumFields(); i++ {
		fv := st.Field(i)
		acc := a.fieldAccesses(fv)
		atomicUse := false
		for _, ac := range acc {
			if c, ok := ac.In.(*ssa.Call); ok {
				if cal := c.Call.StaticCallee(); cal != nil && cal.Pkg != nil && cal.Pkg.Pkg.Path() == "sync/atomic" {
					atomicUse = true
				}
			}
		}
		if !atomicUse {
			continue
		}
		construct := fmt.Sprintf("%s.%s#atomic", S.Obj().Name(), fv.Name())
		bad := 0
		for _, ac := range acc {
			if !reach[ac.Fn] || isFreshObject(ac.Addr) {
				continue
			}
			switch in := ac.In.(type) {
			case *ssa.Call:
				if cal := in.Call.StaticCallee(); cal != nil && cal.Pkg != nil && cal.Pkg.Pkg.Path() == "sync/atomic" {
					continue
				}
			}
			bad++
			a.Bad(construct+"@"+fname(ac.Fn), ac.In.Pos(), "%s.%s is accessed with sync/atomic elsewhere but plainly in %s: a data race between the two", S.Obj().Name(), fv.Name(), fname(ac.Fn))
		}
		if bad == 0 {
			a.Ok(construct, fv.Pos(), "every access in API-reachable code goes through sync/atomic")
		}
	}
}

// ruleLockOrder: the acquisition-order graph over lock identities is acyclic, and no lock is
// re-acquired exclusively while held.
func (a *A) ruleLockOrder() {
	L := a.Locks()
	adj := map[lockKey][]lockKey{}
	var edges []string
	for e, pos := range L.order {
		if e[0] == e[1] {
			a.Bad("lock-order#self:"+e[0].String(), pos, "%s is acquired while already held (self-deadlock for a non-reentrant mutex)", e[0])
			continue
		}
		adj[e[0]] = append(adj[e[0]], e[1])
		edges = append(edges, e[0].String()+"->"+e[1].String())
	}
	sort.Strings(edges)
	// cycle detection
	color := map[lockKey]int{}
	var cyc []string
	var dfs func(k lockKey, path []string)
	dfs = func(k lockKey, path []string) {
		color[k] = 1
		for _, n := range adj[k] {
			if color[n] == 1 {
				cyc = append(cyc, strings.Join(append(path, k.String(), n.String()), " -> "))
			} else if color[n] == 0 {
				dfs(n, append(path, k.String()))
			}
		}
		color[k] = 2
	}
	var ks []lockKey
	for k := range adj {
		ks = append(ks, k)
	}
	sort.Slice(ks, func(i, j int) bool { return ks[i].String() < ks[j].String() })
	for _, k := range ks {
		if color[k] == 0 {
			dfs(k, nil)
		}
	}
	if len(cyc) > 0 {
		for _, c := range cyc {
			a.Bad("lock-order#cycle", token.NoPos, "lock acquisition order has a cycle: %s", c)
		}
	} else {
		a.Ok("lock-order#acyclic", token.NoPos, "acquisition-order graph over %d lock identities is acyclic (%d nested-acquisition edges: %s)", len(adj), len(edges), strings.Join(edges, ", "))
	}
}

// SurveyLocks prints, for every field of struct S, its accesses with locksets (survey mode used
// to build and re-confirm the frozen guard tables).
func (a *A) SurveyLocks(S *types.Named) {
	L := a.Locks()
	reach := a.APIReach()
	st := S.Underlying().(*types.Struct)
	for i := 0; i < st.NumFields(); i++ {
		fv := st.Field(i)
		fmt.Printf("== %s.%s\n", S.Obj().Name(), fv.Name())
		for _, ac := range a.fieldAccesses(fv) {
			k := "R"
			if ac.Write {
				k = "W"
			}
			fr := ""
			if isFreshObject(ac.Addr) {
				fr = " fresh"
			}
			rc := ""
			if !reach[ac.Fn] {
				rc = " unreachable"
			}
			fmt.Printf("   %s %-60s %s %s%s%s\n", k, fname(ac.Fn), a.pos(ac.In.Pos()), L.Held(ac.In), fr, rc)
		}
	}
}

// SurveyLocksCompact prints one line per field: distinct (kind, lockset) pairs of reachable,
// non-constructor accesses.
func (a *A) SurveyLocksCompact(S *types.Named) {
	L := a.Locks()
	reach := a.APIReach()
	st, ok := S.Underlying().(*types.Struct)
	if !ok {
		return
	}
	fmt.Printf("#### %s\n", qual(S))
	for i := 0; i < st.NumFields(); i++ {
		fv := st.Field(i)
		sets := map[string][]string{}
		for _, ac := range a.fieldAccesses(fv) {
			if !reach[ac.Fn] || isFreshObject(ac.Addr) {
				continue
			}
			k := "R"
			if ac.Write {
				k = "W"
			}
			if c, ok := ac.In.(*ssa.Call); ok {
				if cal := c.Call.StaticCallee(); cal != nil && cal.Pkg != nil {
					k = "call:" + cal.Pkg.Pkg.Name() + "." + cal.Name()
				}
			}
			key := k + " " + L.Held(ac.In).String()
			sets[key] = append(sets[key], fname(ac.Fn)+":"+strings.TrimPrefix(a.pos(ac.In.Pos()), ""))
		}
		var ks []string
		for k := range sets {
			ks = append(ks, k)
		}
		sort.Strings(ks)
		fmt.Printf("  %s  (%s)\n", fv.Name(), fv.Type())
		for _, k := range ks {
			ex := sets[k]
			if len(ex) > 3 {
				ex = append(ex[:3], fmt.Sprintf("…+%d", len(sets[k])-3))
			}
			fmt.Printf("      %-70s %s\n", k, strings.Join(ex, " "))
		}
	}
}
