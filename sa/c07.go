package main

import (
	"fmt"
	"go/constant"
	"go/token"
	"go/types"
	"regexp"
	"sort"
	"strings"

	"golang.org/x/tools/go/ssa"
)

func init() {
	register(&Prop{
		ID:         "C07",
		Decided:    "(1) in processAggregationResults the clauses run in relational order on every path: DISTINCT, HAVING, strip of hidden HAVING columns, ORDER BY, LIMIT, delivery; (2) LIMIT keeps a prefix results[:Limit] and only when len>Limit; (3) every hidden-column family the parser creates (__having_N__, __winagg_N__) has a strip site with a matching prefix in the stream package; (3b) a HAVING aggregate call is bound only to the alias of that very call text, to the call text itself, or to a freshly registered hidden aggregate; (4) compareOrderValues returns -1/0/+1 exactly for a<b / a=b / a>b on numbers (NaN unordered => 0), times and strings; Sorter.less uses c<0 for ASC and c>0 for DESC and continues to the next key on ties. Also: the batch handed to the result channel and the sinks is never backed by storage the engine keeps (field or package variable); text heuristics that cut 'first ( … last )' prove that the call spans the text (or every caller does); an aggregate registered from ParseAggregateTypeWithExpression is registered together with its expression argument. Also: a HAVING predicate that cannot be compiled filters everything out (never returns its input); float ORDER BY keys are converted to integers only after an integrality test; clause-text loops can end at every later clause keyword. Also: a stage that sweeps result rows by pattern (ranges over the row and deletes by prefix) tests a prefix that is not also a prefix of another hidden column family (__having_, __winagg_, …): it cannot delete what a later stage still reads (ownmap/hidden-column-families). Also: no regular expression of the shape name\\(.*\\)$ (first '(' to last ')') is compiled in the packages that classify SELECT items and aggregate calls (shape/whole-call-regex).",
		NotDecided: "the arithmetic of post-aggregation expressions and the classification of SELECT items, HAVING truth values, DISTINCT's JSON-based equality, aggregate values.",
		Run:        runC07,
	})
}

func runC07(a *A) {
	a.Rule("flow/clause-order", 10, func() {
		fn := a.Method("stream", "DataProcessor", "processAggregationResults")
		isHidden := func(in ssa.Instruction) bool {
			c, ok := in.(*ssa.Call)
			if !ok {
				return false
			}
			if _, ok := isBuiltinCall(c, "delete"); !ok {
				return false
			}
			return guardedByValue(c.Block(), func(v ssa.Value) bool {
				cc, ok := v.(*ssa.Call)
				return ok && isCallNamed(cc, "strings", "HasPrefix")
			}, true)
		}
		isLimitSlice := func(in ssa.Instruction) bool {
			sl, ok := in.(*ssa.Slice)
			return ok && sl.High != nil && isFieldOf(TermOf(sl.High, nil), "types.Config", "Limit")
		}
		stages := []stage{
			{name: "DISTINCT", match: callOfMethod("stream", "DataProcessor", "applyDistinct", a)},
			{name: "HAVING", match: callOfMethod("stream", "DataProcessor", "applyHavingFilter", a)},
			{name: "strip-hidden-having", match: isHidden},
			{name: "ORDER BY", match: callOfMethod("stream", "Stream", "applyOrderBy", a)},
			{name: "LIMIT", match: isLimitSlice},
			{name: "deliver-channel", match: callOfMethod("stream", "Stream", "sendResultNonBlocking", a)},
			{name: "deliver-sinks", match: callOfMethod("stream", "Stream", "callSinksAsync", a)},
		}
		a.ruleStageOrder(fn, stages[:6])
		a.ruleStageOrder(fn, append(append([]stage{}, stages[:5]...), stages[6]))
		// what is delivered is what the LIMIT stage produced: the argument of the delivery calls
		// flows from the slice (or the un-sliced value on the other branch)
		allInstrs(fn, func(in ssa.Instruction) {
			if stages[5].match(in) || stages[6].match(in) {
				arg := callCommon(in).Args[1]
				ok := false
				for _, leaf := range phiLeaves(arg) {
					if _, isSl := leaf.(*ssa.Slice); isSl {
						ok = true
					}
				}
				a.Check(ok, fname(fn)+"#deliver-limited", in.Pos(), "the delivered batch is the LIMIT-ed one", "the delivered batch does not flow from the LIMIT slice")
			}
		})
	})
	a.Rule("ordtab/limit-prefix", 1, func() {
		fn := a.Method("stream", "DataProcessor", "processAggregationResults")
		n := 0
		allInstrs(fn, func(in ssa.Instruction) {
			sl, ok := in.(*ssa.Slice)
			if !ok || sl.High == nil || !isFieldOf(TermOf(sl.High, nil), "types.Config", "Limit") {
				return
			}
			n++
			if sl.Low != nil {
				if c, ok := sl.Low.(*ssa.Const); !ok || c.Int64() != 0 {
					a.Bad(fname(fn)+"#limit-prefix", in.Pos(), "LIMIT keeps results[%s:Limit], not the first n rows", TermOf(sl.Low, nil))
					return
				}
			}
			spec := OrdSpec{Roles: []string{"len", "n"},
				Role: func(t *Term) string {
					if t.Kind == "len" {
						return "len" // the only length compared with Limit is that of the batch being cut
					}
					if isFieldOf(t, "types.Config", "Limit") {
						return "n"
					}
					return ""
				}}
			a.OnlyIf(fname(fn)+"#limit-prefix", in.Pos(), "results are cut to [:Limit] only when there are more than Limit rows", spec,
				fn.Blocks[0], nil, nil,
				func(x ssa.Instruction, _ *Walker) bool { return x == in },
				func(r map[string]int, _ map[string]bool) bool { return r["len"] > r["n"] })
		})
		if n == 0 {
			a.Bad(fname(fn)+"#limit-prefix", fn.Pos(), "no results[:Limit] slice found: LIMIT is not applied")
		}
	})
	a.Rule("tables/hidden-columns", 2, func() {
		// created families: format constants __xxx_%d__ in package rsql
		re := regexp.MustCompile(`^(__[a-z]+_)%d__$`)
		created := map[string]token.Pos{}
		for _, fn := range a.ModFuncs {
			if fn.Pkg == nil || fn.Pkg.Pkg.Path() != modPath+"/rsql" {
				continue
			}
			allInstrs(fn, func(in ssa.Instruction) {
				for _, op := range in.Operands(nil) {
					if c, ok := (*op).(*ssa.Const); ok && c.Value != nil && c.Value.Kind() == constant.String {
						if m := re.FindStringSubmatch(constant.StringVal(c.Value)); m != nil {
							created[m[1]] = in.Pos()
						}
					}
				}
			})
		}
		// strip sites: delete guarded by strings.HasPrefix(k, const) in package stream
		strips := map[string]bool{}
		for _, fn := range a.ModFuncs {
			if fn.Pkg == nil || fn.Pkg.Pkg.Path() != modPath+"/stream" {
				continue
			}
			allInstrs(fn, func(in ssa.Instruction) {
				c, ok := in.(*ssa.Call)
				if !ok {
					return
				}
				if _, ok := isBuiltinCall(c, "delete"); !ok {
					return
				}
				for _, g := range guardsOf(c.Block()) {
					if hc, ok := g.Cond.(*ssa.Call); ok && g.Sense && isCallNamed(hc, "strings", "HasPrefix") {
						if k, ok := hc.Call.Args[1].(*ssa.Const); ok {
							strips[constant.StringVal(k.Value)] = true
						}
					}
				}
			})
		}
		if len(created) == 0 {
			a.Und("hidden-columns", token.NoPos, "no hidden-column format constant found in package rsql")
		}
		for fam, pos := range created {
			if fam == "__analytic_" {
				a.placeholderConfined(fam, pos)
				continue
			}
			ok := false
			for s := range strips {
				if strings.HasPrefix(fam, s) {
					ok = true
				}
			}
			a.Check(ok, "hidden-family:"+fam, pos, "created by the parser and stripped in package stream before delivery", fmt.Sprintf("the parser creates hidden columns %sN__ but no strip site (delete under strings.HasPrefix) in package stream matches: helper columns would appear in results", fam))
		}
	})
	a.Rule("ordtab/comparator", 4, func() { a.ruleOrderComparator() })
	a.Rule("shape/lossless-order-keys", 0, func() { a.ruleLosslessOrderKeys() }) // no float->int conversion today
	a.Rule("whomay/having-binding", 3, func() { a.ruleHavingBinding() })
	a.Rule("flow/delivered-batch-fresh", 7, func() { a.ruleDeliveredBatchFresh() })
	a.Rule("shape/whole-call-slice", 1, func() { a.ruleWholeCallSlice("rsql", "aggregator") })
	a.Rule("shape/whole-call-regex", 5, func() { a.ruleWholeCallRegex("rsql", "aggregator", "stream") })
	a.Rule("flow/expression-argument-registered", 3, func() { a.ruleExpressionArgumentRegistered() })
	a.Rule("tables/clause-terminators", 12, func() { a.ruleClauseTerminators() })
	a.Rule("flow/having-fails-closed", 2, func() { a.ruleHavingFailsClosed() })
	a.Rule("ownmap/hidden-column-families", 2, func() { a.ruleHiddenColumnFamilies() })
	a.Rule("shape/keyword-by-substring", 2, func() { a.ruleKeywordBySubstring("rsql", "stream", "aggregator", "functions", "condition") })
}

func (a *A) ruleOrderComparator() {
	cmp := a.Func("stream", "compareOrderValues")
	type branch struct {
		name   string
		role   func(t *Term) string
		assume func(t *Term, v ssa.Value) Tri
		nan    bool
	}
	argOf := func(t *Term) int { // which parameter (0 = a, 2 = b) a term derives from
		s := t.String()
		if strings.Contains(s, "(p0)") || strings.HasSuffix(s, "p0") || strings.Contains(s, "p0#") {
			return 0
		}
		if strings.Contains(s, "(p2)") || strings.HasSuffix(s, "p2") || strings.Contains(s, "p2#") {
			return 2
		}
		return -1
	}
	roleBy := func(pred func(t *Term) bool) func(t *Term) string {
		return func(t *Term) string {
			if !pred(t) {
				return ""
			}
			switch argOf(t) {
			case 0:
				return "a"
			case 2:
				return "b"
			}
			return ""
		}
	}
	isOkOf := func(v ssa.Value, what string) (bool, bool) { // (matches, isOkResult)
		ex, ok := v.(*ssa.Extract)
		if !ok {
			return false, false
		}
		switch what {
		case "numeric":
			// numericFloat, or any other module helper of shape (any) -> (number, bool) applied to a key
			if c, ok := ex.Tuple.(*ssa.Call); ok && isNumericConversion(a, c) {
				return true, ex.Index == 1
			}
		case "time":
			if ta, ok := ex.Tuple.(*ssa.TypeAssert); ok && isTimeTime(ta.AssertedType) {
				return true, ex.Index == 1
			}
		case "bool":
			if ta, ok := ex.Tuple.(*ssa.TypeAssert); ok && isBool(ta.AssertedType) {
				return true, ex.Index == 1
			}
		}
		return false, false
	}
	mkAssume := func(active string) func(t *Term, v ssa.Value) Tri {
		return func(t *Term, v ssa.Value) Tri {
			if p, ok := v.(*ssa.Parameter); ok && isBool(p.Type()) {
				return T // both keys present
			}
			for _, w := range []string{"numeric", "time", "bool"} {
				if m, isOk := isOkOf(v, w); m && isOk {
					return tri(w == active)
				}
			}
			return U
		}
	}
	branches := []branch{
		{"numbers", roleBy(func(t *Term) bool {
			if t.Kind != "extract" || t.Idx != 0 || t.Base.Kind != "call" {
				return false
			}
			c, ok := t.Base.Val.(*ssa.Call)
			return ok && isNumericConversion(a, c)
		}), mkAssume("numeric"), true},
		{"times", func(t *Term) string {
			if t.Kind == "param" && t.Idx == 0 {
				return "a"
			}
			if t.Kind == "param" && t.Idx == 2 {
				return "b"
			}
			return ""
		}, mkAssume("time"), false},
		{"strings", roleBy(func(t *Term) bool { return t.Kind == "call" && strings.HasSuffix(t.Name, "orderString") }), mkAssume("string"), false},
	}
	for _, br := range branches {
		construct := fname(cmp) + "#" + br.name
		flags := []string{}
		if br.nan {
			flags = []string{"nan:a"}
		}
		bad := ""
		rows := 0
		for _, r := range weakOrderings([]string{"a", "b"}) {
			for fm := 0; fm < 1<<len(flags); fm++ {
				fl := map[string]bool{}
				for i, f := range flags {
					fl[f] = fm&(1<<i) != 0
				}
				env := &Env{a: a, Rank: r, Flags: fl, Role: br.role, Assume: br.assume}
				w := NewWalker(env, nil)
				w.RetIdx = 0
				outs := w.Run(cmp.Blocks[0], nil)
				want := int64(0)
				if !fl["nan:a"] {
					if r["a"] < r["b"] {
						want = -1
					} else if r["a"] > r["b"] {
						want = 1
					}
				}
				rows++
				for _, o := range outs {
					if o.Ended != "return" || o.RetI == nil {
						bad = fmt.Sprintf("undecided under [%s]: path ended with %s without a constant result; %s", fmtOrdering(r, fl), o.Ended, o.Why)
						break
					}
					if *o.RetI != want {
						bad = fmt.Sprintf("under [%s] the comparator returns %d, expected %d", fmtOrdering(r, fl), *o.RetI, want)
						break
					}
				}
				if bad != "" {
					break
				}
			}
			if bad != "" {
				break
			}
		}
		if bad == "" {
			a.Ok(construct, cmp.Pos(), "three-way comparison of %s is -1/0/+1 for a<b / a=b / a>b under all %d orderings", br.name, rows).Extra = map[string]any{"exhaustive": true}
		} else if strings.HasPrefix(bad, "undecided") {
			a.Und(construct, cmp.Pos(), "%s", bad)
		} else {
			a.Bad(construct, cmp.Pos(), "ORDER BY comparator on %s: %s", br.name, bad)
		}
	}
	// Sorter.less: ASC c<0, DESC c>0, tie -> next key
	less := a.Method("stream", "Sorter", "less")
	var loop *RLoop
	for _, l := range rangeLoops(less) {
		loop = l
	}
	if loop == nil {
		a.Und(fname(less)+"#direction", less.Pos(), "no loop over the sort keys found")
		return
	}
	for _, desc := range []bool{false, true} {
		construct := fmt.Sprintf("%s#direction-desc=%v", fname(less), desc)
		bad := ""
		for _, r := range weakOrderings([]string{"c", "Z"}) {
			env := &Env{a: a, Rank: r, Flags: map[string]bool{},
				Role: func(t *Term) string {
					if t.Kind == "call" && strings.HasSuffix(t.Name, "compareOrderValues") {
						return "c"
					}
					if t.Kind == "const" && t.Const != nil && t.Const.Kind() == constant.Int && t.Const.ExactString() == "0" {
						return "Z"
					}
					return ""
				},
				Assume: func(t *Term, v ssa.Value) Tri {
					if bo, ok := v.(*ssa.BinOp); ok && bo.Op == token.EQL {
						if isFieldOf(TermOf(bo.X, nil), "types.OrderByField", "Direction") {
							return tri(desc)
						}
					}
					return U
				}}
			w := NewWalker(env, nil)
			w.RetIdx = 0
			w.Stop = func(b *ssa.BasicBlock) bool { return b == loop.Header }
			outs := w.Run(loop.Body, loop.Header)
			for _, o := range outs {
				switch {
				case r["c"] == r["Z"]:
					if o.Ended != "stop" {
						bad = fmt.Sprintf("on a tie (c=0) the loop does not continue with the next key (ended with %s)", o.Ended)
					}
				default:
					want := (r["c"] < r["Z"]) != desc
					if o.Ended != "return" || o.Ret == U || (o.Ret == T) != want {
						bad = fmt.Sprintf("with c %s 0 and DESC=%v, less ends with %s result %v, expected %v", map[bool]string{true: "<", false: ">"}[r["c"] < r["Z"]], desc, o.Ended, o.Ret, want)
					}
				}
			}
		}
		if bad == "" {
			a.Ok(construct, less.Pos(), "ASC sorts by c<0, DESC by c>0, ties fall through to the next key").Extra = map[string]any{"exhaustive": true}
		} else {
			a.Bad(construct, less.Pos(), "%s", bad)
		}
	}
}

// placeholderConfined: WHERE analytic placeholders (__analytic_N__) are never stripped because they
// must never reach a projected row: every map write keyed by WhereAnalyticCall.Placeholder targets a
// map freshly made in that function, and that function's result is used only as the argument of the
// WHERE predicate's Evaluate.
func (a *A) placeholderConfined(fam string, pos token.Pos) {
	construct := "hidden-family:" + fam
	n := 0
	okAll := true
	why := ""
	for _, fn := range a.ModFuncs {
		if fn.Pkg == nil || fn.Pkg.Pkg.Path() != modPath+"/stream" {
			continue
		}
		allInstrs(fn, func(in ssa.Instruction) {
			mu, ok := in.(*ssa.MapUpdate)
			if !ok || !isFieldOf(TermOf(mu.Key, nil), "types.WhereAnalyticCall", "Placeholder") {
				return
			}
			n++
			// a map made here, or a scratch map taken from a sync.Pool (emptied by the pool's discipline,
			// flow/pooled-map-cleared): in either case an object no row outside this evaluation refers to
			fresh := true
			for _, l := range phiLeaves(mu.Map) {
				switch x := l.(type) {
				case *ssa.MakeMap:
				case *ssa.Extract:
					ta, isTA := x.Tuple.(*ssa.TypeAssert)
					if !isTA || x.Index != 0 {
						fresh = false
						break
					}
					if gc, isCall := ta.X.(*ssa.Call); !isCall || calleeFull(&gc.Call) != "(*sync.Pool).Get" {
						fresh = false
					}
				case *ssa.TypeAssert:
					if gc, isCall := x.X.(*ssa.Call); !isCall || calleeFull(&gc.Call) != "(*sync.Pool).Get" {
						fresh = false
					}
				default:
					fresh = false
				}
			}
			if !fresh {
				okAll = false
				why = fmt.Sprintf("%s writes a placeholder into %s, which is not a map made in that function", fname(fn), TermOf(mu.Map, nil))
				return
			}
			// uses of fn's result
			for _, caller := range a.ModFuncs {
				for _, c := range callsTo(caller, fn) {
					cv, isVal := c.(*ssa.Call)
					if !isVal {
						continue
					}
					for v := range flowsForward(cv) {
						refs := v.Referrers()
						if refs == nil {
							continue
						}
						for _, r := range *refs {
							switch u := r.(type) {
							case *ssa.Phi, *ssa.MakeInterface, *ssa.ChangeType, *ssa.Convert:
							case *ssa.Range, *ssa.BinOp:
								// walked to be emptied, compared with nil: the row goes nowhere
								continue
							case *ssa.Call:
								if isPredicateEvalCall(&u.Call) {
									continue
								}
								// emptied and handed back to the scratch pool it came from (flow/pooled-map-cleared judges
								// that it is empty when it goes back)
								if _, isDel := isBuiltinCall(u, "delete"); isDel {
									continue
								}
								if _, isLen := isBuiltinCall(u, "len"); isLen {
									continue
								}
								if _, isClr := isBuiltinCall(u, "clear"); isClr {
									continue
								}
								if calleeFull(&u.Call) == "(*sync.Pool).Put" {
									continue
								}
								// a same-package helper that only hands its parameter to the predicate
								if h := u.Call.StaticCallee(); h != nil && h.Blocks != nil && h.Pkg == caller.Pkg {
									onlyEval := true
									for i, arg := range u.Call.Args {
										if arg != v || i >= len(h.Params) {
											continue
										}
										for hv := range flowsForward(h.Params[i]) {
											if hv.Referrers() == nil {
												continue
											}
											for _, hr := range *hv.Referrers() {
												switch hu := hr.(type) {
												case *ssa.Phi, *ssa.MakeInterface, *ssa.ChangeType, *ssa.Convert, *ssa.DebugRef:
												case *ssa.Call:
													if !isPredicateEvalCall(&hu.Call) {
														onlyEval = false
													}
												default:
													onlyEval = false
												}
											}
										}
									}
									if onlyEval {
										continue
									}
								}
								okAll = false
								why = fmt.Sprintf("the row carrying placeholders is passed to %s in %s", TermOf(u, nil), fname(caller))
							case *ssa.DebugRef:
							default:
								okAll = false
								why = fmt.Sprintf("the row carrying placeholders is used by %T in %s (not only by the predicate)", r, fname(caller))
							}
						}
					}
				}
			}
		})
	}
	if n == 0 {
		a.Ok(construct, pos, "placeholders are created by the parser but never written into a row").Trivial = true
		return
	}
	a.Check(okAll, construct, pos, "WHERE placeholders are written only into a private row that is used solely as the predicate's argument (never projected)", "a WHERE analytic placeholder can reach a projected row: "+why)
}

// ruleHavingBinding: in extractHavingAggregates each aggregate call of the HAVING text is replaced by
// one of exactly three things: the SELECT alias registered for that very call text, the call text
// itself (selected without alias), or a freshly registered hidden aggregate __having_N__. Anything
// else (a "similar" aggregate found by some other criterion) binds the predicate to another value.
func (a *A) ruleHavingBinding() {
	fn := a.Func("rsql", "extractHavingAggregates")
	n := 0
	allInstrs(fn, func(in ssa.Instruction) {
		st, ok := in.(*ssa.Store)
		if !ok || !isStringType(st.Val.Type()) {
			return
		}
		ia, ok := st.Addr.(*ssa.IndexAddr)
		if !ok {
			return
		}
		if _, isMake := ia.X.(*ssa.MakeSlice); !isMake {
			return
		}
		n++
		for _, leaf := range phiLeaves(st.Val) {
			t := TermOf(leaf, nil)
			s := t.String()
			ok := false
			switch {
			case t.Kind == "index" && t.Base.Kind == "param" && isMapOfString(t.Base.Typ):
				ok = true // selectAlias[call text]
			case t.Kind == "index" && t.Base.Kind != "param":
				ok = true // the call text itself (element of the calls slice)
			case isSubstringOfParam(leaf, fn):
				ok = true // the call text itself, cut out of the HAVING text
			case isLookupInStringMapParam(leaf):
				ok = true // selectAlias[call text], read with the comma-ok form
			case t.Kind == "call" && t.Name == "fmt.Sprintf":
				if c, isCall := leaf.(*ssa.Call); isCall {
					if k, isK := c.Call.Args[0].(*ssa.Const); isK && k.Value != nil && strings.HasPrefix(constant.StringVal(k.Value), "__having_") {
						ok = true
					}
				}
			}
			a.Check(ok, fname(fn)+"#having-binding", st.Pos(), "a HAVING aggregate is replaced by its own alias, its own call text or a fresh hidden aggregate ("+s+")",
				"a HAVING aggregate call is replaced by "+s+", which is neither the alias of that very call, the call text, nor a fresh hidden aggregate: the predicate would be evaluated on another aggregate's value")
		}
	})
	if n == 0 {
		a.Und(fname(fn)+"#having-binding", fn.Pos(), "no replacement table found in extractHavingAggregates")
	}
}

// isSubstringOfParam: v is s[a:b] for a string parameter s of fn.
func isSubstringOfParam(v ssa.Value, fn *ssa.Function) bool {
	sl, ok := v.(*ssa.Slice)
	if !ok || !isStringType(sl.Type()) {
		return false
	}
	p, ok := sl.X.(*ssa.Parameter)
	return ok && p.Parent() == fn && isStringType(p.Type())
}

// isLookupInStringMapParam: v is m[k] or the value half of `v, ok := m[k]` for a parameter m of type map[..]string.
func isLookupInStringMapParam(v ssa.Value) bool {
	if ex, ok := v.(*ssa.Extract); ok && ex.Index == 0 {
		v = ex.Tuple
	}
	lk, ok := v.(*ssa.Lookup)
	if !ok {
		return false
	}
	p, ok := lk.X.(*ssa.Parameter)
	return ok && isMapOfString(p.Type())
}

func isMapOfString(t types.Type) bool {
	if t == nil {
		return false
	}
	m, ok := t.Underlying().(*types.Map)
	return ok && isStringType(m.Elem())
}

// wholeCallReviewed: call edges into a function that cuts "first ( … last )" out of its argument,
// where the caller passes text that is one whole call by construction. Confirmed by reading; one
// reason per edge.
var wholeCallReviewed = map[string]string{
	"rsql.extractAggFieldWithExpression<-rsql.ParseAggregateTypeWithExpression":                                 "reached only after the item was found to have no operator outside its outermost call (containsOperatorsOutsideFunctions returned false)",
	"aggregator.hasMultipleTopLevelArgs<-(*aggregator.EnhancedGroupAggregator).AddPostAggregationExpression":     "field.FullCall is the text of one call, cut out at its matching parenthesis by the extractor of aggregate calls",
	"(*aggregator.EnhancedGroupAggregator).parseFunctionCall<-(*aggregator.EnhancedGroupAggregator).createParameterizedAggregator": "field.FullCall, as above",
	"(*stream.Stream).parseFunctionArgs<-(*stream.analyticFieldEngine).applyCall":                            "AnalyticCall.BareCall is expr[nameStart : matchingParen+1] (rsql.extractAnalyticCalls)",
	"(*stream.Stream).parseFunctionArgs<-(*stream.analyticFieldEngine).evaluateMultiColumn":                     "AnalyticField.Expression is Calls[0].BareCall for a field that is exactly one analytic call",
}

// ruleWholeCallSlice: a function that takes strings.Index(s,"(") and strings.LastIndex(s,")") of the
// same text treats s as one call f(...). For `sum(v) * 2` or `round(x/3, 2) + mod(a, b)` that is wrong
// (the slice is the first argument list, or two argument lists glued together), and both forms were
// mis-evaluated. Every such function must prove the call spans the text — the LastIndex result is
// compared with the result of a paren-matching helper — or every caller must: the call is dominated by
// a whole-call predicate on the same value, or the edge is in the reviewed table.
func (a *A) ruleWholeCallSlice(pkgs ...string) int {
	inPkgs := map[*ssa.Package]bool{}
	for _, p := range pkgs {
		inPkgs[a.Pkg(p)] = true
	}
	n := 0
	for _, fn := range a.ModFuncs {
		if fn.Pkg == nil || !inPkgs[fn.Pkg] {
			continue
		}
		var idx, last *ssa.Call
		allInstrs(fn, func(in ssa.Instruction) {
			c, ok := in.(*ssa.Call)
			if !ok {
				return
			}
			f := c.Call.StaticCallee()
			if f == nil || f.Pkg == nil || f.Pkg.Pkg.Path() != "strings" || len(c.Call.Args) != 2 {
				return
			}
			switch f.Name() {
			case "Index":
				if strings.Contains(constText(c.Call.Args[1]), "(") {
					idx = c
				}
			case "LastIndex":
				if constText(c.Call.Args[1]) == ")" {
					last = c
				}
			}
		})
		if idx == nil || last == nil {
			continue
		}
		n++
		construct := fname(fn) + "#whole-call"
		// (1) local proof: LastIndex result compared with a module helper (string, int) -> int
		local := false
		allInstrs(fn, func(in ssa.Instruction) {
			bo, ok := in.(*ssa.BinOp)
			if !ok || bo.Op != token.EQL && bo.Op != token.NEQ {
				return
			}
			for _, pair := range [][2]ssa.Value{{bo.X, bo.Y}, {bo.Y, bo.X}} {
				c, ok := pair[0].(*ssa.Call)
				if !ok || pair[1] != ssa.Value(last) {
					continue
				}
				if f := c.Call.StaticCallee(); f != nil && a.fnInModule(f) && f.Signature.Params().Len() == 2 && isIntType(f.Signature.Results().At(0).Type()) {
					local = true
				}
			}
		})
		if local {
			a.Ok(construct, last.Pos(), "the closing parenthesis found by LastIndex is required to match the first opening one")
			continue
		}
		// (1b) the text that is cut is itself one whole call by construction, wherever the cutting code lives: every
		// value it can be is read from a field that the analytic-call extractor fills with expr[nameStart:matchingParen+1]
		wholeByField := map[string]string{
			"BareCall":   "AnalyticCall.BareCall is expr[nameStart : matchingParen+1] (rsql.extractAnalyticCalls)",
			"Expression": "AnalyticField.Expression is Calls[0].BareCall for a field that is exactly one analytic call",
		}
		allWhole, some := true, false
		for _, l := range valueSources(idx.Call.Args[0]) {
			t := TermOf(l, nil)
			if t.Kind == "field" && t.Field != nil {
				if t.Field == a.FieldOf(a.Named("types", "AnalyticCall"), "BareCall") || t.Field == a.FieldOf(a.Named("types", "AnalyticField"), "Expression") {
					some = true
					continue
				}
			}
			allWhole = false
		}
		if allWhole && some {
			a.Ok(construct, last.Pos(), "the text that is cut is read from a field that holds exactly one call (%s)", wholeByField["BareCall"])
			continue
		}
		// (2) callers
		node := a.CG().Nodes[fn]
		var bad []string
		okEdges := 0
		if node != nil {
			for _, e := range node.In {
				if e.Caller == nil || !a.fnInModule(e.Caller.Func) || e.Site == nil {
					continue
				}
				key := fname(fn) + "<-" + fname(e.Caller.Func)
				if _, ok := wholeCallReviewed[key]; ok {
					okEdges++
					continue
				}
				// which argument carries the text: the one of string type that feeds Index
				guarded := false
				for _, arg := range e.Site.Common().Args {
					if !isStringType(arg.Type()) {
						continue
					}
					if guardedByValue(e.Site.Block(), func(v ssa.Value) bool {
						c, ok := v.(*ssa.Call)
						if !ok || len(c.Call.Args) != 1 || c.Call.Args[0] != arg {
							return false
						}
						f := c.Call.StaticCallee()
						return f != nil && a.fnInModule(f)
					}, true) {
						guarded = true
					}
				}
				if guarded {
					okEdges++
				} else {
					bad = append(bad, fname(e.Caller.Func))
				}
			}
		}
		sort.Strings(bad)
		a.Check(len(bad) == 0, construct, last.Pos(),
			fmt.Sprintf("all %d callers pass one whole call (guarded by a whole-call predicate or reviewed)", okEdges),
			"cuts first '(' … last ')' out of its argument without checking that they match, and the caller(s) "+strings.Join(bad, ", ")+" may pass text that continues after the call (`f(x) * 2`, `f(a, b) + g(c, d)`): the cut is not the argument list")
	}
	return n
}

func constText(v ssa.Value) string {
	if k, ok := v.(*ssa.Const); ok && k.Value != nil && k.Value.Kind() == constant.String {
		return constant.StringVal(k.Value)
	}
	if bo, ok := v.(*ssa.BinOp); ok && bo.Op == token.ADD {
		return constText(bo.X) + constText(bo.Y)
	}
	return ""
}

// ruleExpressionArgumentRegistered: ParseAggregateTypeWithExpression returns the aggregate type and,
// for an argument that is an expression (sum(v*2)), the expression to evaluate per row. A caller that
// registers the aggregate (stores the type into a map) must also register the expression; dropping it
// silently turns sum(v*2) into sum(v).
func (a *A) ruleExpressionArgumentRegistered() int {
	parse := a.Func("rsql", "ParseAggregateTypeWithExpression")
	n := 0
	reach := a.APIReach()
	for _, fn := range a.ModFuncs {
		if !reach[fn] {
			continue // e.g. buildSelectFields: kept for its unit tests, not reachable from Execute
		}
		for _, site := range callsTo(fn, parse) {
			call, ok := site.(*ssa.Call)
			if !ok {
				continue
			}
			var typ, expr *ssa.Extract
			for _, r := range *call.Referrers() {
				if ex, ok := r.(*ssa.Extract); ok {
					switch ex.Index {
					case 0:
						typ = ex
					case 2:
						expr = ex
					}
				}
			}
			if typ == nil {
				continue
			}
			registers := false
			for v := range flowsForward(typ) {
				if v.Referrers() == nil {
					continue
				}
				for _, r := range *v.Referrers() {
					if mu, ok := r.(*ssa.MapUpdate); ok && mu.Value == v {
						registers = true
					}
				}
			}
			if !registers {
				continue
			}
			n++
			construct := fname(fn) + "#registers-expression"
			used := false
			if expr != nil {
				for v := range flowsForward(expr) {
					if v.Referrers() == nil {
						continue
					}
					for _, r := range *v.Referrers() {
						switch u := r.(type) {
						case *ssa.Store:
							if u.Val == v {
								used = true
							}
						case *ssa.MapUpdate:
							if u.Value == v {
								used = true
							}
						case *ssa.Return:
							used = true
						}
					}
				}
			}
			a.Check(used, construct, call.Pos(),
				"the aggregate is registered together with its expression argument",
				"the aggregate type returned by ParseAggregateTypeWithExpression is registered, the expression argument it returned is dropped: agg(x*2) would be computed as agg(x)")
		}
	}
	return n
}

// keywordSubstringReviewed: strings.Contains(strings.ToUpper(text), "KEYWORD") sites whose false
// positives (the letters inside an identifier or a literal) were read and found harmless.
var keywordSubstringReviewed = map[string]string{
	"rsql.ParseAggregateTypeWithExpression:AND": "only decides that a bare SELECT item is evaluated as an expression; a plain column evaluates to its own value either way",
	"rsql.ParseAggregateTypeWithExpression:OR":  "as for AND",
}

// ruleKeywordBySubstring: deciding that a predicate or item uses an SQL keyword by looking for its
// letters anywhere in the upper-cased text also fires on identifiers and string literals (HAVING cases
// > 1 was routed to the CASE evaluator). Every strings.Contains(upper-cased text, "WORD") with an
// all-letters constant is either in the reviewed table or reported.
func (a *A) ruleKeywordBySubstring(pkgs ...string) int {
	inPkgs := map[*ssa.Package]bool{}
	for _, p := range pkgs {
		inPkgs[a.Pkg(p)] = true
	}
	word := regexp.MustCompile(`^[A-Z]{2,}$`)
	n := 0
	for _, fn := range a.ModFuncs {
		if fn.Pkg == nil || !inPkgs[fn.Pkg] {
			continue
		}
		allInstrs(fn, func(in ssa.Instruction) {
			c, ok := in.(*ssa.Call)
			if !ok {
				return
			}
			f := c.Call.StaticCallee()
			if f == nil || f.Pkg == nil || f.Pkg.Pkg.Path() != "strings" || f.Name() != "Contains" {
				return
			}
			k := constText(c.Call.Args[1])
			if !word.MatchString(k) {
				return
			}
			upper := false
			for _, l := range phiLeaves(c.Call.Args[0]) {
				if tc, ok := l.(*ssa.Call); ok {
					if tf := tc.Call.StaticCallee(); tf != nil && tf.Pkg != nil && tf.Pkg.Pkg.Path() == "strings" && tf.Name() == "ToUpper" {
						upper = true
					}
				}
			}
			if !upper {
				return
			}
			n++
			key := fname(fn) + ":" + k
			why, reviewed := keywordSubstringReviewed[key]
			a.Check(reviewed, key+"#keyword-by-substring", c.Pos(), "reviewed: "+why,
				"the keyword "+k+" is detected by strings.Contains on the upper-cased text: an identifier or a string literal containing these letters takes the keyword's path")
		})
	}
	return n
}

// isNumericConversion: a call of a module function (any) -> (float or integer, bool) — the idiom by
// which the comparator turns a key into a number (numericFloat, an exact-integer variant, ...).
func isNumericConversion(a *A, c *ssa.Call) bool {
	f := c.Call.StaticCallee()
	if f == nil || !a.fnInModule(f) {
		return false
	}
	sig := f.Signature
	if sig.Params().Len() != 1 || sig.Results().Len() != 2 {
		return false
	}
	if _, ok := sig.Params().At(0).Type().Underlying().(*types.Interface); !ok {
		return false
	}
	b0, ok := sig.Results().At(0).Type().Underlying().(*types.Basic)
	if !ok || b0.Info()&types.IsNumeric == 0 {
		return false
	}
	b1, ok := sig.Results().At(1).Type().Underlying().(*types.Basic)
	return ok && b1.Kind() == types.Bool
}

// ruleLosslessOrderKeys: a helper that turns an ORDER BY key into an integer must not truncate: every
// conversion float -> integer in a numeric-conversion helper reachable from compareOrderValues is
// guarded by an integrality test of the converted value (x == math.Trunc(x) and the like, or a
// comparison with the back-conversion). Otherwise keys that differ only in their fraction (20.2, 20.7)
// compare equal and ORDER BY / LIMIT keep arbitrary rows.
func (a *A) ruleLosslessOrderKeys() int {
	cmp := a.Func("stream", "compareOrderValues")
	n := 0
	for fn := range a.ReachFrom([]*ssa.Function{cmp}) {
		if fn.Pkg != cmp.Pkg {
			continue
		}
		allInstrs(fn, func(in ssa.Instruction) {
			cv, ok := in.(*ssa.Convert)
			if !ok {
				return
			}
			src, ok1 := cv.X.Type().Underlying().(*types.Basic)
			dst, ok2 := cv.Type().Underlying().(*types.Basic)
			if !ok1 || !ok2 || src.Info()&types.IsFloat == 0 || dst.Info()&types.IsInteger == 0 {
				return
			}
			n++
			guarded := false
			for _, g := range guardsOf(cv.Block()) {
				bo, ok := g.Cond.(*ssa.BinOp)
				if !ok || bo.Op != token.EQL && bo.Op != token.NEQ {
					continue
				}
				sense := g.Sense == (bo.Op == token.EQL)
				if !sense {
					continue
				}
				for _, pair := range [][2]ssa.Value{{bo.X, bo.Y}, {bo.Y, bo.X}} {
					if pair[0] != cv.X {
						continue
					}
					switch y := pair[1].(type) {
					case *ssa.Call:
						if f := y.Call.StaticCallee(); f != nil && f.Pkg != nil && f.Pkg.Pkg.Path() == "math" && (f.Name() == "Trunc" || f.Name() == "Floor" || f.Name() == "Round" || f.Name() == "Ceil") {
							guarded = true
						}
					case *ssa.Convert:
						if inner, ok := y.X.(*ssa.Convert); ok && inner.X == cv.X {
							guarded = true
						}
					}
				}
			}
			a.Check(guarded, fname(fn)+"#float-to-int", cv.Pos(), "the float is converted to an integer only after it was found integral",
				"a float ORDER BY key is converted to an integer without an integrality test: keys that differ only in their fraction compare equal, so ORDER BY leaves them in arbitrary order and LIMIT keeps arbitrary rows")
		})
	}
	return n
}

// ruleHiddenColumnFamilies: the pipeline parks intermediate values in result rows under hidden column
// families told apart by their prefix (aggregate placeholders "__name__", "__having_N__" for HAVING,
// "__winagg_…" for inline aggregates). A stage that sweeps a row (ranges over it and deletes by
// pattern) may only take its own family: the prefix it tests must not also be a prefix of another
// family's prefix — a sweep for "__" run by the post-aggregation stage deletes "__having_1__" before
// HAVING has read it, and every group is dropped.
func (a *A) ruleHiddenColumnFamilies() int {
	// the families: "__x…" constants used to build or test column names
	fam := map[string]bool{}
	for _, fn := range a.ModFuncs {
		if fn.Blocks == nil || fn.Pkg == nil {
			continue
		}
		switch fn.Pkg {
		case a.Pkg("rsql"), a.Pkg("stream"), a.Pkg("aggregator"), a.Pkg("window"):
		default:
			continue
		}
		allInstrs(fn, func(in ssa.Instruction) {
			var ops []ssa.Value
			switch x := in.(type) {
			case *ssa.BinOp:
				if x.Op == token.ADD {
					ops = []ssa.Value{x.X, x.Y}
				}
			case *ssa.Call:
				if sc := x.Call.StaticCallee(); sc != nil && sc.Pkg != nil && sc.Pkg.Pkg.Path() == "strings" && sc.Name() == "HasPrefix" {
					ops = x.Call.Args[1:]
				}
			}
			for _, o := range ops {
				if s := constText(o); strings.HasPrefix(s, "__") && len(s) > 2 && !strings.HasSuffix(s, "__") {
					fam[s] = true
				}
			}
		})
	}
	// prefix tests inside a function on a given parameter index (one helper level)
	var prefixesOf func(cond ssa.Value, k ssa.Value, d int) []string
	prefixesOf = func(cond ssa.Value, k ssa.Value, d int) []string {
		var out []string
		for x := range backwardSlice(cond, 4) {
			c, ok := x.(*ssa.Call)
			if !ok {
				continue
			}
			sc := c.Call.StaticCallee()
			if sc == nil {
				continue
			}
			if sc.Pkg != nil && sc.Pkg.Pkg.Path() == "strings" && sc.Name() == "HasPrefix" && c.Call.Args[0] == k {
				out = append(out, constText(c.Call.Args[1]))
				continue
			}
			if d < 2 && a.fnInModule(sc) && sc.Blocks != nil {
				for i, arg := range c.Call.Args {
					if arg != k || i >= len(sc.Params) {
						continue
					}
					// every prefix test the helper makes on that parameter (they may sit in the conditions
					// of a short-circuit, not in the returned value)
					allInstrs(sc, func(y ssa.Instruction) {
						if hc, ok := y.(*ssa.Call); ok {
							if hs := hc.Call.StaticCallee(); hs != nil && hs.Pkg != nil && hs.Pkg.Pkg.Path() == "strings" && hs.Name() == "HasPrefix" && hc.Call.Args[0] == ssa.Value(sc.Params[i]) {
								out = append(out, constText(hc.Call.Args[1]))
							}
						}
					})
				}
			}
		}
		return out
	}
	n := 0
	for _, fn := range a.ModFuncs {
		if fn.Blocks == nil || (fn.Pkg != a.Pkg("stream") && fn.Pkg != a.Pkg("aggregator")) {
			continue
		}
		for _, l := range mapRangeLoops(fn) {
			for b := range l.Blocks {
				for _, in := range b.Instrs {
					c, ok := in.(*ssa.Call)
					if !ok {
						continue
					}
					cc, ok := isBuiltinCall(c, "delete")
					if !ok {
						continue
					}
					// the same map that is ranged over, and the loop's key
					if !sameValueOrLoad(cc.Args[0], l.X) {
						continue
					}
					key := cc.Args[1]
					var prefixes []string
					guarded := false
					for _, g := range guardsOf(b) {
						if !l.Blocks[g.If.Block()] {
							continue
						}
						guarded = true
						prefixes = append(prefixes, prefixesOf(g.Cond, key, 0)...)
					}
					if !guarded {
						continue // clearing a map, not a sweep by pattern
					}
					n++
					bad := ""
					if len(prefixes) == 0 {
						bad = "no constant prefix test on the column name recognised"
					}
					for _, p := range prefixes {
						for q := range fam {
							if q != p && strings.HasPrefix(q, p) {
								bad = fmt.Sprintf("the sweep takes every column starting with %q, which includes the family %q of another stage", p, q)
							}
						}
					}
					a.Check(bad == "", fmt.Sprintf("%s#sweep-own-family", fname(fn)), in.Pos(),
						fmt.Sprintf("the row sweep deletes the columns of one hidden family only (prefix %v)", prefixes),
						"a stage sweeps result rows by pattern: "+bad+" — hidden values another stage still needs (HAVING aggregates, inline window aggregates) are deleted before they are read")
				}
			}
		}
	}
	return n
}

func sameValueOrLoad(x, y ssa.Value) bool {
	if x == y {
		return true
	}
	return TermOf(x, nil).String() == TermOf(y, nil).String()
}

// ruleWholeCallRegex: the regular-expression form of the defect shape/whole-call-slice describes. A
// pattern of the shape  name \( .* \) $  (an opening parenthesis, a greedy "anything", a closing
// parenthesis at the end of the text) matches from the first "(" to the last ")", so it accepts
// `sum(v) / (1 + 2)` as "one call": regular expressions cannot match parentheses. No pattern of that
// shape may be compiled in the packages that classify SELECT items and aggregate calls.
func (a *A) ruleWholeCallRegex(pkgs ...string) int {
	inPkgs := map[*ssa.Package]bool{}
	for _, p := range pkgs {
		inPkgs[a.Pkg(p)] = true
	}
	greedy := regexp.MustCompile(`\\\(\.[*+]\\\)\$`) // the text  \(.*\)$  inside a pattern
	n := 0
	fns := append([]*ssa.Function{}, a.ModFuncs...)
	for p := range inPkgs {
		if p != nil {
			if ini := p.Func("init"); ini != nil {
				fns = append(fns, ini) // package-level pattern variables are compiled in the initialiser
			}
		}
	}
	for _, fn := range fns {
		if !inPkgs[ssaPkgOf(fn)] || fn.Blocks == nil {
			continue
		}
		allInstrs(fn, func(in ssa.Instruction) {
			c, ok := in.(*ssa.Call)
			if !ok {
				return
			}
			name := calleeFull(&c.Call)
			if name != "regexp.MustCompile" && name != "regexp.Compile" || len(c.Call.Args) != 1 {
				return
			}
			pat := constText(c.Call.Args[0])
			if pat == "" {
				return
			}
			n++
			a.Check(!greedy.MatchString(pat), fmt.Sprintf("%s#regex:%s", fname(fn), pat), in.Pos(), "the pattern does not span first '(' to last ')'",
				"the pattern "+pat+" matches from the first '(' to the last ')' of the text: `f(x) op (y)` is taken for one call of f, and what follows the call is dropped or glued into its arguments")
		})
	}
	return n
}
